"""C51 -- Pickling round-trips (getstate/setstate key agreement, restore-before-read ordering in __setstate__,
reduce/constructor arity, serializer tags and payload keys)."""

from __future__ import annotations

import ast
import re

from ..astutil import call_name, calls_in, const_str, dotted, guard_atoms, lexical_guards, unparse, walk_local
from ..cfg import no_exc
from ..report import Registry, chain, sub
from ._helpers_rob_h1 import contributing_stmts, nform, str_parts

R = Registry(
    "C51",
    title="Pickling and serializer round-trips preserve state and results",
    decides=(
        "for every class defining both __getstate__ and __setstate__: every key the reader requires "
        "(state['k'] outside a `'k' in state` / state.get('k') guard) is written unconditionally by the writer; "
        "for every literal __reduce__/__reduce_ex__ tuple: the argument count is accepted by the constructor of "
        "the class (and of every subclass inheriting that __reduce__) or by the named reconstructor function; "
        "InstanceState re-creates its weak reference with the _cleanup callback and calls the manager callable "
        "that __getstate__ stores last; every ext.serializer persistent-id tag written is matched by the reader "
        "regex, has a reader branch and the same number of ':' fields; inside every __setstate__ no attribute is "
        "read (directly, via self/super methods, via a resolvable callee handed self) before the statement that "
        "restores it, and InstanceState restores nothing after the manager callable ran; every ext.serializer field "
        "used as a lookup key by the reader is written from the attribute that keys that collection "
        "(MetaData.tables/Table.key, Table.c/Column.key, Mapper.attrs/MapperProperty.key) and encoded fields are "
        "decoded by the inverse pair; every persistent id is written under a positive isinstance test of the pickled "
        "object and returned, every reader branch is an equality test on the tag and returns the resolved object; "
        "every literal key written by a __getstate__ is looked at by the __setstate__ of the same class (or the state "
        "is handed over as a whole), and every __setstate__ uses its state parameter; a value that __setstate__ installs "
        "unchanged as attribute A was written by __getstate__ from the whole of self.A (not from another plain attribute, "
        "not from a content-filtered comprehension/filter()/loop or a slice of it; type-only filters are by design); every "
        "_for_freeze() of the ResultMetaData family hands the constructor of the frozen metadata class, from the state of "
        "the metadata being frozen, every parameter that flows into that class's key-lookup state."
    ),
    not_decided="equality of the unpickled objects, pickle protocol specifics, user-defined classes.",
)

def _state_param(fn):
    a = fn.args.args
    return a[1].arg if len(a) > 1 else None


def _loop_literals(pm, node, key, stop):
    """the string literals a subscript key ranges over when it is the variable of an enclosing `for k in (<literals>)`"""
    if not isinstance(key, ast.Name):
        return None
    cur = pm.get(node)
    while cur is not None and cur is not stop:
        if isinstance(cur, ast.For) and isinstance(cur.target, ast.Name) and cur.target.id == key.id:
            if isinstance(cur.iter, (ast.Tuple, ast.List, ast.Set)) and cur.iter.elts and all(const_str(e) is not None for e in cur.iter.elts):
                return [const_str(e) for e in cur.iter.elts]
            return None
        cur = pm.get(cur)
    return None


def _writer_keys(ctx, f):
    """(unconditional keys, all keys, open?, opaque?) written by a __getstate__"""
    fn = f.node
    pm = f.module.parents()
    rets = [r for r in walk_local(fn) if isinstance(r, ast.Return) and r.value is not None]
    if not rets:
        return set(), set(), False, True
    uncond, allk, is_open = set(), set(), False
    var = None
    for r in rets:
        v = r.value
        if isinstance(v, ast.Dict):
            for k in v.keys:
                if k is None:
                    is_open = True
                elif const_str(k) is not None:
                    uncond.add(const_str(k))
                else:
                    is_open = True
        elif isinstance(v, ast.Name):
            var = v.id
        else:
            return set(), set(), False, True  # e.g. dict(self), set(self): opaque payload
    if var is not None:
        seeded = False
        for n in walk_local(fn):
            tgt, val = None, None
            if isinstance(n, ast.Assign) and len(n.targets) == 1:
                tgt, val = n.targets[0], n.value
            elif isinstance(n, ast.AnnAssign) and n.value is not None:
                tgt, val = n.target, n.value
            if tgt is None:
                continue
            cond = bool(lexical_guards(pm, n, stop=fn))
            if isinstance(tgt, ast.Name) and tgt.id == var:
                seeded = True
                if isinstance(val, ast.Dict):
                    for k in val.keys:
                        if k is not None and const_str(k) is not None:
                            (allk if cond else uncond).add(const_str(k))
                        else:
                            is_open = True
                elif isinstance(val, ast.Call):
                    is_open = True
                else:
                    return set(), set(), False, True
            elif isinstance(tgt, ast.Subscript) and isinstance(tgt.value, ast.Name) and tgt.value.id == var:
                k = const_str(tgt.slice)
                lits = _loop_literals(pm, n, tgt.slice, fn) if k is None else None
                if lits is not None:
                    # `for k in ("a", "b"): if k in src: var[k] = src[k]` == var.update((k, src[k]) for k in (...) if ...):
                    # like the keys of an update(...), they count as conditionally written
                    allk.update(lits)
                elif k is None:
                    is_open = True
                else:
                    (allk if cond else uncond).add(k)
        for c in calls_in(fn):
            if call_name(c) == f"{var}.update":
                # keys added by update(...) are treated as conditional
                for s in ast.walk(c):
                    if isinstance(s, ast.Constant) and isinstance(s.value, str):
                        allk.add(s.value)
        if not seeded:
            return set(), set(), False, True
    allk |= uncond
    return uncond, allk, is_open, False


def _reader_keys(f):
    """(required keys, optional keys, opaque?) read by a __setstate__"""
    fn = f.node
    sp = _state_param(fn)
    if sp is None:
        return set(), set(), True
    pm = f.module.parents()
    required, optional = set(), set()
    stored = set()
    subscripted = False
    for n in ast.walk(fn):
        if isinstance(n, ast.Subscript) and isinstance(n.value, ast.Name) and n.value.id == sp:
            subscripted = True
            k = const_str(n.slice)
            if k is None:
                continue
            if isinstance(n.ctx, ast.Store):
                stored.add(k)
                continue
            atoms = guard_atoms(lexical_guards(pm, n, stop=fn))
            guarded = any(p and (a == f"{k!r} in {sp}" or a.startswith(f"{sp}.get({k!r}")) for a, p in atoms)
            # comprehension filter `for k in (...) if k in state`
            (optional if guarded else required).add(k)
        elif isinstance(n, ast.Call) and call_name(n) == f"{sp}.get" and n.args and const_str(n.args[0]) is not None:
            subscripted = True
            optional.add(const_str(n.args[0]))
        elif isinstance(n, ast.Compare) and len(n.ops) == 1 and isinstance(n.ops[0], ast.In) \
                and isinstance(n.comparators[0], ast.Name) and n.comparators[0].id == sp and const_str(n.left) is not None:
            subscripted = True
            optional.add(const_str(n.left))
    return required, optional, not subscripted


def _attrs_assigned(ctx, cls):
    out = set()
    for k in ctx.index.mro(cls):
        for m in k.methods.values():
            for n in ast.walk(m.node):
                if isinstance(n, ast.Attribute) and isinstance(n.value, ast.Name) and n.value.id == "self" and isinstance(n.ctx, ast.Store):
                    out.add(n.attr)
        out |= set(k.assigns)
        for st in k.node.body:
            if isinstance(st, ast.AnnAssign) and isinstance(st.target, ast.Name):
                out.add(st.target.id)
    return out


@R.rule("C51-R1", floor=22, template="T-TABLE",
        desc="every key that __setstate__ requires is written unconditionally by the __getstate__ of the same class")
def r1(ctx):
    for cls in sorted(ctx.index.all_classes(), key=lambda c: c.key):
        g, s = cls.methods.get("__getstate__"), cls.methods.get("__setstate__")
        if g is None or s is None or g.type_only or s.type_only:
            continue
        ctx.functions_analysed.update((g.key, s.key))
        key = cls.key
        uncond, allk, is_open, opaque_w = _writer_keys(ctx, g)
        required, optional, opaque_r = _reader_keys(s)
        if opaque_w or opaque_r:
            if opaque_w and not opaque_r and required:
                ctx.error(f"{key}: __getstate__ idiom not understood but __setstate__ requires keys {sorted(required)}")
            ctx.ok(key, "opaque payload handed over as a whole", nontrivial=False)
            continue
        missing = required - uncond
        cond_only = missing & allk
        absent = missing - allk
        probs = []
        if cond_only:
            probs.append(f"__setstate__ requires {sorted(cond_only)} but __getstate__ writes them only conditionally (KeyError on unpickle)")
        if absent:
            if is_open:
                attrs = _attrs_assigned(ctx, cls)
                really = {k for k in absent if k not in attrs}
                if really and any(src in unparse(g.node) for src in ("__dict__",)):
                    probs.append(f"__setstate__ requires {sorted(really)} which are neither written by __getstate__ nor instance attributes")
            else:
                probs.append(f"__setstate__ requires {sorted(absent)} which __getstate__ never writes (KeyError on unpickle)")
        unread = sorted(uncond - required - optional)
        if unread and not (is_open or "update(" in unparse(s.node) or "_shallow_from_dict" in unparse(s.node)):
            ctx.note(f"{key}: keys written but never read: {unread}")
        ctx.check(not probs, key, "; ".join(probs),
                  f"required {sorted(required)} ⊆ written {sorted(uncond)}" + (" (+open source)" if is_open else ""), s.loc)


def _ctor_accepts(fn, n, implicit=1):
    a = fn.args
    pos = a.posonlyargs + a.args
    npos = len(pos) - implicit  # minus self/cls for methods
    nreq = npos - len(a.defaults)
    if a.vararg is not None:
        return n >= nreq, f"{fn.name}(>= {nreq} positional)"
    kwreq = [k.arg for k, d in zip(a.kwonlyargs, a.kw_defaults) if d is None]
    if kwreq:
        return False, f"{fn.name} has required keyword-only parameters {kwreq}"
    return nreq <= n <= npos, f"{fn.name}({nreq}..{npos} positional)"


@R.rule("C51-R2", floor=10, template="T-FLOW",
        desc="InstanceState.__setstate__ re-creates the weakref with _cleanup and calls the manager callable that "
             "__getstate__ stores last; ext.serializer: every written tag is matched by the reader regex, has a "
             "reader branch and the same number of fields")
def r2(ctx):
    ST = "orm/state.py::InstanceState"
    g = ctx.func(f"{ST}.__getstate__")
    s = ctx.func(f"{ST}.__setstate__")
    pm = s.module.parents()
    sp = _state_param(s.node)
    # weakref with cleanup
    ok = False
    for c in calls_in(s.node):
        if call_name(c) == "weakref.ref" and len(c.args) == 2 and unparse(c.args[1]) == "self._cleanup":
            par = pm.get(c)
            if isinstance(par, ast.Assign) and unparse(par.targets[0]) == "self.obj":
                ok = True
    ctx.check(ok, f"{s.key}:weakref", "self.obj is not re-created as weakref.ref(inst, self._cleanup): a garbage-collected "
                                      "unpickled object would never leave the identity map", "weakref.ref(inst, self._cleanup)", s.loc)
    # manager callable: written last, read and called
    var = None
    rets = [r for r in walk_local(g.node) if isinstance(r, ast.Return) and isinstance(r.value, ast.Name)]
    ctx.require(rets, f"{g.key}: does not return a named dict")
    var = rets[0].value.id
    stores = [n for n in g.node.body if any(
        (isinstance(x, ast.Subscript) and isinstance(x.value, ast.Name) and x.value.id == var and isinstance(x.ctx, ast.Store))
        or (isinstance(x, ast.Call) and call_name(x) == f"{var}.update") for x in ast.walk(n))]
    last = stores[-1] if stores else None
    wr = last is not None and isinstance(last, ast.Assign) and isinstance(last.targets[0], ast.Subscript) \
        and const_str(last.targets[0].slice) == "manager" and "_serialize" in unparse(last.value)
    called = any(isinstance(c.func, ast.Subscript) and isinstance(c.func.value, ast.Name) and c.func.value.id == sp
                 and const_str(c.func.slice) == "manager" and c.args and unparse(c.args[0]) == "self" for c in calls_in(s.node))
    ctx.check(wr and called, f"{ST}:manager",
              "the serialized-manager callable is not (a) stored under 'manager' as the last write of __getstate__ (pickle listeners "
              "must see the complete dict) and (b) called by __setstate__ with (self, inst, state_dict)",
              "written last; called on unpickle", g.loc)
    # the manager callable hands the state to the class manager and to `unpickle` event listeners: nothing may be
    # restored after it
    mgr_calls = [c for c in calls_in(s.node) if isinstance(c.func, ast.Subscript) and isinstance(c.func.value, ast.Name)
                 and c.func.value.id == sp and const_str(c.func.slice) == "manager"]
    if mgr_calls:
        recv = s.node.args.args[0].arg
        cfg_s, effs = _function_effects(ctx, ctx.index.cls(ST), s, recv, 0, ())
        mgr_nodes = [i for c in mgr_calls for i in cfg_s.nodes_containing(c)]
        after = cfg_s.reachable(mgr_nodes, edge_ok=no_exc, include_starts=False)
        late = sorted(i for i in after if i in effs and (effs[i].stores or effs[i].open))
        ctx.check(not late, f"{ST}:manager-after-restores",
                  "attributes are still restored after the manager callable ran (`"
                  + (cfg_s.nodes[late[0]].describe() if late else "") + "`): the class manager and `unpickle` listeners "
                  "receive a partially restored state", "no restore follows the manager callable", s.loc)
    else:
        ctx.ok(f"{ST}:manager-after-restores", "no manager call (reported under :manager)", nontrivial=False)
    # ---- ext.serializer
    SER = "ext/serializer.py"
    w, rd = _ser_functions(ctx)
    m = ctx.index.module(SER)
    pat = None
    for name, vals in m.assigns.items():
        for v in vals:
            if isinstance(v, ast.Call) and call_name(v) == "re.compile" and v.args:
                try:
                    pat = ast.literal_eval(v.args[0])
                except Exception:
                    pat = None
    ctx.require(isinstance(pat, str), f"{SER}: reader regex literal not found")
    rx = re.compile(pat)
    # the number of ':'-separated fields behind the tag ("session:" has none)
    written = {tag: (0 if fields == [[]] else len(fields)) for tag, (_, _, _, fields) in _writer_ids(ctx, w).items()}
    ctx.require(len(written) >= 3, f"{w.key}: persistent-id tags not recognised")
    # reader branches
    branches = {}
    for n in ast.walk(rd.node):
        if isinstance(n, ast.If) and isinstance(n.test, ast.Compare) and len(n.test.ops) == 1 and isinstance(n.test.ops[0], ast.Eq) \
                and const_str(n.test.comparators[0]) is not None:
            tag = const_str(n.test.comparators[0])
            nf = 0
            for st in n.body:
                for x in ast.walk(st):
                    if isinstance(x, ast.Assign) and isinstance(x.value, ast.Call) and (call_name(x.value) or "").endswith(".split") \
                            and isinstance(x.targets[0], ast.Tuple):
                        nf = max(nf, len(x.targets[0].elts))
                    elif isinstance(x, ast.Name) and x.id == "args" and nf == 0:
                        nf = 1
            branches[tag] = nf
    for tag, nf in sorted(written.items()):
        key = f"{SER}::tag:{tag}"
        probs = []
        mm = rx.match(tag + ":" + ":".join(["x"] * nf))
        if not mm or mm.group(1) != tag:
            probs.append(f"reader regex does not recognise the tag (matches {mm.group(1) if mm else None!r})")
        if tag not in branches:
            probs.append("Deserializer.persistent_load has no branch for it")
        elif branches[tag] != nf and not (nf == 0):
            probs.append(f"writer emits {nf} ':'-separated field(s), reader unpacks {branches[tag]}")
        ctx.check(not probs, key, "; ".join(probs), f"{nf} field(s)", w.loc)


@R.rule("C51-R3", floor=31, template="T-TABLE",
        desc="the argument tuple of every literal __reduce__/__reduce_ex__ is accepted by the constructor of the class "
             "and of every subclass that inherits the __reduce__, or by the named reconstructor")
def r3(ctx):
    for cls in sorted(ctx.index.all_classes(), key=lambda c: c.key):
        for rn in ("__reduce__", "__reduce_ex__"):
            f = cls.methods.get(rn)
            if f is None or f.type_only:
                continue
            ctx.functions_analysed.add(f.key)
            rets = [r for r in walk_local(f.node) if isinstance(r, ast.Return)]
            if len(rets) != 1 or not isinstance(rets[0].value, ast.Tuple) or len(rets[0].value.elts) < 2 \
                    or not isinstance(rets[0].value.elts[1], ast.Tuple) \
                    or any(isinstance(e, ast.Starred) for e in rets[0].value.elts[1].elts):
                ctx.note(f"{f.key}: non-literal reduce value, not analysed")
                continue
            callee, args = rets[0].value.elts[0], rets[0].value.elts[1]
            n = len(args.elts)
            cs = unparse(callee)
            targets = []  # [(label, function node)]
            if cs in ("self.__class__", "type(self)", cls.name):
                kl = [cls]
                if cs != cls.name:
                    kl += [k for k in ctx.index.subclasses(cls) if ctx.index.resolve_method(k, rn) is f]
                for k in kl:
                    for ctor in ("__new__", "__init__"):
                        cf = ctx.index.resolve_method(k, ctor)
                        if cf is not None:
                            targets.append((f"{k.name}.{ctor}", cf.node))
            else:
                r = ctx.index.resolve(cls.module, cs) if re.fullmatch(r"[\w.]+", cs) else None
                from ..index import ClassInfo, FuncInfo
                if isinstance(r, FuncInfo):
                    node = r.node
                    is_static = any(d in ("staticmethod",) for d in r.decorators)
                    if r.cls is not None and not is_static:
                        targets.append((r.qualname, node))  # classmethod/unbound: first param consumed
                    else:
                        # plain function / staticmethod: no implicit first parameter
                        targets.append((r.qualname + "()", node))
                elif isinstance(r, ClassInfo):
                    for ctor in ("__new__", "__init__"):
                        cf = ctx.index.resolve_method(r, ctor)
                        if cf is not None:
                            targets.append((f"{r.name}.{ctor}", cf.node))
                else:
                    ctx.note(f"{f.key}: reconstructor `{cs}` not resolved, not analysed")
                    continue
            probs = []
            for label, node in targets:
                okk, sig = _ctor_accepts(node, n, 0 if label.endswith("()") else 1)
                if not okk:
                    probs.append(f"{label}: {sig} cannot take the {n} pickled argument(s)")
            ctx.check(not probs, f.key, "; ".join(probs) + " (unpickling raises TypeError)",
                      f"{n} arg(s) accepted by " + (", ".join(l for l, _ in targets) or "builtin constructor"), f.loc)



# ------------------------------------------------------------------------------------ C51-R4
# def-before-use ordering inside __setstate__: an unpickled object starts with an empty __dict__, so a read of
# self.A that is reached before the statement of the same __setstate__ that stores self.A sees the class default
# (or raises), never the pickled value.

_SKIP_ATTRS = {"__dict__", "__class__", "__init__", "__setstate__"}
_MAX_DEPTH = 3


def _is_name(e, name):
    return isinstance(e, ast.Name) and e.id == name


def _is_recv_dict(e, recv):
    """`recv.__dict__` or `vars(recv)`"""
    if isinstance(e, ast.Attribute) and e.attr == "__dict__" and _is_name(e.value, recv):
        return True
    return isinstance(e, ast.Call) and call_name(e) == "vars" and len(e.args) == 1 and _is_name(e.args[0], recv)


def _bulk_keys(call):
    """attribute names installed by `<dict>.update(X, **kw)`: (set of names, open?)"""
    keys, opened = set(), False
    for kw in call.keywords:
        if kw.arg is None:
            opened = True
        else:
            keys.add(kw.arg)
    for a in call.args:
        if isinstance(a, ast.Dict):
            for k in a.keys:
                if k is not None and const_str(k) is not None:
                    keys.add(const_str(k))
                else:
                    opened = True
        elif isinstance(a, (ast.ListComp, ast.GeneratorExp, ast.SetComp, ast.DictComp)) and len(a.generators) == 1:
            gen = a.generators[0]
            elt_key = a.key if isinstance(a, ast.DictComp) else (a.elt.elts[0] if isinstance(a.elt, ast.Tuple) and a.elt.elts else None)
            lits = [const_str(x) for x in gen.iter.elts] if isinstance(gen.iter, (ast.Tuple, ast.List, ast.Set)) else [None]
            if isinstance(gen.target, ast.Name) and _is_name(elt_key, gen.target.id) and lits and all(x is not None for x in lits):
                keys.update(lits)
            else:
                opened = True
        elif isinstance(a, (ast.List, ast.Tuple)) and all(isinstance(x, ast.Tuple) and x.elts and const_str(x.elts[0]) is not None for x in a.elts):
            keys.update(const_str(x.elts[0]) for x in a.elts)
        else:
            opened = True
    return keys, opened


def _node_parts(n):
    st = n.stmt
    if st is None or n.kind in ("with_exit", "handler", "join", "entry", "exit", "raise_exit"):
        return []
    if n.kind == "test":
        return [st.test]
    if not isinstance(st, ast.stmt):
        return []
    from ..astutil import own_exprs
    return own_exprs(st)


class _Effects:
    """what one CFG node does to the attributes of the receiver object"""
    __slots__ = ("reads", "stores", "open")

    def __init__(self):
        self.reads = {}     # attr -> human readable origin
        self.stores = set()
        self.open = False   # installs an unknown set of attributes (e.g. __dict__.update(state))


def _callee_for(ctx, cls, defcls, module, call, recv):
    """(FuncInfo, receiver parameter name) when `call` hands the receiver to code we can read: recv.m(...),
    super().m(...), or f(..., recv, ...) / K(..., recv, ...) with a resolvable callee."""
    fn = call.func
    ix = ctx.index
    if isinstance(fn, ast.Attribute) and cls is not None:
        target = None
        if _is_name(fn.value, recv):
            target = ix.resolve_method(cls, fn.attr)
        elif isinstance(fn.value, ast.Call) and call_name(fn.value) == "super" and defcls is not None:
            mro = ix.mro(cls)
            after = mro[mro.index(defcls) + 1:] if defcls in mro else []
            for k in after:
                if fn.attr in k.methods and not k.methods[fn.attr].type_only:
                    target = k.methods[fn.attr]
                    break
        if target is not None and not ({"property", "staticmethod", "classmethod"} & set(target.decorators)) \
                and target.node.args.args:
            return target, target.node.args.args[0].arg
    # receiver passed as an argument
    pos = [i for i, a in enumerate(call.args) if _is_name(a, recv)]
    kws = [k.arg for k in call.keywords if k.arg and _is_name(k.value, recv)]
    if not pos and not kws:
        return None
    nm = call_name(call)
    if not nm or not re.fullmatch(r"[\w.]+", nm) or nm.split(".")[0] in (recv, "super"):
        return None
    from ..index import ClassInfo, FuncInfo
    r = ix.resolve(module, nm)
    shift = 0
    if isinstance(r, ClassInfo):
        r = ix.resolve_method(r, "__init__")
        shift = 1
    elif isinstance(r, FuncInfo) and r.cls is not None and "staticmethod" not in r.decorators:
        shift = 1
    if not isinstance(r, FuncInfo):
        return None
    params = [a.arg for a in r.node.args.posonlyargs + r.node.args.args]
    if kws and kws[0] in params:
        return r, kws[0]
    if pos and pos[0] + shift < len(params):
        return r, params[pos[0] + shift]
    return None


def _node_effects(ctx, cls, defcls, module, parts, recv, depth, stack):
    eff = _Effects()
    for part in parts:
        for n in [part] + list(walk_local(part)):
            if isinstance(n, ast.Attribute) and _is_name(n.value, recv) and n.attr not in _SKIP_ATTRS:
                if isinstance(n.ctx, ast.Store):
                    eff.stores.add(n.attr)
                elif isinstance(n.ctx, ast.Load):
                    eff.reads.setdefault(n.attr, f"{recv}.{n.attr}")
            elif isinstance(n, ast.Attribute) and n.attr == "__dict__" and _is_name(n.value, recv) and isinstance(n.ctx, ast.Store):
                eff.open = True
            elif isinstance(n, ast.Subscript) and isinstance(n.ctx, ast.Store) and _is_recv_dict(n.value, recv):
                k = const_str(n.slice)
                if k is None:
                    eff.open = True
                else:
                    eff.stores.add(k)
            elif isinstance(n, ast.Call):
                nm = call_name(n) or ""
                if nm in ("setattr", "object.__setattr__") and len(n.args) == 3 and _is_name(n.args[0], recv):
                    k = const_str(n.args[1])
                    if k is None:
                        eff.open = True
                    else:
                        eff.stores.add(k)
                    continue
                if isinstance(n.func, ast.Attribute) and n.func.attr == "update" and _is_recv_dict(n.func.value, recv):
                    keys, opened = _bulk_keys(n)
                    eff.stores |= keys
                    eff.open |= opened
                    continue
                tgt = _callee_for(ctx, cls, defcls, module, n, recv)
                if tgt is not None:
                    f, p = tgt
                    exposed, stores, opened = _summary(ctx, cls, f, p, depth + 1, stack)
                    label = f"{unparse(n.func)}()"
                    for a, how in exposed.items():
                        eff.reads.setdefault(a, f"{how} via {label}")
                    eff.stores |= stores
                    eff.open |= opened
    return eff


def _function_effects(ctx, cls, f, recv, depth, stack):
    g = ctx.cfg(f)
    ctx.functions_analysed.add(f.key)
    effs = {}
    for n in g.nodes:
        parts = _node_parts(n)
        if parts:
            e = _node_effects(ctx, cls, f.cls, f.module, parts, recv, depth, stack + (f.key,))
            if e.reads or e.stores or e.open:
                effs[n.id] = e
    return g, effs


_SUMMARY_CACHE_ATTR = "_c51_summaries"


def _summary(ctx, cls, f, recv, depth, stack):
    """(exposed reads {attr: origin}, may-stores, open?) of function f on its parameter `recv`: a read is exposed
    when some path from the entry reaches it without passing a store of that attribute."""
    if depth > _MAX_DEPTH or f.key in stack:
        return {}, set(), False
    cache = ctx.__dict__.setdefault(_SUMMARY_CACHE_ATTR, {})
    ck = (f.key, recv, cls.key if cls is not None else None)
    if ck in cache:
        return cache[ck]
    g, effs = _function_effects(ctx, cls, f, recv, depth, stack)
    stores, opened, exposed = set(), False, {}
    for e in effs.values():
        stores |= e.stores
        opened |= e.open
    for nid, e in effs.items():
        for a, how in e.reads.items():
            if a in exposed:
                continue
            block = {m for m, x in effs.items() if (a in x.stores or x.open) and m != nid}
            if g.witness([g.entry], [nid], avoid=block) is not None:
                exposed[a] = how
    cache[ck] = (exposed, stores, opened)
    return cache[ck]


def _instance_attrs(ctx, cls):
    """names assigned as `self.X = ...` / listed in __slots__ somewhere in the MRO (instance data, not methods)"""
    out = set()
    for k in ctx.index.mro(cls):
        for m in k.methods.values():
            if not m.node.args.args:
                continue
            me = m.node.args.args[0].arg
            for n in ast.walk(m.node):
                if isinstance(n, ast.Attribute) and _is_name(n.value, me) and isinstance(n.ctx, ast.Store):
                    out.add(n.attr)
    return out


@R.rule("C51-R4", floor=25, template="T-PATH",
        desc="def-before-use inside every __setstate__: no read of self.A (directly, through a self/super method or "
             "through a resolvable callee that is handed self) is reached before the statement of the same "
             "__setstate__ that restores self.A")
def r4(ctx):
    for cls in sorted(ctx.index.all_classes(), key=lambda c: c.key):
        s = cls.methods.get("__setstate__")
        if s is None or s.type_only or not s.node.args.args:
            continue
        recv = s.node.args.args[0].arg
        g, effs = _function_effects(ctx, cls, s, recv, 0, ())
        any_open = any(e.open for e in effs.values())
        inst = _instance_attrs(ctx, cls) if any_open else set()
        read_attrs = {}
        for nid, e in effs.items():
            for a in e.reads:
                read_attrs.setdefault(a, []).append(nid)
        n_checked = 0
        for a in sorted(read_attrs):
            store_nodes = {nid for nid, e in effs.items() if a in e.stores or (e.open and a in inst)}
            if not store_nodes:
                continue  # never restored here: a method, a memoized attribute, a class constant
            n_checked += 1
            key = f"{s.key}:{a}"
            bad = None
            for r in sorted(read_attrs[a]):
                w = g.witness([g.entry], [r], avoid=store_nodes - {r})
                if w is None:
                    continue
                later = g.reachable([r], edge_ok=no_exc, include_starts=False) & (store_nodes - {r})
                if later:
                    first = min(later, key=lambda i: g.nodes[i].lineno or 0)
                    bad = (r, first, w)
                    break
            if bad:
                r, first, w = bad
                ctx.violation(
                    key,
                    f"{effs[r].reads[a]} is read at `{g.nodes[r].describe()}` before the restore "
                    f"`{g.nodes[first].describe()}` has run: on a freshly unpickled object it sees the class default, "
                    f"not the pickled value",
                    s.loc, g.describe_path(w)[-4:] + ["... later: " + g.nodes[first].describe()])
            else:
                ctx.ok(key, f"every read of {recv}.{a} follows its restore")
        if not n_checked:
            ctx.ok(f"{s.key}:no-read-of-restored", "reads no attribute that it restores", nontrivial=False)



# ------------------------------------------------------------------------------------ C51-R5
# ext.serializer payloads: what persistent_id writes into a field must be the key under which persistent_load
# looks the object up again, and an encoded field must be decoded by the inverse pair.

def _local_value(fn, e):
    """follow a local name bound exactly once in fn to its value"""
    seen = 0
    while isinstance(e, ast.Name) and seen < 4:
        defs = [n.value for n in walk_local(fn) if isinstance(n, ast.Assign) and len(n.targets) == 1 and _is_name(n.targets[0], e.id)]
        if len(defs) != 1:
            break
        e, seen = defs[0], seen + 1
    return e


def _tables_key_attrs(ctx):
    """attributes of Table equal to the key under which MetaData._add_table files the table in MetaData.tables,
    plus the (function, argument attribute names) form of that key"""
    f = ctx.func("sql/schema.py::MetaData._add_table")
    params = [a.arg for a in f.node.args.args][1:]
    ins = []
    for n in walk_local(f.node):
        if isinstance(n, ast.Assign) and isinstance(n.targets[0], ast.Subscript) and unparse(n.targets[0].value) == "self.tables":
            ins.append((n.targets[0].slice, n.value))
        elif isinstance(n, ast.Call):
            nm = call_name(n) or ""
            if nm.startswith("self.tables.") and len(n.args) == 2:
                ins.append((n.args[0], n.args[1]))
            elif len(n.args) == 3 and unparse(n.args[0]) == "self.tables":
                ins.append((n.args[1], n.args[2]))
    ctx.require(len(ins) == 1, f"{f.key}: insertion into self.tables not recognised")
    k, v = ins[0]
    ctx.require(isinstance(v, ast.Name) and v.id in params, f"{f.key}: inserted value is not the table parameter")
    k = _local_value(f.node, k)
    if isinstance(k, ast.Attribute) and _is_name(k.value, v.id):
        return {k.attr}, None
    ctx.require(isinstance(k, ast.Call) and call_name(k) and not k.keywords
                and all(isinstance(a, ast.Name) and a.id in params for a in k.args),
                f"{f.key}: key expression `{unparse(k)}` not understood")
    fname, argnames = call_name(k), [a.id for a in k.args]
    tcls = ctx.index.cls("sql/schema.py::Table")
    props = set()
    for name, m in tcls.methods.items():
        if not any("property" in d for d in m.decorators) or not m.node.args.args:
            continue
        me = m.node.args.args[0].arg
        rets = [r for r in walk_local(m.node) if isinstance(r, ast.Return) and r.value is not None]
        if len(rets) == 1 and isinstance(rets[0].value, ast.Call) and call_name(rets[0].value) == fname \
                and [unparse(a) for a in rets[0].value.args] == [f"{me}.{a}" for a in argnames]:
            props.add(name)
    ctx.require(props, f"no Table property returns {fname}({', '.join('self.' + a for a in argnames)})")
    return props, (fname, argnames)


def _dedupe_key_attrs(ctx):
    """attribute of the column under which DedupeColumnCollection.add (Table.c) files it"""
    f = ctx.func("sql/base.py::DedupeColumnCollection.add")
    col = f.node.args.args[1].arg
    keys = [c.args[0] for c in calls_in(f.node) if call_name(c) == "self._append_new_column" and len(c.args) >= 2 and _is_name(c.args[1], col)]
    ctx.require(keys, f"{f.key}: self._append_new_column(key, {col}) not found")
    attrs = set()
    for k in keys:
        vals = [k]
        if isinstance(k, ast.Name):
            vals = [n.value for n in walk_local(f.node) if isinstance(n, ast.Assign) and any(_is_name(t, k.id) for t in n.targets)]
        ctx.require(vals and all(isinstance(x, ast.Attribute) and _is_name(x.value, col) for x in vals),
                    f"{f.key}: key `{unparse(k)}` is not an attribute of the column")
        attrs |= {x.attr for x in vals}
    return attrs


def _mapper_attrs_key_attrs(ctx):
    """attribute of the MapperProperty equal to its key in Mapper._props (the source of Mapper.attrs)"""
    a = ctx.func("orm/mapper.py::Mapper.attrs")
    ctx.require("self._props" in unparse(a.node), f"{a.key}: no longer built from self._props")
    f = ctx.func("orm/mapper.py::Mapper._configure_property")
    ins = [(n.targets[0].slice, n.value) for n in walk_local(f.node)
           if isinstance(n, ast.Assign) and isinstance(n.targets[0], ast.Subscript) and unparse(n.targets[0].value) == "self._props"]
    ctx.require(ins and all(isinstance(k, ast.Name) and isinstance(v, ast.Name) for k, v in ins), f"{f.key}: self._props[key] = prop not recognised")
    attrs = set()
    for k, v in ins:
        for n in walk_local(f.node):
            if isinstance(n, ast.Assign) and _is_name(n.value, k.id):
                for t in n.targets:
                    if isinstance(t, ast.Attribute) and _is_name(t.value, v.id):
                        attrs.add(t.attr)
    ctx.require(attrs, f"{f.key}: no `prop.<attr> = key` store found")
    return attrs


def _split_fields(e):
    """a persistent-id expression as [tag, field expr, ...] (split at the ':' of its literal parts); `+`, f-string,
    `"tag:%s" % (x,)` and `"tag:{}".format(x)` are one idiom (str_parts)"""
    parts = str_parts(e)
    if parts is None:
        parts = [e]
    fields, cur = [], []
    for p in parts:
        if isinstance(p, str):
            segs = p.split(":")
            for i, sg in enumerate(segs):
                if i > 0:
                    fields.append(cur)
                    cur = []
                if sg:
                    cur.append(sg)
        else:
            cur.append(p)
    fields.append(cur)
    return fields


_SER_KEEP = {"b64encode", "b64decode"}


def _ser_functions(ctx):
    """(writer, reader) of ext.serializer in normal form: helpers of the module / class are read at their call sites
    (`self._load_class(arg)` == `pickle.loads(b64decode(arg))`), call-free local aliases are resolved
    (`annotations = obj._annotations`); the codec functions stay calls (the rule's vocabulary)"""
    SER = "ext/serializer.py"
    w = nform(ctx, ctx.func(f"{SER}::Serializer.persistent_id"), keep=_SER_KEEP)
    rd = nform(ctx, ctx.func(f"{SER}::Deserializer.persistent_load"), keep=_SER_KEEP)
    return w, rd


def _writer_ids(ctx, w):
    """{tag: (cfg node, id expression, local it is assigned to | None when returned directly, [field parts])} for every
    persistent id `"<tag>:..."` that persistent_id builds -- assigned to a local or returned on the spot"""
    g = ctx.cfg(w)
    out = {}
    for n in g.nodes:
        st = n.stmt
        if n.kind != "stmt" or n.copy:
            continue
        if isinstance(st, ast.Assign) and len(st.targets) == 1 and isinstance(st.targets[0], ast.Name):
            v, var = st.value, st.targets[0].id
        elif isinstance(st, ast.AnnAssign) and isinstance(st.target, ast.Name) and st.value is not None:
            v, var = st.value, st.target.id
        elif isinstance(st, ast.Return) and st.value is not None:
            v, var = st.value, None
        else:
            continue
        fl = _split_fields(v)
        if len(fl) >= 2 and len(fl[0]) == 1 and isinstance(fl[0][0], str) and re.fullmatch(r"\w+", fl[0][0]):
            out[fl[0][0]] = (n, v, var, fl[1:])
    return out


def _is_decode(e, var, fn=None):
    """pickle.loads(b64decode(var)) -- the inner call possibly held in a local (`raw = b64decode(var)`)"""
    if not (isinstance(e, ast.Call) and (call_name(e) or "").endswith("loads") and len(e.args) == 1):
        return False
    inner = _local_value(fn, e.args[0]) if fn is not None else e.args[0]
    return isinstance(inner, ast.Call) and (call_name(inner) or "").endswith("b64decode") \
        and len(inner.args) == 1 and _is_name(inner.args[0], var)


def _encoded_payload(e):
    """X of b64encode(pickle.dumps(X)), else None"""
    if isinstance(e, ast.Call) and (call_name(e) or "").endswith("b64encode") and len(e.args) == 1 \
            and isinstance(e.args[0], ast.Call) and (call_name(e.args[0]) or "").endswith("dumps") and e.args[0].args:
        return e.args[0].args[0]
    return None


@R.rule("C51-R5", floor=7, template="T-TABLE",
        desc="ext.serializer payloads: a field that persistent_load uses to subscript MetaData.tables / Table.c / "
             "Mapper.attrs is written by persistent_id from the attribute under which that collection files its "
             "members (derived from MetaData._add_table + Table, DedupeColumnCollection.add, "
             "Mapper._configure_property); a field is pickled+b64-encoded iff the reader decodes+unpickles it")
def r5(ctx):
    SER = "ext/serializer.py"
    w, rd = _ser_functions(ctx)
    tprops, tform = _tables_key_attrs(ctx)
    keyed_by = {"tables": ("MetaData.tables", tprops), "c": ("Table.c", _dedupe_key_attrs(ctx)),
                "attrs": ("Mapper.attrs", _mapper_attrs_key_attrs(ctx))}
    # writer: tag -> [field expression parts]
    gw = ctx.cfg(w)
    wids = _writer_ids(ctx, w)
    written = {tag: fields for tag, (_, _, _, fields) in wids.items()}
    ctx.require(len(written) >= 3, f"{w.key}: persistent-id expressions not recognised")
    # reader: the payload variable and the branches
    payload = None
    for n in walk_local(rd.node):
        if isinstance(n, ast.Assign) and isinstance(n.targets[0], ast.Tuple) and len(n.targets[0].elts) == 2 \
                and isinstance(n.value, ast.Call) and (call_name(n.value) or "").endswith(".group"):
            payload = n.targets[0].elts[1].id
    ctx.require(payload is not None, f"{rd.key}: `type_, args = m.group(1, 2)` not recognised")
    pm = rd.module.parents()
    for n in ast.walk(rd.node):
        if not isinstance(n, ast.If):
            continue
        tt = n.test
        while isinstance(tt, ast.UnaryOp) and isinstance(tt.op, ast.Not):
            tt = tt.operand
        if not (isinstance(tt, ast.Compare) and len(tt.ops) == 1
                and isinstance(tt.ops[0], (ast.Eq, ast.NotEq))      # a wrong operator / negation is C51-R6's finding
                and const_str(tt.comparators[0]) is not None):
            continue
        tag = const_str(tt.comparators[0])
        if tag not in written:
            continue
        fvars = {payload: 0}
        for st in n.body:
            for x in ast.walk(st):
                if isinstance(x, ast.Assign) and isinstance(x.targets[0], ast.Tuple) and isinstance(x.value, ast.Call) \
                        and (call_name(x.value) or "") == f"{payload}.split":
                    fvars = {e.id: i for i, e in enumerate(x.targets[0].elts) if isinstance(e, ast.Name)}
        wfields = written[tag]
        for var, i in sorted(fvars.items(), key=lambda kv: kv[1]):
            wf = wfields[i] if i < len(wfields) else None   # field count mismatches are C51-R2's
            if wf is None or len(wf) != 1 or isinstance(wf[0], str):
                wexpr = None
            else:
                wexpr = _local_value(w.node, wf[0])
            enc = _encoded_payload(wexpr) if wexpr is not None else None
            decoded = lookups = False
            for st in n.body:
                for x in ast.walk(st):
                    if _is_decode(x, var, rd.node):
                        decoded = True
                    if isinstance(x, ast.Subscript) and _is_name(x.slice, var) and isinstance(x.value, ast.Attribute):
                        lookups = True
                        coll = x.value.attr
                        key = f"{SER}::tag:{tag}:field{i}->{coll}"
                        if coll not in keyed_by:
                            ctx.note(f"{key}: lookup in an unmodelled collection, not decided")
                            continue
                        cname, attrs = keyed_by[coll]
                        good = wexpr is not None and isinstance(wexpr, ast.Attribute) and wexpr.attr in attrs
                        if not good and coll == "tables" and tform is not None and isinstance(wexpr, ast.Call) \
                                and call_name(wexpr) == tform[0] and len(wexpr.args) == len(tform[1]) \
                                and all(isinstance(a, ast.Attribute) and a.attr == nm for a, nm in zip(wexpr.args, tform[1])):
                            good = True
                        if good and coll == "tables" and isinstance(wexpr, ast.Attribute):
                            # the key attribute was derived for class Table: its owner must be known to be one
                            tcls = ctx.index.cls("sql/schema.py::Table")
                            owner = unparse(wexpr.value)
                            anode = [wids[tag][0]] if any(x is wf[0] for x in ast.walk(wids[tag][1])) else []
                            atoms = set(guard_atoms(gw.edge_guards(anode[0].id))) if anode else set()
                            known = False
                            for a, pol in atoms:
                                mm = re.fullmatch(rf"isinstance\({re.escape(owner)}, ([\w.]+)\)", a)
                                if mm and pol:
                                    k = ctx.index.resolve(w.module, mm.group(1))
                                    if k is tcls or (hasattr(k, "key") and k in ctx.index.subclasses(tcls)):
                                        known = True
                            if anode and not known:
                                ctx.violation(key, f"`{unparse(wexpr)}` is written for a {cname} lookup, but `{owner}` is not known to be a "
                                                   f"Table there (no dominating positive isinstance({owner}, Table)): columns of other "
                                                   f"selectables would get an id that resolves to nothing or to a homonymous table", w.loc)
                                continue
                        ctx.check(good, key,
                                  f"persistent_id writes `{unparse(wexpr) if wexpr is not None else wf}` but persistent_load looks the "
                                  f"field up with `{unparse(x)}`, and {cname} files its members under .{'/.'.join(sorted(attrs))}: "
                                  f"the id resolves to another object or raises KeyError whenever the two differ",
                                  f"written from .{wexpr.attr if isinstance(wexpr, ast.Attribute) else '?'} = key of {cname}", w.loc)
            if enc is not None or decoded:
                ctx.check((enc is not None) == decoded, f"{SER}::tag:{tag}:field{i}:codec",
                          f"writer {'pickles+b64-encodes' if enc is not None else 'writes the plain text of'} the field, reader "
                          f"{'decodes+unpickles' if decoded else 'uses the raw text'}", "b64encode(pickle.dumps(..)) <-> pickle.loads(b64decode(..))", w.loc)



# ------------------------------------------------------------------------------------ C51-R6
@R.rule("C51-R6", floor=15, template="T-FLOW",
        desc="ext.serializer dispatch: every persistent id is written under a positive isinstance(<the pickled object>, K) "
             "outcome (and under the positive membership test of every literal key it subscripts) and is the value "
             "persistent_id returns; every reader branch of a written tag is an `==` test of the tag variable and returns "
             "a non-constant object on every path; the reader dispatches only on a successful match with the tag taken "
             "from the regex group that holds it")
def r6(ctx):
    SER = "ext/serializer.py"
    w, _ = _ser_functions(ctx)
    # the reader is judged as written: `return self.get_engine()` hands out what a helper resolved -- what that helper
    # does inside is not this rule's business (the codec helpers are followed by C51-R5)
    rd = ctx.func(f"{SER}::Deserializer.persistent_load")
    gw, gr = ctx.cfg(w), ctx.cfg(rd)
    wparams = [a.arg for a in w.node.args.args]
    ctx.require(len(wparams) == 2, f"{w.key}: expected persistent_id(self, obj)")
    obj = wparams[1]
    # ---- writer
    wids = _writer_ids(ctx, w)
    assigns = {tag: v[0] for tag, v in wids.items()}
    ctx.require(len(assigns) >= 3, f"{w.key}: persistent-id assignments not recognised")
    rets = [n for n in gw.nodes if n.kind == "stmt" and isinstance(n.stmt, ast.Return)]
    for tag, n in sorted(assigns.items()):
        idvar = wids[tag][2]
        atoms = set(guard_atoms(gw.edge_guards(n.id)))
        probs = []
        pos = [a for a, p in atoms if p and re.fullmatch(rf"isinstance\({re.escape(obj)}, [\w.]+\)", a)]
        if not pos:
            probs.append(f"the `{tag}:` id is not written under a positive isinstance({obj}, <class>) outcome "
                         f"(dominating outcomes: {sorted(a + ('' if p else ' is false') for a, p in atoms)[:4]}): objects of other "
                         f"kinds would be replaced by this id")
        # a literal key that is tested somewhere in the writer must be KNOWN to be present where it is subscripted -- in
        # the id expression itself or in the statement that computes a local the id is built from
        for cst in contributing_stmts(w.node, n.stmt):
            cn = [set(guard_atoms(gw.edge_guards(i))) for i in gw.nodes_for(cst)]
            catoms = atoms if cst is n.stmt else (set.intersection(*cn) if cn else set())
            for x in ast.walk(cst.value):
                if isinstance(x, ast.Subscript) and const_str(x.slice) is not None:
                    memb = f"{const_str(x.slice)!r} in {unparse(x.value)}"
                    tested = any(isinstance(c, ast.Compare) and len(c.ops) == 1 and isinstance(c.ops[0], (ast.In, ast.NotIn))
                                 and const_str(c.left) == const_str(x.slice) and unparse(c.comparators[0]) == unparse(x.value)
                                 for c in ast.walk(w.node))
                    if tested and (memb, True) not in catoms:
                        probs.append(f"`{unparse(x)}` is read where `{memb}` is not known to hold")
        if idvar is None:
            ctx.check(not probs, f"{SER}::tag:{tag}:writer-guard", "; ".join(probs), f"under {pos[:1]}, returned directly", w.loc)
            continue
        after = gw.reachable([n.id], edge_ok=no_exc, include_starts=False)
        bad_ret = [r for r in rets if r.id in after and not (isinstance(r.stmt.value, ast.Name) and r.stmt.value.id == idvar)]
        if bad_ret or not [r for r in rets if r.id in after]:
            probs.append(f"the id computed for `{tag}:` is not what persistent_id returns "
                         f"(`{unparse(bad_ret[0].stmt) if bad_ret else 'no return'}`): the object is pickled by value")
        ctx.check(not probs, f"{SER}::tag:{tag}:writer-guard", "; ".join(probs), f"under {pos[:1]}, returned", w.loc)
    # ---- reader dispatch
    grp = None
    for n in gr.nodes:
        st = n.stmt
        if n.kind == "stmt" and isinstance(st, ast.Assign) and isinstance(st.targets[0], ast.Tuple) and isinstance(st.value, ast.Call) \
                and isinstance(st.value.func, ast.Attribute) and st.value.func.attr == "group" and isinstance(st.value.func.value, ast.Name):
            grp = n
    ctx.require(grp is not None, f"{rd.key}: `type_, args = m.group(1, 2)` not recognised")
    mvar = grp.stmt.value.func.value.id
    targets = [e.id if isinstance(e, ast.Name) else None for e in grp.stmt.targets[0].elts]
    try:
        gidx = [ast.literal_eval(a) for a in grp.stmt.value.args]
    except Exception:
        gidx = []
    ctx.require(len(gidx) == len(targets), f"{rd.key}: group indexes not literal")
    m = ctx.index.module(SER)
    pat = None
    for vals in m.assigns.values():
        for v in vals:
            if isinstance(v, ast.Call) and call_name(v) == "re.compile" and v.args:
                try:
                    pat = ast.literal_eval(v.args[0])
                except Exception:
                    pass
    ctx.require(isinstance(pat, str), f"{SER}: reader regex literal not found")
    rx = re.compile(pat)
    class _T:     # an if-test on the tag variable, `not` unwrapped
        def __init__(self, node, cmp_, neg):
            self.node, self.test, self.body = node, cmp_, node.body
            self.equality = isinstance(cmp_.ops[0], ast.Eq) != neg
    tests = []
    for n in ast.walk(rd.node):
        if not isinstance(n, ast.If):
            continue
        t, neg = n.test, False
        while isinstance(t, ast.UnaryOp) and isinstance(t.op, ast.Not):
            t, neg = t.operand, not neg
        if isinstance(t, ast.Compare) and len(t.ops) == 1 and isinstance(t.ops[0], (ast.Eq, ast.NotEq)) \
                and isinstance(t.left, ast.Name) and const_str(t.comparators[0]) is not None:
            tests.append(_T(n, t, neg))
    tagvars = {n.test.left.id for n in tests}
    probs = []
    if len(tagvars) != 1:
        probs.append(f"tag tests compare different variables {sorted(tagvars)}")
    else:
        tv = next(iter(tagvars))
        sample = sorted(assigns)[0]
        mm = rx.match(sample + ":a:b")
        if tv not in targets:
            probs.append(f"`{tv}` is not bound from {mvar}.group(..)")
        elif not mm or mm.group(gidx[targets.index(tv)]) != sample:
            probs.append(f"`{tv}` is bound to regex group {gidx[targets.index(tv)]}, which is not the group holding the tag")
    for n in tests:
        if not n.equality:
            probs.append(f"`{unparse(n.node.test)}` is not an equality test: the branch runs for every OTHER tag")
    if not ({(mvar, True), (f"{mvar} is None", False)} & set(guard_atoms(gr.edge_guards(grp.id)))):
        probs.append(f"the tag is dispatched although `{mvar}` (the regex match) is not known to be a match")
    mdefs = [n.value for n in walk_local(rd.node) if isinstance(n, ast.Assign) and any(_is_name(t, mvar) for t in n.targets)]
    if not mdefs or not all(isinstance(v, ast.Call) and isinstance(v.func, ast.Attribute) and v.func.attr in ("match", "fullmatch") for v in mdefs):
        probs.append(f"`{mvar}` is not the result of matching the id against the tag regex")
    ctx.check(not probs, f"{SER}::reader:dispatch", "; ".join(probs), f"if {mvar}: {targets} = {mvar}.group{tuple(gidx)}", rd.loc)
    by_tag = {}
    for n in tests:
        by_tag.setdefault(const_str(n.test.comparators[0]), []).append(n)
    for tag in sorted(assigns):
        key = f"{SER}::tag:{tag}:reader-returns"
        brs = by_tag.get(tag, [])
        if not brs:
            ctx.ok(key, "no reader branch (reported by C51-R2)", nontrivial=False)
            continue
        probs = []
        for br in brs:
            if not br.equality:
                probs.append(f"`{unparse(br.node.test)}` is not an equality test: the branch runs for every OTHER tag")
                continue
            last = br.body[-1]
            if not isinstance(last, (ast.Return, ast.Raise)):
                probs.append("the branch can fall through without returning the resolved object")
            for st in br.body:
                for x in walk_local(st) if not isinstance(st, ast.Return) else []:
                    if isinstance(x, ast.Return) and (x.value is None or isinstance(x.value, ast.Constant)):
                        probs.append(f"`{unparse(x)}` replaces the persistent object by a constant")
                if isinstance(st, ast.Return) and (st.value is None or isinstance(st.value, ast.Constant)):
                    probs.append(f"`{unparse(st)}` replaces the persistent object by a constant")
        ctx.check(not probs, key, "; ".join(probs), "== test, returns the resolved object", rd.loc)



# ------------------------------------------------------------------------------------ C51-R7
def _reader_consumption(f):
    """(literal keys of the state the reader looks at, consumes-the-state-as-a-whole?, state parameter used at all?)"""
    fn = f.node
    sp = _state_param(fn)
    if sp is None:
        return set(), False, False
    required, optional, _ = _reader_keys(f)
    keys = set(required) | set(optional)
    whole = used = False
    pm = f.module.parents()
    for n in ast.walk(fn):
        if isinstance(n, ast.Name) and n.id == sp and isinstance(n.ctx, ast.Load):
            used = True
            par = pm.get(n)
            # handed over as a whole to a method of the object itself: self.m(state), self.__dict__.update(state),
            # super().__setstate__(state), self[:] = state
            if isinstance(par, ast.Call) and n in par.args:
                root = par.func
                while isinstance(root, (ast.Attribute, ast.Call)):
                    root = root.value if isinstance(root, ast.Attribute) else root.func
                if isinstance(root, ast.Name) and root.id in (fn.args.args[0].arg, "super", "vars"):
                    whole = True
            elif isinstance(par, ast.Assign) and par.value is n:
                whole = True
        # state[k] for k iterating over a literal tuple
        if isinstance(n, (ast.ListComp, ast.GeneratorExp, ast.SetComp, ast.DictComp)):
            for gen in n.generators:
                if isinstance(gen.target, ast.Name) and isinstance(gen.iter, (ast.Tuple, ast.List, ast.Set)) \
                        and all(const_str(e) is not None for e in gen.iter.elts):
                    if any(isinstance(x, ast.Subscript) and _is_name(x.value, sp) and _is_name(x.slice, gen.target.id) for x in ast.walk(n)):
                        keys.update(const_str(e) for e in gen.iter.elts)
        if isinstance(n, ast.For) and isinstance(n.target, ast.Name) and isinstance(n.iter, (ast.Tuple, ast.List, ast.Set)) \
                and all(const_str(e) is not None for e in n.iter.elts):
            if any(isinstance(x, ast.Subscript) and _is_name(x.value, sp) and _is_name(x.slice, n.target.id) for x in ast.walk(n)):
                keys.update(const_str(e) for e in n.iter.elts)
    return keys, whole, used


def _constant_valued_keys(g):
    """keys a __getstate__ writes with a value that mentions no variable at all (format markers such as
    'version': 2 carry no object state; a reader may ignore them)"""
    out, stateful = set(), set()
    for n in walk_local(g.node):
        pairs = []
        if isinstance(n, ast.Dict):
            pairs = [(const_str(k), v) for k, v in zip(n.keys, n.values) if k is not None]
        elif isinstance(n, ast.Assign) and len(n.targets) == 1 and isinstance(n.targets[0], ast.Subscript):
            pairs = [(const_str(n.targets[0].slice), n.value)]
        for k, v in pairs:
            if k is None:
                continue
            if any(isinstance(x, ast.Name) for x in ast.walk(v)):
                stateful.add(k)
            else:
                out.add(k)
    return out - stateful


@R.rule("C51-R7", floor=24, template="T-TABLE",
        desc="nothing that was pickled is dropped: every literal key written by __getstate__ is looked at by the "
             "__setstate__ of the same class, unless the reader hands the state as a whole to a method of the object "
             "(__dict__.update(state), self._shallow_from_dict(state), super().__setstate__(state)); every "
             "__setstate__ uses its state parameter")
def r7(ctx):
    for cls in sorted(ctx.index.all_classes(), key=lambda c: c.key):
        s = cls.methods.get("__setstate__")
        if s is None or s.type_only:
            continue
        ctx.functions_analysed.add(s.key)
        key = f"{s.key}:consumes-state"
        keys, whole, used = _reader_consumption(s)
        if not used:
            ctx.violation(key, "the state parameter is never used: the pickled payload is dropped", s.loc)
            continue
        g = cls.methods.get("__getstate__")
        if g is None or g.type_only:
            ctx.ok(key, "state parameter used; writer not in this class", nontrivial=False)
            continue
        uncond, allk, is_open, opaque_w = _writer_keys(ctx, g)
        if opaque_w or whole:
            ctx.ok(key, "state consumed as a whole" if whole else "opaque payload, state parameter used", nontrivial=whole)
            continue
        dropped = sorted(allk - keys - _constant_valued_keys(g))
        ctx.check(not dropped, key,
                  f"__getstate__ writes {dropped} but __setstate__ never looks at {'them' if len(dropped) > 1 else 'it'}: the pickled "
                  f"value is dropped and the unpickled object keeps the class default / lacks the attribute",
                  f"{len(allk)} written key(s) all consumed", s.loc)


# ------------------------------------------------------------------------------------ C51-R8
# key-wise mirror of __getstate__/__setstate__: what is pickled under key k and installed again as the WHOLE of
# attribute A must be the whole of attribute A.

def _recv(fn):
    a = fn.args.posonlyargs + fn.args.args
    return a[0].arg if a else None


def _mentions(e, name):
    return any(isinstance(x, ast.Name) and x.id == name for x in ast.walk(e))


def _written_values(ctx, cls, g):
    """{literal key: [(value expression, function node it is written in)]} of a __getstate__: dict displays and
    `d["k"] = v` stores (of the method itself and of a `super().__getstate__()` it extends are not followed)"""
    out = {}
    for n in walk_local(g.node):
        if isinstance(n, ast.Dict):
            for k, v in zip(n.keys, n.values):
                if k is not None and const_str(k) is not None:
                    out.setdefault(const_str(k), []).append((v, g.node))
        elif isinstance(n, ast.Assign):
            for t in n.targets:
                if isinstance(t, ast.Subscript) and const_str(t.slice) is not None and isinstance(t.value, ast.Name):
                    out.setdefault(const_str(t.slice), []).append((n.value, g.node))
    return out


def _resolve_written(ctx, cls, e, fn, depth=3):
    """follow a written value through once-bound locals and zero-argument helper methods of the object
    (`"k": self._pending()` -> the expression that helper returns); -> (expression, function node)"""
    from ._helpers_rob_h1 import resolve_local
    while depth > 0:
        depth -= 1
        e2 = resolve_local(fn, e)
        if e2 is not e:
            e = e2
            continue
        me = _recv(fn)
        if isinstance(e, ast.Call) and not e.args and not e.keywords and isinstance(e.func, ast.Attribute) \
                and isinstance(e.func.value, ast.Name) and e.func.value.id == me and cls is not None:
            h = ctx.index.resolve_method(cls, e.func.attr)
            if h is not None and not h.type_only and not ({"property", "staticmethod", "classmethod"} & set(h.decorators)) \
                    and _recv(h.node) is not None and not any(e.func.attr in k.methods for k in ctx.index.subclasses(cls)):
                rets = [r for r in walk_local(h.node) if isinstance(r, ast.Return) and r.value is not None]
                if len(rets) == 1:
                    ctx.functions_analysed.add(h.key)
                    e, fn = rets[0].value, h.node
                    continue
        break
    return e, fn


def _state_read_key(e, sp):
    """k when e is `state["k"]` or `state.get("k"[, default])`"""
    if isinstance(e, ast.Subscript) and _is_name(e.value, sp):
        return const_str(e.slice)
    if isinstance(e, ast.Call) and call_name(e) == f"{sp}.get" and e.args:
        return const_str(e.args[0])
    return None


def _plain_restores(s):
    """[(key, attribute)]: statements of a __setstate__ that install the pickled value under `key` unchanged as attribute
    `attribute` of the object -- `self.A = state[k]`, `self.A = x = state.get(k, d)`, `object.__setattr__(self, "A",
    state[k])`, or the same through a once-bound local"""
    from ._helpers_rob_h1 import resolve_local
    fn = s.node
    me, sp = _recv(fn), _state_param(fn)
    out = []
    if me is None or sp is None:
        return out
    for n in walk_local(fn):
        if isinstance(n, ast.Assign):
            k = _state_read_key(resolve_local(fn, n.value), sp)
            if k is None:
                continue
            for t in n.targets:
                if isinstance(t, ast.Attribute) and _is_name(t.value, me):
                    out.append((k, t.attr))
        elif isinstance(n, ast.Call) and call_name(n) in ("setattr", "object.__setattr__") and len(n.args) == 3 \
                and _is_name(n.args[0], me) and const_str(n.args[1]) is not None:
            k = _state_read_key(resolve_local(fn, n.args[2]), sp)
            if k is not None:
                out.append((k, const_str(n.args[1])))
    return out


def _type_test_only(conds):
    """the filter only looks at the TYPE of the element (`isinstance(key, (str, int))`): it drops what the pickle cannot
    represent, by design -- not a part of the state chosen by its content"""
    def ok(e):
        if isinstance(e, ast.UnaryOp) and isinstance(e.op, ast.Not):
            return ok(e.operand)
        if isinstance(e, ast.BoolOp):
            return all(ok(v) for v in e.values)
        return isinstance(e, ast.Call) and call_name(e) in ("isinstance", "callable")
    return bool(conds) and all(ok(c) for c in conds)


def _source_attr(e, me):
    """the attributes `me.X` an iterated expression reads (`self.X`, `self.X.items()`, `list(self.X)`, `sorted(self.X)`)"""
    return {x.attr for x in ast.walk(e) if isinstance(x, ast.Attribute) and _is_name(x.value, me)}


def _lossy_projection(ctx, f_node, e, fn, attr):
    """why `e` (written in function node fn) holds only PART of self.<attr>, or None: a comprehension / filter() / loop
    over the attribute with a content condition, or a slice of it"""
    me = _recv(fn)
    for x in ast.walk(e):
        if isinstance(x, (ast.ListComp, ast.SetComp, ast.DictComp, ast.GeneratorExp)):
            for gen in x.generators:
                if attr in _source_attr(gen.iter, me) and gen.ifs and not _type_test_only(gen.ifs):
                    return (f"only the entries of {me}.{attr} with `{' and '.join(unparse(c) for c in gen.ifs)}` are pickled")
        elif isinstance(x, ast.Call) and call_name(x) in ("filter", "itertools.filterfalse", "filterfalse") and len(x.args) == 2 \
                and attr in _source_attr(x.args[1], me):
            return f"only the entries of {me}.{attr} selected by `{unparse(x)[:70]}` are pickled"
        elif isinstance(x, ast.Subscript) and isinstance(x.slice, ast.Slice) and attr in _source_attr(x.value, me) \
                and not (x.slice.lower is None and x.slice.upper is None and x.slice.step is None):
            return f"only the slice `{unparse(x)[:70]}` of {me}.{attr} is pickled"
    return None


def _loop_built_projection(ctx, f, name, attr):
    """`x = {}` + `for .. in self.<attr>..: if C: x[..] = ..` is the comprehension with filter C"""
    fn = f.node
    me = _recv(fn)
    g = ctx.cfg(f)
    for loop in walk_local(fn):
        if not isinstance(loop, (ast.For, ast.AsyncFor)) or attr not in _source_attr(loop.iter, me):
            continue
        heads = g.nodes_for(loop)
        base = set()
        for h in heads:
            base |= {(unparse(t), p) for t, p in g.edge_guards(h)}
        for st in ast.walk(loop):
            fills = False
            if isinstance(st, ast.Assign) and any(isinstance(t, ast.Subscript) and _is_name(t.value, name) for t in st.targets):
                fills = True
            elif isinstance(st, ast.Expr) and isinstance(st.value, ast.Call) and isinstance(st.value.func, ast.Attribute) \
                    and _is_name(st.value.func.value, name) and st.value.func.attr in ("append", "add", "update", "setdefault", "extend", "__setitem__"):
                fills = True
            elif isinstance(st, ast.Expr) and isinstance(st.value, ast.Call) and isinstance(st.value.func, ast.Attribute) \
                    and isinstance(st.value.func.value, ast.Subscript) and _is_name(st.value.func.value.value, name):
                fills = True        # x[k].append(v)
            if not fills:
                continue
            for i in g.nodes_for(st):
                extra = [(t, p) for t, p in g.edge_guards(i) if (unparse(t), p) not in base
                         and not (isinstance(loop, ast.For) and t is getattr(loop, "test", None))]
                conds = [t for t, p in extra]
                if conds and not _type_test_only(conds):
                    def show(t, p):
                        if not p and isinstance(t, ast.UnaryOp) and isinstance(t.op, ast.Not):
                            return unparse(t.operand)
                        return ("" if p else "not ") + unparse(t)
                    return (f"only the entries of {me}.{attr} with `" + " and ".join(show(t, p) for t, p in extra) + "` are pickled")
    return None


@R.rule("C51-R8", floor=20, template="T-TABLE",
        desc="key-wise mirror of every __getstate__/__setstate__ pair with literal keys: a value that __setstate__ installs "
             "unchanged as attribute A (`self.A = state[k]`) was written by __getstate__ from the whole of that attribute: "
             "not from a different plain attribute, and not from a content-filtered comprehension / filter() / loop or a "
             "slice of self.A (a filter on the element's type only -- what the pickle cannot represent -- is by design)")
def r8(ctx):
    for cls in sorted(ctx.index.all_classes(), key=lambda c: c.key):
        g, s = cls.methods.get("__getstate__"), cls.methods.get("__setstate__")
        if g is None or s is None or g.type_only or s.type_only:
            continue
        written = _written_values(ctx, cls, g)
        me_w = _recv(g.node)
        if not written or me_w is None:
            continue
        ctx.functions_analysed.update((g.key, s.key))
        for k, attr in sorted(set(_plain_restores(s))):
            if k not in written:
                continue        # a key the writer does not write literally: C51-R1's business
            key = f"{cls.key}:{k}->{attr}"
            probs = []
            for v, fn in written[k]:
                e, efn = _resolve_written(ctx, cls, v, fn)
                me = _recv(efn)
                # (a) written from another plain instance attribute
                if isinstance(e, ast.Attribute) and _is_name(e.value, me) and e.attr != attr \
                        and ctx.index.resolve_method(cls, e.attr) is None and ctx.index.resolve_method(cls, attr) is None \
                        and not any(e.attr in kk.nested for kk in ctx.index.mro(cls)):
                    inst = _instance_attrs(ctx, cls)
                    if e.attr in inst and attr in inst:
                        probs.append(f"__getstate__ writes {me}.{e.attr} under {k!r}, __setstate__ installs it as self.{attr}: the "
                                     f"unpickled object carries the state of a different attribute")
                    continue
                # (b) only a part of the attribute is written
                why = _lossy_projection(ctx, g.node, e, efn, attr)
                if why is None and isinstance(v, ast.Name) and efn is g.node:
                    why = _loop_built_projection(ctx, g, v.id, attr)
                if why is None and isinstance(e, ast.Name) and efn is g.node:
                    why = _loop_built_projection(ctx, g, e.id, attr)
                if why:
                    probs.append(f"{why}, but __setstate__ installs the value as the whole of self.{attr}: the dropped entries "
                                 f"are lost by the round trip (state differs from the original)")
            ctx.check(not probs, key, "; ".join(probs), f"state[{k!r}] is the whole of self.{attr}", g.loc)


# ------------------------------------------------------------------------------------ C51-R9
# Results frozen for caching: the metadata a _for_freeze() builds must be given everything the constructor of the
# frozen metadata class turns into its key-lookup state (what _index_for_key / _has_key consult).

_RMD = "engine/result.py::ResultMetaData"
_LOOKUP_METHODS = ("_has_key", "_index_for_key", "_metadata_for_keys", "_indexes_for_keys")


def _lookup_attrs(ctx, cls):
    """instance attributes that the key-lookup methods of a ResultMetaData class subscript / membership-test with a key"""
    out = set()
    for m in _LOOKUP_METHODS:
        f = ctx.index.resolve_method(cls, m)
        if f is None or f.type_only:
            continue
        me = _recv(f.node)
        ctx.functions_analysed.add(f.key)
        for n in walk_local(f.node):
            if isinstance(n, ast.Subscript) and isinstance(n.value, ast.Attribute) and _is_name(n.value.value, me):
                out.add(n.value.attr)
            elif isinstance(n, ast.Compare) and len(n.ops) == 1 and isinstance(n.ops[0], (ast.In, ast.NotIn)) \
                    and isinstance(n.comparators[0], ast.Attribute) and _is_name(n.comparators[0].value, me):
                out.add(n.comparators[0].attr)
    return out


def _ctor_param_flow(ctx, init, targets):
    """constructor parameters whose value can reach (data flow through locals, attributes, loop variables, subscript
    keys; control flow through the tests that govern a store; through helper methods called on the object, depth 2) one
    of the instance attributes `targets`.  Flow-insensitive on purpose: any behaviour-preserving rearrangement of the
    constructor has the same answer."""
    cls = init.cls
    params = [a.arg for a in init.node.args.posonlyargs + init.node.args.args + init.node.args.kwonlyargs][1:]
    edges = {}      # variable -> set of variables it is computed from

    def add(t, srcs):
        if t is not None:
            edges.setdefault(t, set()).update(srcs)

    def scan(f, prefix, depth):
        fn = f.node
        me = _recv(fn)
        pm = f.module.parents()
        ctx.functions_analysed.add(f.key)

        def helper(c):
            if depth < 2 and isinstance(c, ast.Call) and isinstance(c.func, ast.Attribute) and _is_name(c.func.value, me) and cls is not None:
                h = ctx.index.resolve_method(cls, c.func.attr)
                if h is not None and not h.type_only and h.node is not fn and _recv(h.node) is not None \
                        and not ({"property", "staticmethod", "classmethod"} & set(h.decorators)):
                    return h
            return None

        def var(e):
            """the variable a store target / receiver denotes: local name or `self.A`"""
            while isinstance(e, (ast.Subscript, ast.Starred)):
                e = e.value
            if isinstance(e, ast.Name):
                return None if e.id == me else prefix + e.id
            if isinstance(e, ast.Attribute) and _is_name(e.value, me):
                return f"self.{e.attr}"
            if isinstance(e, ast.Attribute):
                return var(e.value)
            return None

        def reads(e):
            out = set()
            for x in ast.walk(e):
                if isinstance(x, ast.Name) and isinstance(x.ctx, ast.Load) and x.id != me:
                    out.add(prefix + x.id)
                elif isinstance(x, ast.Attribute) and _is_name(x.value, me):
                    out.add(f"self.{x.attr}")
                elif helper(x) is not None:
                    out.add(f"{depth + 1}:{x.func.attr}:<return>")
            return out

        def control(n):
            out = set()
            for t, _ in lexical_guards(pm, n, stop=fn):
                out |= reads(t)
            cur = pm.get(n)
            while cur is not None and cur is not fn:
                if isinstance(cur, (ast.For, ast.AsyncFor)):
                    out |= reads(cur.iter)
                cur = pm.get(cur)
            return out | {prefix + "<called-under>"}

        def targets_of(t):
            if isinstance(t, (ast.Tuple, ast.List)):
                for x in t.elts:
                    yield from targets_of(x)
            else:
                yield t
        for n in walk_local(fn):
            if isinstance(n, ast.Assign):
                for t0 in n.targets:
                    for t in targets_of(t0):
                        extra = reads(t.slice) if isinstance(t, ast.Subscript) else set()
                        add(var(t), reads(n.value) | extra | control(n))
            elif isinstance(n, ast.AnnAssign) and n.value is not None:
                add(var(n.target), reads(n.value) | control(n))
            elif isinstance(n, ast.AugAssign):
                add(var(n.target), reads(n.value) | control(n))
            elif isinstance(n, (ast.For, ast.AsyncFor)):
                for t in targets_of(n.target):
                    add(var(t), reads(n.iter) | control(n))
            elif isinstance(n, ast.NamedExpr):
                add(var(n.target), reads(n.value))
            elif isinstance(n, ast.Return) and n.value is not None:
                add(prefix + "<return>", reads(n.value) | control(n))
            elif isinstance(n, ast.Call):
                h = helper(n)
                if h is not None:
                    hp = f"{depth + 1}:{n.func.attr}:"
                    hparams = [a.arg for a in h.node.args.posonlyargs + h.node.args.args][1:]
                    stmt = n
                    while stmt in pm and not isinstance(stmt, ast.stmt):
                        stmt = pm[stmt]
                    cdeps = control(stmt)
                    add(hp + "<called-under>", cdeps)
                    for prm, a in zip(hparams, n.args):
                        add(hp + prm, reads(a) | cdeps)
                    for kw in n.keywords:
                        if kw.arg:
                            add(hp + kw.arg, reads(kw.value) | cdeps)
                    if hp not in scanned:
                        scanned.add(hp)
                        scan(h, hp, depth + 1)
                elif isinstance(n.func, ast.Attribute) and isinstance(pm.get(n), ast.Expr):
                    # x.update(..) / x.append(..) / self.A.setdefault(..): the receiver takes in the arguments
                    srcs = set()
                    for a in list(n.args) + [k.value for k in n.keywords]:
                        srcs |= reads(a)
                    add(var(n.func.value), srcs | control(pm[n]))
    scanned = set()
    scan(init, "0:", 0)
    want = {f"self.{a}" for a in targets}
    out = set()
    for p in params:
        seen, todo = set(), ["0:" + p]
        while todo:     # forward reachability: p -> variables computed from p
            v = todo.pop()
            if v in seen:
                continue
            seen.add(v)
            todo.extend(t for t, srcs in edges.items() if v in srcs)
        if seen & want:
            out.add(p)
    return params, out


@R.rule("C51-R9", floor=3, template="T-FLOW",
        desc="results frozen for caching: every _for_freeze() of the ResultMetaData family returns a metadata object whose "
             "constructor is given -- from the state of the metadata being frozen -- every parameter that flows into the "
             "key-lookup state of the frozen class (the attributes _index_for_key/_has_key consult: keys, per-key "
             "objects, the names that must raise 'ambiguous')")
def r9(ctx):
    from ._helpers_rob_h1 import resolve_local
    from ..index import ClassInfo
    base = ctx.index.cls(_RMD)
    fam = [base] + [k for k in ctx.index.subclasses(base)]
    n_sites = 0
    for cls in sorted(fam, key=lambda c: c.key):
        f0 = cls.methods.get("_for_freeze")
        if f0 is None or f0.type_only:
            continue
        f = nform(ctx, f0)
        me = _recv(f.node)
        g = ctx.cfg(f)
        rets = [n for n in g.nodes if n.kind == "stmt" and isinstance(n.stmt, ast.Return) and not n.copy]
        if not rets:
            continue            # abstract: raises NotImplementedError
        ctx.functions_analysed.add(f0.key)
        for rn in rets:
            v = rn.stmt.value
            v = resolve_local(f.node, v) if v is not None else None
            if v is not None and _is_name(v, me):
                ctx.ok(f"{f0.key}:returns-self", "the metadata is its own frozen form", nontrivial=False)
                continue
            k = ctx.index.resolve(f0.module, call_name(v)) if isinstance(v, ast.Call) and call_name(v) and re.fullmatch(r"[\w.]+", call_name(v)) else None
            if not isinstance(k, ClassInfo) or base not in ctx.index.mro(k):
                ctx.error(f"{f0.key}: frozen metadata `{unparse(v)[:60] if v is not None else None}` is not the construction of a ResultMetaData class")
                continue
            init = ctx.index.resolve_method(k, "__init__")
            ctx.require(init is not None, f"{k.key}: no __init__")
            look = _lookup_attrs(ctx, k)
            ctx.require(look, f"{k.key}: key-lookup attributes not recognised")
            ctx.functions_analysed.add(init.key)
            params, needed = _ctor_param_flow(ctx, init, look)
            ctx.require(needed, f"{init.key}: no constructor parameter reaches the lookup state {sorted(look)}")
            if any(isinstance(a, ast.Starred) for a in v.args) or any(kw.arg is None for kw in v.keywords):
                ctx.error(f"{f0.key}: star-arguments in `{unparse(v)[:60]}` not understood")
                continue
            npos = len(init.node.args.posonlyargs + init.node.args.args) - 1
            bound = {p: a for p, a in zip(params[:npos], v.args)}
            bound.update({kw.arg: kw.value for kw in v.keywords})
            n_sites += 1
            for p in sorted(needed):
                key = f"{f0.key}:supplies[{k.name}.{p}]"
                a = bound.get(p)
                if a is None:
                    ctx.violation(key, f"the frozen metadata is built by `{k.name}(...)` without `{p}`, which {k.name}.__init__ turns into its "
                                       f"key-lookup state ({', '.join('self.' + x for x in sorted(look))}): rows of the frozen (cached / "
                                       f"re-frozen / pickled) result resolve keys differently from rows of the result that was frozen", f0.loc)
                    continue
                # the argument must come from the metadata being frozen
                vals = [st.value for st in contributing_stmts(f.node, ast.Expr(value=a)) if getattr(st, "value", None) is not None]
                from_self = any(_mentions(x, me) for x in vals) or _loop_fed_from(f.node, vals, me)
                ctx.check(from_self, key, f"`{p}={unparse(a)[:60]}` does not come from the state of the metadata being frozen",
                          f"{p} <- {unparse(a)[:50]}", f0.loc)
    ctx.require(n_sites >= 1, "no _for_freeze() constructs a ResultMetaData")


def _loop_fed_from(fnode, a, me):
    """a local in the expressions `a` is a container filled inside a loop/branch that reads the receiver (`amb = set(); for rec in
    self._keymap.values(): amb.add(..)`)"""
    names = {x.id for v in a for x in ast.walk(v) if isinstance(x, ast.Name)}
    for n in walk_local(fnode):
        if isinstance(n, (ast.For, ast.AsyncFor)) and _mentions(n.iter, me):
            for st in ast.walk(n):
                if isinstance(st, ast.Call) and isinstance(st.func, ast.Attribute) and isinstance(st.func.value, ast.Name) \
                        and st.func.value.id in names:
                    return True
                if isinstance(st, ast.Assign) and any(isinstance(t, ast.Subscript) and isinstance(t.value, ast.Name) and t.value.id in names
                                                      for t in st.targets):
                    return True
    return False


# ------------------------------------------------------------------------------------ self-test
R.mutant("metadata-getstate-drops-key", "sql/schema.py",
         sub("            \"fk_memos\": self._fk_memos,\n", ""), "C51-R1")
R.mutant("collectionadapter-reads-unwritten", "orm/collections.py",
         sub("        self.invalidated = d[\"invalidated\"]\n", "        self.invalidated = d[\"is_invalidated\"]\n"), "C51-R1")
R.mutant("instancestate-class-conditional", "orm/state.py",
         sub("            \"instance\": self.obj(),\n            \"class_\": self.class_,\n", "            \"instance\": self.obj(),\n"), "C51-R1")
R.mutant("instancestate-no-cleanup", "orm/state.py",
         sub("self.obj = weakref.ref(inst, self._cleanup)", "self.obj = weakref.ref(inst)"), "C51-R2")
R.mutant("instancestate-manager-not-last", "orm/state.py",
         sub("        if self.load_path:\n            state_dict[\"load_path\"] = self.load_path.serialize()\n\n        state_dict[\"manager\"] = self.manager._serialize(self, state_dict)\n",
             "        state_dict[\"manager\"] = self.manager._serialize(self, state_dict)\n        if self.load_path:\n            state_dict[\"load_path\"] = self.load_path.serialize()\n\n"),
         "C51-R2")
R.mutant("serializer-tag-renamed", "ext/serializer.py",
         sub("            id_ = \"session:\"\n", "            id_ = \"sess:\"\n"), "C51-R2")
R.mutant("serializer-column-extra-field", "ext/serializer.py",
         sub("id_ = f\"column:{obj.table.key}:{obj.key}\"", "id_ = f\"column:{obj.table.schema}:{obj.table.key}:{obj.key}\""), "C51-R2")
R.mutant("serializer-regex-drops-engine", "ext/serializer.py",
         sub("    r\"session|attribute|engine):(.*)\"\n", "    r\"session|attribute):(.*)\"\n"), "C51-R2")
R.mutant("quoted-name-reduce-extra-arg", "sql/elements.py",
         sub("        return quoted_name, (str(self), self.quote)\n", "        return quoted_name, (str(self), self.quote, None)\n"), "C51-R3")
R.mutant("label-reduce-missing-arg", "sql/elements.py",
         sub("        return self.__class__, (self.name, self._element, self.type)\n", "        return self.__class__, ()\n"), "C51-R3")
# benign
R.mutant("benign-metadata-extra-key", "sql/schema.py",
         sub("            \"fk_memos\": self._fk_memos,\n", "            \"fk_memos\": self._fk_memos,\n            \"version\": 2,\n"), None)
R.mutant("benign-rename-state-param", "sql/selectable.py",
         sub("    def __setstate__(self, state: Dict[str, FromClause[_KeyColCC_co]]) -> None:\n        self.element = state[\"element\"]\n",
             "    def __setstate__(self, st: Dict[str, FromClause[_KeyColCC_co]]) -> None:\n        self.element = st[\"element\"]\n"),
         None)
R.mutant("benign-reader-optional-key", "orm/collections.py",
         sub("        self.invalidated = d[\"invalidated\"]\n", "        self.invalidated = d.get(\"invalidated\", False)\n"), None)

# --- C51-R4 (seed C51_1: identity_token computed from self.key before key is restored) and neighbours
_TOKEN_BLOCK = "        if self.key:\n            self.identity_token = self.key[2]\n\n"
_EXPIRED_LINE = "        self.expired = state_dict.get(\"expired\", False)\n"
R.mutant("seed-identity-token-before-key-restore", "orm/state.py",
         chain(sub(_TOKEN_BLOCK, "\n"),
               sub(_EXPIRED_LINE, _EXPIRED_LINE + "        if self.key:\n            self.identity_token = self.key[2]\n")),
         "C51-R4")
R.mutant("identity-token-helper-before-key-restore", "orm/state.py",
         chain(sub(_TOKEN_BLOCK, "\n"),
               sub(_EXPIRED_LINE, _EXPIRED_LINE + "        self._restore_identity_token()\n"),
               sub("    def _reset(self, dict_: _InstanceDict, key: str) -> None:\n",
                   "    def _restore_identity_token(self) -> None:\n        if self.key:\n            self.identity_token = self.key[2]\n\n"
                   "    def _reset(self, dict_: _InstanceDict, key: str) -> None:\n")),
         "C51-R4")
R.mutant("collectionadapter-attr-before-key", "orm/collections.py",
         chain(sub("        self.attr = getattr(d[\"owner_cls\"], self._key).impl\n", ""),
               sub("    def __setstate__(self, d):\n        self._key = d[\"key\"]\n",
                   "    def __setstate__(self, d):\n        self.attr = getattr(d[\"owner_cls\"], self._key).impl\n        self._key = d[\"key\"]\n")),
         "C51-R4")
R.mutant("columncollection-metrics-before-proxy-index", "sql/base.py",
         chain(sub("        object.__setattr__(self, \"_index\", state[\"_index\"])\n        object.__setattr__(\n            self, \"_proxy_index\", collections.defaultdict(util.OrderedSet)\n        )\n",
                   "        object.__setattr__(self, \"_index\", state[\"_index\"])\n"),
               sub("        object.__setattr__(\n            self, \"_colset\", {col for k, col, _ in self._collection}\n        )\n",
                   "        object.__setattr__(\n            self, \"_colset\", {col for k, col, _ in self._collection}\n        )\n"
                   "        object.__setattr__(\n            self, \"_proxy_index\", collections.defaultdict(util.OrderedSet)\n        )\n")),
         "C51-R4")
R.mutant("instancestate-manager-before-load-path", "orm/state.py",
         chain(sub("        state_dict[\"manager\"](self, inst, state_dict)\n", ""),
               sub("        if \"load_path\" in state_dict:\n            self.load_path = PathRegistry.deserialize(state_dict[\"load_path\"])\n",
                   "        state_dict[\"manager\"](self, inst, state_dict)\n        if \"load_path\" in state_dict:\n            self.load_path = PathRegistry.deserialize(state_dict[\"load_path\"])\n")),
         "C51-R2")
# --- C51-R5 (seed C51_2: table id written from Table.name, looked up in MetaData.tables) and siblings
R.mutant("seed-table-id-from-name", "ext/serializer.py",
         sub("                id_ = f\"table:{obj.key}\"\n", "                id_ = f\"table:{obj.name}\"\n"), "C51-R5")
R.mutant("column-id-table-from-name", "ext/serializer.py",
         sub("id_ = f\"column:{obj.table.key}:{obj.key}\"", "id_ = f\"column:{obj.table.name}:{obj.key}\""), "C51-R5")
R.mutant("column-id-column-from-name", "ext/serializer.py",
         sub("id_ = f\"column:{obj.table.key}:{obj.key}\"", "id_ = f\"column:{obj.table.key}:{obj.name}\""), "C51-R5")
R.mutant("mapperprop-id-from-class-attribute-name", "ext/serializer.py",
         sub("                + \":\"\n                + obj.key\n", "                + \":\"\n                + obj.class_attribute.name\n"), "C51-R5")
R.mutant("mapper-reader-skips-b64decode", "ext/serializer.py",
         sub("            elif type_ == \"mapper\":\n                cls = pickle.loads(b64decode(args))\n",
             "            elif type_ == \"mapper\":\n                cls = pickle.loads(args)\n"), "C51-R5")
# benign
R.mutant("benign-identity-token-after-load-path", "orm/state.py",
         chain(sub(_TOKEN_BLOCK, "\n"),
               sub("        state_dict[\"manager\"](self, inst, state_dict)\n",
                   "        if self.key:\n            self.identity_token = self.key[2]\n        state_dict[\"manager\"](self, inst, state_dict)\n")),
         None)
R.mutant("benign-identity-token-helper-after-restore", "orm/state.py",
         chain(sub(_TOKEN_BLOCK, "        self._restore_identity_token()\n\n"),
               sub("    def _reset(self, dict_: _InstanceDict, key: str) -> None:\n",
                   "    def _restore_identity_token(self) -> None:\n        if self.key:\n            self.identity_token = self.key[2]\n\n"
                   "    def _reset(self, dict_: _InstanceDict, key: str) -> None:\n")),
         None)
R.mutant("benign-setstate-reorder-independent", "orm/state.py",
         sub("        self.modified = state_dict.get(\"modified\", False)\n        self.expired = state_dict.get(\"expired\", False)\n",
             "        self.expired = state_dict.get(\"expired\", False)\n        self.modified = state_dict.get(\"modified\", False)\n"), None)
R.mutant("benign-table-id-through-local", "ext/serializer.py",
         sub("                id_ = f\"table:{obj.key}\"\n", "                table_key = obj.key\n                id_ = f\"table:{table_key}\"\n"), None)
R.mutant("benign-table-id-concatenated", "ext/serializer.py",
         sub("                id_ = f\"table:{obj.key}\"\n", "                id_ = \"table:\" + obj.key\n"), None)
R.mutant("benign-table-id-get-table-key", "ext/serializer.py",
         sub("                id_ = f\"table:{obj.key}\"\n", "                id_ = \"table:\" + _get_table_key(obj.name, obj.schema)\n"), None)
# --- C51-R6 (survivors of the generic mutation sweep over ext/serializer.py)
R.mutant("serializer-mapper-guard-negated", "ext/serializer.py",
         sub("        if isinstance(obj, Mapper):\n", "        if not isinstance(obj, Mapper):\n"), "C51-R6")
R.mutant("serializer-column-guard-loses-column-test", "ext/serializer.py",
         sub("        elif isinstance(obj, Column) and isinstance(obj.table, Table):\n", "        elif isinstance(obj.table, Table):\n"), "C51-R6")
R.mutant("serializer-parententity-test-negated", "ext/serializer.py",
         sub("            if \"parententity\" in obj._annotations:\n", "            if \"parententity\" not in obj._annotations:\n"), "C51-R6")
R.mutant("serializer-returns-none", "ext/serializer.py",
         sub("            return None\n        return id_\n", "            return None\n        return None\n"), "C51-R6")
R.mutant("deserializer-attribute-test-negated", "ext/serializer.py",
         sub("            if type_ == \"attribute\":\n", "            if type_ != \"attribute\":\n"), "C51-R6")
R.mutant("deserializer-table-test-negated", "ext/serializer.py",
         sub("            elif type_ == \"table\":\n", "            elif type_ != \"table\":\n"), "C51-R6")
R.mutant("deserializer-mapper-returns-none", "ext/serializer.py",
         sub("                return class_mapper(cls)\n            elif type_ == \"mapper_selectable\":\n",
             "                class_mapper(cls)\n                return None\n            elif type_ == \"mapper_selectable\":\n"), "C51-R6")
R.mutant("deserializer-groups-swapped", "ext/serializer.py",
         sub("            type_, args = m.group(1, 2)\n", "            type_, args = m.group(2, 1)\n"), "C51-R6")
R.mutant("deserializer-match-test-negated", "ext/serializer.py",
         sub("        if not m:\n            return None\n        else:\n", "        if m:\n            return None\n        else:\n"), "C51-R6")
R.mutant("benign-deserializer-early-return", "ext/serializer.py",
         sub("        if not m:\n            return None\n        else:\n            type_, args = m.group(1, 2)\n",
             "        if m is None:\n            return None\n        if True:\n            type_, args = m.group(1, 2)\n"), None)
R.mutant("benign-serializer-guard-tuple-class", "ext/serializer.py",
         sub("        elif isinstance(obj, Session):\n", "        elif isinstance(obj, Session) and obj is not None:\n"), None)
# --- C51-R7 (survivors of the generic mutation sweep over all __setstate__ methods: a restore that disappears)
R.mutant("metadata-setstate-drops-tables", "sql/schema.py",
         sub("        self.tables = state[\"tables\"]\n", ""), "C51-R7")
R.mutant("instancestate-setstate-drops-parents", "orm/state.py",
         sub("        self.parents = state_dict.get(\"parents\", {})\n", ""), "C51-R7")
R.mutant("instancestate-setstate-drops-key-from-bulk-restore", "orm/state.py",
         sub("                for k in (\"key\", \"load_options\")\n", "                for k in (\"load_options\",)\n"), "C51-R7")
R.mutant("collectionadapter-setstate-drops-empty", "orm/collections.py",
         sub("        self.empty = d.get(\"empty\", False)\n", "        self.empty = False\n"), "C51-R7")
R.mutant("mutabledict-setstate-ignores-state", "ext/mutable.py",
         sub("    ) -> None:\n        self.update(state)\n", "    ) -> None:\n        self.update({})\n"), "C51-R7")
R.mutant("benign-metadata-setstate-through-local", "sql/schema.py",
         sub("        self.tables = state[\"tables\"]\n", "        tables = state[\"tables\"]\n        self.tables = tables\n"), None)
R.mutant("benign-instancestate-bulk-restore-as-loop", "orm/state.py",
         sub("        self.__dict__.update(\n            [\n                (k, state_dict[k])\n                for k in (\"key\", \"load_options\")\n                if k in state_dict\n            ]\n        )\n",
             "        for k in (\"key\", \"load_options\"):\n            if k in state_dict:\n                self.__dict__[k] = state_dict[k]\n"), None)
R.mutant("serializer-column-guard-loses-table-test", "ext/serializer.py",
         sub("        elif isinstance(obj, Column) and isinstance(obj.table, Table):\n", "        elif isinstance(obj, Column):\n"), "C51-R5")
R.mutant("deserializer-mapperprop-test-not-wrapped", "ext/serializer.py",
         sub("            elif type_ == \"mapperprop\":\n", "            elif not type_ == \"mapperprop\":\n"), "C51-R6")

# ---- robustify (rob-H1): behaviour-preserving refactorings that must stay silent, and the same shapes broken
_GS_UPDATE = ("        state_dict.update(\n            (k, self.__dict__[k])\n            for k in (\n                \"_pending_mutations\",\n"
              "                \"modified\",\n                \"expired\",\n                \"callables\",\n                \"key\",\n"
              "                \"parents\",\n                \"load_options\",\n                \"class_\",\n                \"expired_attributes\",\n"
              "                \"info\",\n            )\n            if k in self.__dict__\n        )\n")
_GS_LOOP = ("        own_dict = self.__dict__\n        for attrname in (\n            \"_pending_mutations\",\n            \"modified\",\n"
            "            \"expired\",\n            \"callables\",\n            \"key\",\n            \"parents\",\n            \"load_options\",\n"
            "            \"class_\",\n            \"expired_attributes\",\n            \"info\",\n        ):\n"
            "            if attrname in own_dict:\n                state_dict[attrname] = own_dict[attrname]\n")
_SS_EXPIRED = ("            self.expired_attributes = state_dict[\"expired_attributes\"]\n        else:\n"
               "            if \"expired_attributes\" in state_dict:\n                self.expired_attributes = state_dict[\"expired_attributes\"]\n"
               "            else:\n                self.expired_attributes = set()\n")
_SS_BULK = ("        self.__dict__.update(\n            [\n                (k, state_dict[k])\n                for k in (\"key\", \"load_options\")\n"
            "                if k in state_dict\n            ]\n        )\n")


def _ss_loop(names):
    return (f"        restored = {{}}\n        for attrname in {names}:\n            if attrname in state_dict:\n"
            "                restored[attrname] = state_dict[attrname]\n        self.__dict__.update(restored)\n")


# rfH_3: generator / list-comprehension dict.update -> loops, self.__dict__ alias, else: if -> elif
R.mutant("benign-rob-instancestate-getstate-update-as-loop", "orm/state.py", sub(_GS_UPDATE, _GS_LOOP), None)
R.mutant("benign-rob-instancestate-setstate-elif-and-loop", "orm/state.py",
         chain(sub(_SS_EXPIRED, "            self.expired_attributes = state_dict[\"expired_attributes\"]\n"
                                "        elif \"expired_attributes\" in state_dict:\n            self.expired_attributes = state_dict[\"expired_attributes\"]\n"
                                "        else:\n            self.expired_attributes = set()\n"),
               sub(_SS_BULK, _ss_loop("(\"key\", \"load_options\")"))), None)
R.mutant("benign-rob-instancestate-getstate-update-dict-comprehension", "orm/state.py",
         chain(sub("        state_dict.update(\n            (k, self.__dict__[k])\n", "        state_dict.update({\n            k: self.__dict__[k]\n"),
               sub("            if k in self.__dict__\n        )\n", "            if k in self.__dict__\n        })\n")), None)
R.mutant("rob-instancestate-setstate-loop-drops-key", "orm/state.py", sub(_SS_BULK, _ss_loop("(\"load_options\",)")), "C51-R7")
R.mutant("rob-instancestate-getstate-loop-manager-not-last", "orm/state.py",
         chain(sub(_GS_UPDATE, ""), sub("        state_dict[\"manager\"] = self.manager._serialize(self, state_dict)\n\n",
                                        "        state_dict[\"manager\"] = self.manager._serialize(self, state_dict)\n" + _GS_LOOP + "\n")), "C51-R2")
# rfH_4: inverted if/else in the Table branch, _annotations alias, f-string -> %; decode pair extracted into a helper
_TB_OLD = ("            if \"parententity\" in obj._annotations:\n                id_ = \"mapper_selectable:\" + b64encode(\n"
           "                    pickle.dumps(obj._annotations[\"parententity\"].class_)\n                )\n"
           "            else:\n                id_ = f\"table:{obj.key}\"\n")


def _tb_new(test="\"parententity\" not in annotations", table_field="obj.key"):
    return ("            annotations = obj._annotations\n"
            f"            if {test}:\n                id_ = \"table:%s\" % ({table_field},)\n            else:\n"
            "                parent_cls = annotations[\"parententity\"].class_\n"
            "                id_ = \"mapper_selectable:\" + b64encode(\n                    pickle.dumps(parent_cls)\n                )\n")


def _load_class_refactor(helper, call):
    return chain(sub("pickle.loads(b64decode(clsarg))", call.format("clsarg")), sub("pickle.loads(b64decode(args))", call.format("args"), count=2),
                 sub("pickle.loads(b64decode(mapper))", call.format("mapper")), helper)


_LC_DEF = "    @staticmethod\n    def _load_class(encoded):\n        return {body}\n\n    def persistent_load(self, id_):\n"
R.mutant("benign-rob-serializer-table-branch-inverted-percent-format", "ext/serializer.py", sub(_TB_OLD, _tb_new()), None)
R.mutant("benign-rob-deserializer-decode-in-staticmethod", "ext/serializer.py",
         _load_class_refactor(sub("    def persistent_load(self, id_):\n", _LC_DEF.format(body="pickle.loads(b64decode(encoded))")),
                              "self._load_class({})"), None)
R.mutant("benign-rob-deserializer-decode-in-module-function", "ext/serializer.py",
         _load_class_refactor(sub("class Deserializer(pickle.Unpickler):\n",
                                  "def _unpickle_b64(text):\n    raw = b64decode(text)\n    return pickle.loads(raw)\n\n\nclass Deserializer(pickle.Unpickler):\n"),
                              "_unpickle_b64({})"), None)
R.mutant("benign-rob-serializer-column-id-str-format", "ext/serializer.py",
         sub("id_ = f\"column:{obj.table.key}:{obj.key}\"", "id_ = \"column:{}:{}\".format(obj.table.key, obj.key)"), None)
R.mutant("benign-rob-serializer-ids-returned-directly", "ext/serializer.py",
         chain(sub("            id_ = \"session:\"\n", "            return \"session:\"\n"), sub("            id_ = \"engine:\"\n", "            return \"engine:\"\n"),
               sub("            id_ = \"mapper:\" + b64encode(pickle.dumps(obj.class_))\n", "            return \"mapper:\" + b64encode(pickle.dumps(obj.class_))\n")), None)
R.mutant("rob-serializer-inverted-table-branch-id-from-name", "ext/serializer.py", sub(_TB_OLD, _tb_new(table_field="obj.name")), "C51-R5")
R.mutant("rob-serializer-inverted-table-branch-test-not-inverted", "ext/serializer.py",
         sub(_TB_OLD, _tb_new(test="\"parententity\" in annotations")), "C51-R6")
R.mutant("rob-deserializer-decode-helper-skips-b64decode", "ext/serializer.py",
         _load_class_refactor(sub("    def persistent_load(self, id_):\n", _LC_DEF.format(body="pickle.loads(encoded)")),
                              "self._load_class({})"), "C51-R5")
R.mutant("rob-serializer-percent-format-extra-field", "ext/serializer.py",
         sub(_TB_OLD, _tb_new().replace("\"table:%s\" % (obj.key,)", "\"table:%s:%s\" % (obj.schema, obj.key)")), "C51-R2")

# ---- round-2 seeds (str2-v)
# --- C51-R8 (seed C51_3: MetaData.__getstate__ pickles only the "unresolved" FK memos) and the family around it
_FKM = "            \"fk_memos\": self._fk_memos,\n"
_MD_GS_HEAD = "    def __getstate__(self) -> Dict[str, Any]:\n        return {\n            \"tables\": self.tables,\n"
_CUR_KEYMAP_OLD = ("        return {\n            \"_keymap\": {\n                key: (\n                    rec[MD_INDEX],\n"
                   "                    rec[MD_RESULT_MAP_INDEX],\n                    [],\n                    key,\n"
                   "                    rec[MD_RENDERED_NAME],\n                    None,\n                    None,\n                )\n"
                   "                for key, rec in self._keymap.items()\n                if isinstance(key, (str, int))\n            },\n")
R.mutant("seed2-metadata-getstate-prunes-resolved-fk-memos", "sql/schema.py",
         sub(_FKM, "            \"fk_memos\": collections.defaultdict(\n                list,\n                {\n"
                   "                    fk_key: fks\n                    for fk_key, fks in self._fk_memos.items()\n"
                   "                    if fk_key[0] not in self.tables\n                },\n            ),\n"), "C51-R8")
R.mutant("metadata-getstate-fk-memos-filtered-in-helper", "sql/schema.py",
         chain(sub(_FKM, "            \"fk_memos\": self._pending_fk_memos(),\n"),
               sub("    def __getstate__(self) -> Dict[str, Any]:\n        return {\n            \"tables\": self.tables,\n",
                   "    def _pending_fk_memos(self) -> Any:\n        pending = collections.defaultdict(list)\n"
                   "        pending.update(\n            (k, v) for k, v in self._fk_memos.items() if k[0] not in self.tables\n        )\n"
                   "        return collections.defaultdict(list, {k: v for k, v in self._fk_memos.items() if v})\n\n" + _MD_GS_HEAD)),
         "C51-R8")
R.mutant("metadata-getstate-fk-memos-filtered-by-loop", "sql/schema.py",
         chain(sub(_FKM, "            \"fk_memos\": memos,\n"),
               sub(_MD_GS_HEAD, "    def __getstate__(self) -> Dict[str, Any]:\n        memos = collections.defaultdict(list)\n"
                                "        for fk_key, fks in self._fk_memos.items():\n            if fk_key[0] in self.tables:\n"
                                "                continue\n            memos[fk_key] = fks\n        return {\n            \"tables\": self.tables,\n")),
         "C51-R8")
R.mutant("metadata-getstate-schemas-sequences-crossed", "sql/schema.py",
         sub("            \"schemas\": self._schemas,\n            \"sequences\": self._sequences,\n",
             "            \"schemas\": self._sequences,\n            \"sequences\": self._schemas,\n"), "C51-R8")
R.mutant("cursor-metadata-getstate-drops-ambiguous-records", "engine/cursor.py",
         sub("                if isinstance(key, (str, int))\n            },\n",
             "                if isinstance(key, (str, int)) and rec[MD_INDEX] is not None\n            },\n"), "C51-R8")
R.mutant("cursor-metadata-getstate-keys-sliced", "engine/cursor.py",
         sub("            \"_keys\": self._keys,\n            \"_translated_indexes\"", "            \"_keys\": self._keys[: len(self._processors)],\n            \"_translated_indexes\""),
         "C51-R8")
R.mutant("benign-metadata-getstate-fk-memos-unfiltered-copy", "sql/schema.py",
         sub(_FKM, "            \"fk_memos\": collections.defaultdict(\n                list, {k: v for k, v in self._fk_memos.items()}\n            ),\n"), None)
R.mutant("benign-metadata-getstate-values-through-locals", "sql/schema.py",
         chain(sub(_FKM, "            \"fk_memos\": memos,\n"),
               sub(_MD_GS_HEAD, "    def __getstate__(self) -> Dict[str, Any]:\n        memos = self._fk_memos\n        return {\n            \"tables\": self.tables,\n")),
         None)
R.mutant("benign-metadata-getstate-fk-memos-from-helper", "sql/schema.py",
         chain(sub(_FKM, "            \"fk_memos\": self._memos_for_pickle(),\n"),
               sub(_MD_GS_HEAD, "    def _memos_for_pickle(self) -> Any:\n        return self._fk_memos\n\n" + _MD_GS_HEAD)), None)
R.mutant("benign-cursor-metadata-getstate-type-filter-as-loop", "engine/cursor.py",
         sub(_CUR_KEYMAP_OLD,
             "        keymap = {}\n        for key, rec in self._keymap.items():\n            if not isinstance(key, (str, int)):\n                continue\n"
             "            keymap[key] = (\n                rec[MD_INDEX],\n                rec[MD_RESULT_MAP_INDEX],\n                [],\n                key,\n"
             "                rec[MD_RENDERED_NAME],\n                None,\n                None,\n            )\n"
             "        return {\n            \"_keymap\": keymap,\n"), None)
R.mutant("cursor-metadata-getstate-loop-drops-ambiguous-records", "engine/cursor.py",
         sub(_CUR_KEYMAP_OLD,
             "        keymap = {}\n        for key, rec in self._keymap.items():\n            if not isinstance(key, (str, int)):\n                continue\n"
             "            if rec[MD_INDEX] is None:\n                continue\n"
             "            keymap[key] = (\n                rec[MD_INDEX],\n                rec[MD_RESULT_MAP_INDEX],\n                [],\n                key,\n"
             "                rec[MD_RENDERED_NAME],\n                None,\n                None,\n            )\n"
             "        return {\n            \"_keymap\": keymap,\n"), "C51-R8")
# --- C51-R9 (seed C51_4: SimpleResultMetaData._for_freeze forgets the ambiguous names) and the family around it
_FF_SIMPLE = ("        return SimpleResultMetaData(\n            self._keys,\n            extra=[self._keymap[key][2] for key in self._keys],\n"
              "            _create_unique_filters=create_unique_filters,\n            _ambiguous_keys=self._ambiguous_keys,\n        )\n")
_FF_CURSOR = ("        ambiguous = {\n            rec[MD_LOOKUP_KEY]\n            for rec in self._keymap.values()\n            if rec[MD_INDEX] is None\n        }\n"
              "        return SimpleResultMetaData(\n            self._keys,\n            extra=[self._keymap[key][MD_OBJECTS] for key in self._keys],\n"
              "            _ambiguous_keys=frozenset(ambiguous) if ambiguous else None,\n        )\n")
_AMB_CTOR = ("        if _ambiguous_keys:\n            for name in _ambiguous_keys.intersection(self._keymap):\n"
             "                rec = self._keymap[name]\n                self._keymap[name] = (None,) + rec[1:]\n")
R.mutant("seed2-simple-metadata-for-freeze-forgets-ambiguous-keys", "engine/result.py",
         sub(_FF_SIMPLE, _FF_SIMPLE.replace("            _ambiguous_keys=self._ambiguous_keys,\n", "")), "C51-R9")
R.mutant("cursor-metadata-for-freeze-forgets-ambiguous-keys", "engine/cursor.py",
         sub(_FF_CURSOR, _FF_CURSOR.replace("            _ambiguous_keys=frozenset(ambiguous) if ambiguous else None,\n", "")), "C51-R9")
R.mutant("simple-metadata-for-freeze-ambiguous-keys-constant", "engine/result.py",
         sub(_FF_SIMPLE, _FF_SIMPLE.replace("_ambiguous_keys=self._ambiguous_keys,", "_ambiguous_keys=None,")), "C51-R9")
R.mutant("simple-metadata-for-freeze-forgets-extra", "engine/result.py",
         sub(_FF_SIMPLE, _FF_SIMPLE.replace("            extra=[self._keymap[key][2] for key in self._keys],\n", "")), "C51-R9")
R.mutant("simple-metadata-ctor-helper-for-freeze-forgets-ambiguous-keys", "engine/result.py",
         chain(sub(_AMB_CTOR, "        self._mark_ambiguous(_ambiguous_keys)\n"),
               sub("    def _has_key(self, key: object) -> bool:\n        return key in self._keymap\n\n    def _for_freeze(self) -> ResultMetaData:\n        # TODO",
                   "    def _mark_ambiguous(self, names: Optional[frozenset[str]]) -> None:\n        if not names:\n            return\n"
                   "        for name in names.intersection(self._keymap):\n            rec = self._keymap[name]\n"
                   "            self._keymap[name] = (None,) + rec[1:]\n\n"
                   "    def _has_key(self, key: object) -> bool:\n        return key in self._keymap\n\n    def _for_freeze(self) -> ResultMetaData:\n        # TODO"),
               sub(_FF_SIMPLE, _FF_SIMPLE.replace("            _ambiguous_keys=self._ambiguous_keys,\n", ""))), "C51-R9")
R.mutant("benign-simple-metadata-for-freeze-positional-arguments", "engine/result.py",
         sub(_FF_SIMPLE, "        return SimpleResultMetaData(\n            self._keys,\n            [self._keymap[key][2] for key in self._keys],\n"
                         "            None,\n            None,\n            None,\n            create_unique_filters,\n            self._ambiguous_keys,\n        )\n"), None)
R.mutant("benign-simple-metadata-for-freeze-locals-and-helper", "engine/result.py",
         chain(sub(_FF_SIMPLE, "        return self._frozen_copy(create_unique_filters)\n\n"
                               "    def _frozen_copy(self, unique_filters: Any) -> ResultMetaData:\n        ambiguous = self._ambiguous_keys\n"
                               "        objects = [self._keymap[key][2] for key in self._keys]\n"
                               "        frozen = SimpleResultMetaData(\n            self._keys,\n            extra=objects,\n"
                               "            _create_unique_filters=unique_filters,\n            _ambiguous_keys=ambiguous,\n        )\n        return frozen\n")), None)
R.mutant("benign-cursor-metadata-for-freeze-ambiguous-by-loop", "engine/cursor.py",
         sub(_FF_CURSOR, "        ambiguous = set()\n        for rec in self._keymap.values():\n            if rec[MD_INDEX] is None:\n"
                         "                ambiguous.add(rec[MD_LOOKUP_KEY])\n"
                         "        names = frozenset(ambiguous) if ambiguous else None\n"
                         "        return SimpleResultMetaData(\n            self._keys,\n            extra=[self._keymap[key][MD_OBJECTS] for key in self._keys],\n"
                         "            _ambiguous_keys=names,\n        )\n"), None)
R.mutant("benign-simple-metadata-ctor-ambiguous-marking-in-helper", "engine/result.py",
         chain(sub(_AMB_CTOR, "        self._mark_ambiguous(_ambiguous_keys)\n"),
               sub("    def _has_key(self, key: object) -> bool:\n        return key in self._keymap\n\n    def _for_freeze(self) -> ResultMetaData:\n        # TODO",
                   "    def _mark_ambiguous(self, names: Optional[frozenset[str]]) -> None:\n        if not names:\n            return\n"
                   "        for name in names.intersection(self._keymap):\n            rec = self._keymap[name]\n"
                   "            self._keymap[name] = (None,) + rec[1:]\n\n"
                   "    def _has_key(self, key: object) -> bool:\n        return key in self._keymap\n\n    def _for_freeze(self) -> ResultMetaData:\n        # TODO")), None)
