"""C42 -- Polymorphic queries return each row as its most specific class (clauses of the dispatch glue, not the behaviour).

Which rows a query returns and what their discriminator column holds is data; which attributes a sub-mapper's
loader populates is the loader-strategy machinery (C40): none of that is decided here.  Visible in the shape of the
code, and necessary for the property, is the glue that turns a discriminator value into a class:

* the row-level switch of orm/loading.py reads the discriminator of every row, maps it through the base mapper's
  polymorphic_map, builds the row processor of THAT sub-mapper and applies it; unknown / NULL / foreign identities are
  rejected instead of silently loaded as the base class;
* the column the switch reads is the column the compile side put into the SELECT (same choice, same adaption);
* every mapper of a hierarchy registers itself under its own identity in the ONE map shared with its parent;
* a new object is stamped with the identity of ITS OWN mapper (the setter is shared by all sub-mappers);
* a single-table subclass contributes `discriminator IN (its own and its descendants' identities)` and every compile
  path that can address such an entity applies that criterion.
"""

from __future__ import annotations

import ast
from typing import Dict, List, Optional, Set, Tuple

from ..astutil import attr_stores, calls_in, dotted, unparse, walk_local
from ..cfg import no_exc
from ..report import Registry, chain, sub
from ._helpers_na_d import (
    CYC, ELEM, ITEM, Sub, attr_reads, base_chain, bind_args, callee_last, conj, contains_orig, get_sub, getattr_norm,
    guard_atoms_at, has_attr, has_name, is_attr_of, is_none_const, is_pseudo, loc, local_names, nested_defs, none_test,
    normal_succ, orig, returns_in, root_name, top_attr,
)

R = Registry(
    "C42",
    title="Polymorphic queries return each row as its most specific class",
    decides=(
        "clauses of C42, not the behaviour: (R1) loading._decorate_polymorphic_switch reads the discriminator of every "
        "row from the column chosen for the query, looks the processor up by that value, builds it with "
        "_instance_processor for polymorphic_map[value] (not for the base mapper) with _polymorphic_from=<base>, "
        "applies the chosen processor to the row, falls back to the base processor only for the base mapper's own "
        "identity, returns no object only for rows without primary key and raises for NULL / foreign / unknown "
        "identities; _instance_processor installs the switch exactly when the mapper has a polymorphic_map and the load "
        "is neither a refresh nor already dispatched, and creates instances of its own mapper's class; (R2) the "
        "discriminator column selected at compile time (_setup_entity_query) and the one read at load time are the "
        "same choice (explicit discriminator else mapper.polymorphic_on) with the same adaption, and _MapperEntity hands "
        "one and the same attribute to both; (R3) Mapper.polymorphic_map is written only by _configure_inheritance / "
        "_set_concrete_base, each mapper registers itself under its own polymorphic_identity, and an inheriting "
        "mapper shares (not copies) the parent's map before registering; (R4) the identity setter shared by all "
        "mappers of a hierarchy stamps the identity of the instance's own mapper, inheriting mappers adopt setter, "
        "attribute key and validator from the same ancestor, the init hook calls it and bulk INSERT defaults to the "
        "mapper's identity; (R5) Mapper._single_table_criteria_component is the discriminator IN the identities of "
        "self_and_descendants, guarded by single / inherits / polymorphic_on, _single_table_criterion is built from it, "
        "_ORMSelectCompileState._adjust_for_extra_criteria turns every registered single-inheritance entity into a "
        "WHERE criterion on every path, and every other place that reads the criterion conjoins it."
    ),
    not_decided=(
        "the rows and discriminator values in the database; which columns / relationships a sub-mapper's processor "
        "populates (with_polymorphic, selectin_polymorphic, of_type: loader strategies, C40); concrete inheritance "
        "unions; user supplied polymorphic_on expressions; that every entity of a statement is registered for the "
        "single-table criterion (only the registration sites that exist are judged)."
    ),
)

LOAD = "orm/loading.py"
MAP = "orm/mapper.py"
CTXM = "orm/context.py"


def _only(ctx, items, what):
    ctx.require(len(items) == 1, f"expected exactly one {what}, found {len(items)}")
    return items[0]


def _name(e, *names) -> bool:
    return isinstance(e, ast.Name) and e.id in names


def _strip_adapt(e: ast.AST) -> Tuple[ast.AST, Optional[str]]:
    """(inner, adapter name) for `<adapter>.columns[inner]`, else (e, None)"""
    if isinstance(e, ast.Subscript) and is_attr_of(e.value, "columns") and isinstance(getattr_norm(e.value)[0], ast.Name):
        return e.slice, getattr_norm(e.value)[0].id
    return e, None


# ---------------------------------------------------------------------- C42-R1: the row switch
class _Switch:
    def __init__(self, ctx):
        self.ctx = ctx
        self.f = f = ctx.func(f"{LOAD}::_decorate_polymorphic_switch")
        self.ip = ctx.func(f"{LOAD}::_instance_processor")
        self.S = S = get_sub(ctx, f)
        roots = set()
        for n in walk_local(f.node, into_nested=True):
            if isinstance(n, ast.Attribute) and n.attr == "polymorphic_map" and isinstance(n.value, ast.Name) and n.value.id in f.params:
                roots.add(n.value.id)
        self.M = _only(ctx, sorted(roots), f"parameter of {f.key} that .polymorphic_map is read from")
        defs = nested_defs(f.node)
        rets = [r.value.id for r in returns_in(f.node) if isinstance(r.value, ast.Name)]
        self.switch = _only(ctx, [d for d in defs if d.name in rets], "nested function returned as the row switch")
        self.factory = _only(ctx, [d for d in defs if d is not self.switch and any(
            isinstance(n, ast.Subscript) and is_attr_of(n.value, "polymorphic_map", self.M) for n in ast.walk(d))],
            "nested function that maps a discriminator value through polymorphic_map")
        self.getter_call = _only(ctx, [c for c in calls_in(f.node) if isinstance(c.func, ast.Attribute) and c.func.attr == "_getter"],
                                 "result._getter(<discriminator column>) call")
        # the base processor: the parameter the function returns untouched when there is no discriminator
        base = [r.value.id for r in returns_in(f.node) if isinstance(r.value, ast.Name) and r.value.id in f.params]
        self.base_fn = _only(ctx, sorted(set(base)), "parameter returned as is (the undecorated processor)")

    def outer(self, name: str, inner_def) -> List[ast.AST]:
        return self.S.free(ast.Name(id=name, ctx=ast.Load()), inner_def)


def _sw(ctx) -> _Switch:
    if "_c42_sw" not in ctx.__dict__:
        ctx.__dict__["_c42_sw"] = _Switch(ctx)
    return ctx.__dict__["_c42_sw"]


@R.rule("C42-R1", floor=7, template="T-PATH/T-FLOW",
        desc="row switch: discriminator read per row from the query's discriminator column; processor chosen by that value "
             "through polymorphic_map and built for THAT sub-mapper; chosen processor applied; base processor / no object / "
             "error only in the documented cases; switch installed by _instance_processor for every polymorphic non-refresh load")
def r1(ctx):
    sw = _sw(ctx)
    f, S, M = sw.f, sw.S, sw.M
    # ---- S1 discriminator column
    bad = []
    kinds = set()
    adapters = set()
    for a in S.ctx_alts(sw.getter_call.args[0]) if sw.getter_call.args else []:
        inner, ad = _strip_adapt(a)
        if ad is not None:
            adapters.add(ad)
            if ad not in f.params:
                bad.append(f"adapted through `{ad}`, which is not the adapter the processor was given")
        if is_attr_of(inner, "polymorphic_on", M):
            kinds.add("mapper")
        elif isinstance(inner, ast.Name) and inner.id in f.params:
            kinds.add("explicit:" + inner.id)
        else:
            bad.append(f"the switch reads `{unparse(a)[:60]}`, neither the explicit discriminator nor {M}.polymorphic_on")
    if "mapper" not in kinds:
        bad.append(f"the switch never reads {M}.polymorphic_on")
    if not any(k.startswith("explicit:") for k in kinds):
        bad.append("an explicit polymorphic discriminator (with_polymorphic(..., polymorphic_on=...)) is ignored")
    ctx.check(not bad, f"{f.key}:discriminator-column", "; ".join(sorted(set(bad))),
              f"result._getter(explicit discriminator | {M}.polymorphic_on, adapted)", loc(f, sw.getter_call))
    # ---- S2 the switch function
    swf = sw.switch
    SW = get_sub(ctx, swf)
    ctx.require(len(swf.args.args) == 1, f"{f.key}: the row switch takes more than the row")
    row = swf.args.args[0].arg
    mine = local_names(swf)
    getters = {n.id for n in ast.walk(swf) if isinstance(n, ast.Name) and n.id not in mine
               and any(contains_orig(a, sw.getter_call) and isinstance(a, ast.Call) for a in sw.outer(n.id, swf))}
    memos = {n.id for n in ast.walk(swf) if isinstance(n, ast.Name) and n.id not in mine
             and any(isinstance(a, ast.Call) and any(_name(x, sw.factory.name) for x in a.args) for a in sw.outer(n.id, swf))}
    pkfn = {n.func.id for n in ast.walk(swf) if isinstance(n, ast.Call) and isinstance(n.func, ast.Name) and n.func.id in f.params
            and n.func.id != sw.base_fn}

    def is_disc(e):
        return isinstance(e, ast.Call) and _name(e.func, *getters) and len(e.args) == 1 and _name(e.args[0], row)

    def is_chosen(e):
        return isinstance(e, ast.Subscript) and _name(e.value, *memos) and is_disc(e.slice)

    def is_pk(e):
        return isinstance(e, ast.Call) and _name(e.func, *pkfn) and len(e.args) == 1 and _name(e.args[0], row)
    applied, bad_fb = [], []
    for r_ in returns_in(swf):
        at = SW.node_of(r_.value) if r_.value is not None else None
        alts = SW.alts(r_.value, at) if r_.value is not None else [ast.Constant(value=None)]
        gs = guard_atoms_at(SW, at) if at is not None else []
        for a in alts:
            if isinstance(a, ast.Call) and len(a.args) == 1 and _name(a.args[0], row) and is_chosen(a.func):
                ok_g = any((not pol) and any(none_test(x) is not None and is_disc(none_test(x)) for x in al) for al, pol, t in gs) \
                    and any(pol and any(is_chosen(x) for x in al) for al, pol, t in gs)
                applied.append(ok_g)
            elif isinstance(a, ast.Call) and _name(a.func, sw.base_fn) and len(a.args) == 1 and _name(a.args[0], row):
                if not any((not pol) and any(is_chosen(x) for x in al) for al, pol, t in gs):
                    bad_fb.append("the base mapper's processor is applied without the chosen processor being None (base identity)")
                if not any((not pol) and any(isinstance(x, ast.Compare) and isinstance(x.ops[0], ast.Is) and is_chosen(x.left)
                                             and isinstance(x.comparators[0], ast.Constant) and x.comparators[0].value is False for x in al)
                           for al, pol, t in gs):
                    bad_fb.append("the base mapper's processor is applied also to a row whose identity belongs to a foreign mapper")
            elif is_none_const(a):
                if not any((not pol) and any(is_pk(x) for x in al) for al, pol, t in gs):
                    bad_fb.append("a row WITH a primary key can be dropped silently (NULL / foreign discriminator must raise)")
            else:
                bad_fb.append(f"the switch returns `{unparse(a)[:60]}`")
    ctx.check(bool(applied) and all(applied), f"{f.key}:switch:chosen-processor-applied",
              "the processor looked up by the row's discriminator value is not what is applied to the row (or not under `discriminator is not None` "
              "and `processor found`) -- session.query(Person) over an Engineer row returns a Person",
              "polymorphic_instances[getter(row)](row)", loc(f, swf))
    ctx.check(not bad_fb, f"{f.key}:switch:fallbacks", "; ".join(sorted(set(bad_fb))),
              "base processor only for the base identity, None only without primary key, everything else raises", loc(f, swf))
    # ---- S3 the factory
    fac = sw.factory
    FS = get_sub(ctx, fac)
    ctx.require(len(fac.args.args) == 1, f"{f.key}: processor factory takes more than the discriminator value")
    dv = fac.args.args[0].arg

    def is_sub(e):
        return isinstance(e, ast.Subscript) and is_attr_of(e.value, "polymorphic_map", M) and _name(e.slice, dv)
    bad, bad_o = [], []
    built = 0
    for r_ in returns_in(fac):
        if r_.value is None:
            bad_o.append("bare return in the processor factory")
            continue
        at = FS.node_of(r_.value)
        gs = guard_atoms_at(FS, at)
        for a in FS.alts(r_.value, at):
            if isinstance(a, ast.Call) and callee_last(a) == sw.ip.name:
                built += 1
                b = bind_args(a, sw.ip.node, skip_self=False) or {}
                mp = sw.ip.params[1]
                if mp not in b or not is_sub(b[mp]):
                    bad.append(f"the processor is built for `{unparse(b.get(mp))[:40] if mp in b else '?'}`, not for {M}.polymorphic_map[<discriminator>]: "
                               "rows are instantiated as the wrong class")
                pf = [k for k in b if "polymorphic_from" in k]
                if not pf or not _name(b[pf[0]], M):
                    bad.append(f"the sub-mapper's processor is not told it was dispatched from {M} (_polymorphic_from): it would install a switch of its own / "
                               "skip selectin loading of the subclass columns")
                recv = root_name(sw.getter_call.func.value)
                if len(sw.ip.params) > 3 and not _name(b.get(sw.ip.params[3]), recv):
                    bad.append("the sub-mapper's processor reads another result object than the switch")
            elif is_none_const(a):
                if not any(pol and any(isinstance(x, ast.Compare) and isinstance(x.ops[0], ast.Is) and
                                       ((is_sub(x.left) and _name(x.comparators[0], M)) or (is_sub(x.comparators[0]) and _name(x.left, M)))
                                       for x in al) for al, pol, t in gs):
                    bad_o.append("`use the base processor` is answered for an identity that is not the base mapper's own")
            elif isinstance(a, ast.Constant) and a.value is False:
                if not any((not pol) and any(isinstance(x, ast.Call) and isinstance(x.func, ast.Attribute) and x.func.attr == "isa"
                                             and is_sub(x.func.value) and x.args and _name(x.args[0], M) for x in al) for al, pol, t in gs):
                    bad_o.append("`foreign identity` is answered for a mapper that IS a sub-mapper")
            else:
                bad_o.append(f"the factory answers `{unparse(a)[:50]}`")
    hs = [n.id for n in FS.g.nodes if n.kind == "handler"]
    if hs and FS.g.exit in FS.g.reachable(hs):
        bad_o.append("an identity missing from polymorphic_map is swallowed instead of raising")
    ctx.check(built > 0 and not bad, f"{f.key}:factory:processor-of-the-sub-mapper", "; ".join(sorted(set(bad))) or "no processor is built for sub-mappers",
              f"_instance_processor(.., {M}.polymorphic_map[value], .., _polymorphic_from={M})", loc(f, fac))
    ctx.check(not bad_o, f"{f.key}:factory:base-foreign-unknown", "; ".join(sorted(set(bad_o))),
              "None only for the base mapper itself, False only for a non-sub-mapper, unknown identity raises", loc(f, fac))
    # ---- S4 installation
    ip = sw.ip
    SI = get_sub(ctx, ip)
    calls = [c for c in calls_in(ip.node) if callee_last(c) == f.name]
    bad = []
    inner = {d.name for d in nested_defs(ip.node)}
    if not calls:
        bad.append("the polymorphic switch is never installed")
    for c in calls:
        b = bind_args(c, f.node, skip_self=False) or {}
        if not _name(b.get(sw.base_fn), *inner):
            bad.append("what is decorated is not the row processor defined here")
        if not _name(b.get(M), ip.params[1]):
            bad.append(f"the switch is built for `{unparse(b.get(M))[:30]}`, not for the mapper being loaded")
        explicit = [p for p in f.params if any(_name(_strip_adapt(a)[0], p) for a in S.ctx_alts(sw.getter_call.args[0]))]
        for p in explicit:
            if not (isinstance(b.get(p), ast.Name) and b[p].id in ip.params):
                bad.append("the explicit discriminator is not passed on to the switch")
        gs = guard_atoms_at(SI, SI.node_of(c))
        want_pf = [p for p in ip.params if "polymorphic_from" in p]
        seen = set()
        for al, pol, t in gs:
            if pol and all(is_attr_of(x, "polymorphic_map", ip.params[1]) for x in al):
                seen.add("map")
            elif (not pol) and all(isinstance(x, ast.Name) and x.id in want_pf + ["refresh_state"] for x in al):
                seen.add(al[0].id)     # keyword parameters of the processor's signature: dispatched-from / refresh
            else:
                bad.append(f"the switch is installed only if `{unparse(orig(t))[:40]}` is {pol}: other polymorphic loads return base-class objects")
        if "map" not in seen:
            bad.append("the switch is installed without looking at mapper.polymorphic_map")
        if want_pf and want_pf[0] not in seen:
            bad.append("a processor that was itself dispatched installs another switch (unbounded recursion / wrong base)")
    for r_ in returns_in(ip.node):
        for a in SI.alts(r_.value, SI.node_of(r_.value)) if r_.value is not None else []:
            if not (_name(a, *inner) or (isinstance(a, ast.Call) and callee_last(a) == f.name)):
                bad.append(f"_instance_processor returns `{unparse(a)[:40]}`")
    if calls and not any(isinstance(a, ast.Call) and callee_last(a) == f.name
                         for r_ in returns_in(ip.node) if r_.value is not None for a in SI.alts(r_.value, SI.node_of(r_.value))):
        bad.append("the decorated processor is built but not returned")
    ctx.check(not bad, f"{ip.key}:switch-installed", "; ".join(sorted(set(bad))),
              "installed iff mapper.polymorphic_map and not dispatched and not a refresh; returned", loc(ip, calls[0]) if calls else loc(ip))
    # ---- S5 instances are created from the processor's own mapper
    news = [c for d in nested_defs(ip.node) for c in ast.walk(d) if isinstance(c, ast.Call) and isinstance(c.func, ast.Attribute) and c.func.attr == "new_instance"]
    ctx.require(news, f"{ip.key}: no new_instance() call")
    bad = []
    for c in news:
        for a in SI.free(c.func.value, [d for d in nested_defs(ip.node) if any(x is c for x in ast.walk(d))][0]):
            if root_name(a) != ip.params[1]:
                bad.append(f"new objects are created from `{unparse(a)[:50]}`, not from the mapper this processor was built for")
    ctx.check(not bad, f"{ip.key}:instance-of-own-mapper", "; ".join(sorted(set(bad))) + " -- the dispatched processor would create base-class objects",
              f"{ip.params[1]}.class_manager.new_instance()", loc(ip, news[0]))


R.mutant("r1-processor-for-base-mapper", LOAD,
         sub("            return _instance_processor(\n                query_entity,\n                sub_mapper,\n", "            return _instance_processor(\n                query_entity,\n                mapper,\n"), "C42-R1")
R.mutant("r1-base-processor-applied", LOAD,
         sub("            if _instance:\n                return _instance(row)\n", "            if _instance:\n                return instance_fn(row)\n"), "C42-R1")
R.mutant("r1-foreign-identity-loaded-as-base", LOAD,
         sub("            elif not sub_mapper.isa(mapper):\n                return False\n", "            elif not sub_mapper.isa(mapper):\n                return None\n"), "C42-R1")
R.mutant("r1-null-discriminator-dropped", LOAD,
         sub("        else:\n            identitykey = ensure_no_pk(row)\n\n            if identitykey:\n                raise sa_exc.InvalidRequestError(",
             "        else:\n            return None\n            identitykey = ensure_no_pk(row)\n\n            if identitykey:\n                raise sa_exc.InvalidRequestError("), "C42-R1")
R.mutant("r1-unknown-identity-swallowed", LOAD,
         sub("        except KeyError:\n            raise AssertionError(\n                \"No such polymorphic_identity %r is defined\" % discriminator\n            )",
             "        except KeyError:\n            return None"), "C42-R1")
R.mutant("r1-explicit-discriminator-ignored", LOAD,
         sub("    if polymorphic_discriminator is not None:\n        polymorphic_on = polymorphic_discriminator\n    else:\n        polymorphic_on = mapper.polymorphic_on\n    if polymorphic_on is None:",
             "    polymorphic_on = mapper.polymorphic_on\n    if polymorphic_on is None:"), "C42-R1")
R.mutant("r1-switch-not-for-aliased", LOAD,
         sub("    if mapper.polymorphic_map and not _polymorphic_from and not refresh_state:\n        # if we are doing polymorphic",
             "    if (\n        mapper.polymorphic_map\n        and not _polymorphic_from\n        and not refresh_state\n        and not adapter\n    ):\n        # if we are doing polymorphic"), "C42-R1")
R.mutant("r1-dispatched-from-dropped", LOAD, sub("                _polymorphic_from=mapper,\n            )\n\n    polymorphic_instances", "            )\n\n    polymorphic_instances"), "C42-R1")
R.mutant("r1-instance-of-dispatching-mapper", LOAD,
         sub("                instance = mapper.class_manager.new_instance()", "                instance = (_polymorphic_from or mapper).class_manager.new_instance()"), "C42-R1")
R.mutant("benign-r1-switch-restructured", LOAD,
         chain(sub("    def polymorphic_instance(row):\n        discriminator = getter(row)\n        if discriminator is not None:\n            _instance = polymorphic_instances[discriminator]\n            if _instance:\n                return _instance(row)\n            elif _instance is False:",
                   "    def polymorphic_instance(row):\n        ident = getter(row)\n        if ident is not None:\n            chosen = polymorphic_instances[ident]\n            if chosen:\n                loaded = chosen(row)\n                return loaded\n            elif chosen is False:"),
               sub("                            polymorphic_on,\n                            mapper.polymorphic_map[discriminator],\n", "                            polymorphic_on,\n                            mapper.polymorphic_map[ident],\n"),
               sub("            if sub_mapper is mapper:\n                return None\n            elif not sub_mapper.isa(mapper):\n                return False\n",
                   "            if not sub_mapper.isa(mapper):\n                return False\n            if sub_mapper is mapper:\n                return None\n")), None)


# ---------------------------------------------------------------------- C42-R2: one discriminator column for compile and load
def _disc_kw(c: ast.Call) -> Optional[ast.expr]:
    for k in c.keywords:
        if k.arg == "polymorphic_discriminator":
            return k.value
    return None


@R.rule("C42-R2", floor=4, template="T-SIBLING",
        desc="the discriminator column put into the SELECT (_setup_entity_query) and the one the row switch reads are the same "
             "choice with the same adaption; within a class, _setup_entity_query and _instance_processor get the same discriminator")
def r2(ctx):
    sw = _sw(ctx)
    f = ctx.func(f"{LOAD}::_setup_entity_query")
    S = get_sub(ctx, f)
    # the explicit discriminator: the parameter whose (adapted) value is appended to a parameter collection
    sites = []
    for c in calls_in(f.node):
        if isinstance(c.func, ast.Attribute) and c.func.attr == "append" and isinstance(c.func.value, ast.Name) and c.func.value.id in f.params and c.args:
            alts = S.ctx_alts(c.args[0])
            inner = {(_strip_adapt(a)[0].id if isinstance(_strip_adapt(a)[0], ast.Name) else None, _strip_adapt(a)[1]) for a in alts}
            if all(nm in f.params for nm, ad in inner if nm is not None) and all(nm is not None for nm, ad in inner):
                sites.append((c, inner))
    bad = []
    if not sites:
        bad.append("an explicit polymorphic discriminator is never added to the selected columns: the row switch cannot read it")
    M = None
    for c, inner in sites:
        names = {nm for nm, ad in inner}
        ctx.require(len(names) == 1, f"{f.key}: appended discriminator not understood")
        P = names.pop()
        ads = {ad for nm, ad in inner}
        if None not in ads:
            bad.append("without an adapter the explicit discriminator is not selected")
        if not (ads - {None}):
            bad.append("with an adapter (aliased entity) the un-adapted discriminator is selected: the switch, which adapts it, finds no such column")
        if any(ad not in f.params for ad in ads - {None}):
            bad.append("the discriminator is adapted by something other than the entity's adapter")
        for al, pol, t in guard_atoms_at(S, S.node_of(c)):
            x = al[0]
            if (not pol) and none_test(x) is not None and _name(none_test(x), P):
                continue
            if (not pol) and isinstance(x, ast.Compare) and isinstance(x.ops[0], ast.Is) and (
                    (_name(x.left, P) and is_attr_of(x.comparators[0], "polymorphic_on")) or (_name(x.comparators[0], P) and is_attr_of(x.left, "polymorphic_on"))):
                continue
            bad.append(f"the explicit discriminator is selected only if `{unparse(orig(t))[:40]}` is {pol}")
    ctx.check(not bad, f"{f.key}:explicit-discriminator-selected", "; ".join(sorted(set(bad))),
              "appended (adapted iff adapter) whenever given and different from mapper.polymorphic_on", loc(f, sites[0][0]) if sites else loc(f))
    # ---- same adaption on the load side
    kinds: Dict[str, Set[bool]] = {}
    for a in sw.S.ctx_alts(sw.getter_call.args[0]):
        inner, ad = _strip_adapt(a)
        k = "mapper" if is_attr_of(inner, "polymorphic_on") else "explicit"
        kinds.setdefault(k, set()).add(ad is not None)
    bad = [f"the switch reads the {k} discriminator only {'adapted' if v == {True} else 'un-adapted'}, the SELECT has it both ways (adapter or not)"
           for k, v in sorted(kinds.items()) if v != {True, False}]
    ctx.check(not bad, f"{sw.f.key}:adaption-as-selected", "; ".join(bad), "adapted iff an adapter is present, as on the compile side", loc(sw.f, sw.getter_call))
    # ---- per class: both sides get the same discriminator
    n = 0
    for rel in (CTXM, "orm/strategies.py", "orm/query.py", "orm/loading.py"):
        m = ctx.index.module(rel)
        for cname, cls in sorted(m.classes.items()):
            sel, ld = [], []
            for mname, meth in sorted(cls.methods.items()):
                for c in calls_in(meth.node, into_nested=True):
                    if callee_last(c) == "_setup_entity_query":
                        sel.append((meth, c))
                    elif callee_last(c) == "_instance_processor":
                        ld.append((meth, c))
            if not sel or not ld:
                continue
            n += 1
            a = {unparse(_disc_kw(c)) if _disc_kw(c) is not None else None for _, c in sel}
            b = {unparse(_disc_kw(c)) if _disc_kw(c) is not None else None for _, c in ld}
            okc = a == b and len(a) == 1 and all(v is None or v.startswith("self.") for v in a)
            ctx.check(okc, f"{cls.key}:discriminator-to-select-and-load",
                      f"columns are selected with discriminator {sorted(map(str, a))} but rows are processed with {sorted(map(str, b))}: "
                      "with_polymorphic(Base, '*', selectable, polymorphic_on=col) rows are dispatched on a column that was not selected / on the wrong column",
                      f"both sides: {sorted(map(str, a))[0]}", loc(sel[0][0], sel[0][1]))
            for meth, c in sel + ld:
                ctx.functions_analysed.add(meth.key)
    ctx.require(n >= 2, f"only {n} class(es) both select entity columns and process entity rows")


R.mutant("r2-adapted-discriminator-not-selected", LOAD,
         sub("        if adapter:\n            pd = adapter.columns[polymorphic_discriminator]\n        else:\n            pd = polymorphic_discriminator\n        column_collection.append(pd)",
             "        pd = polymorphic_discriminator\n        column_collection.append(pd)"), "C42-R2")
R.mutant("r2-switch-reads-unadapted", LOAD,
         sub("    if adapter:\n        polymorphic_on = adapter.columns[polymorphic_on]\n\n    def configure_subclass_mapper", "    def configure_subclass_mapper"), "C42-R2")
R.mutant("r2-row-processor-drops-discriminator", CTXM,
         sub("            refresh_state=refresh_state,\n            polymorphic_discriminator=self._polymorphic_discriminator,\n        )", "            refresh_state=refresh_state,\n        )"), "C42-R2")
R.mutant("r2-dml-returning-drops-discriminator", CTXM,
         sub("            only_load_props=compile_state.compile_options._only_load_props,\n            polymorphic_discriminator=self._polymorphic_discriminator,\n        )\n\n    def setup_compile_state",
             "            only_load_props=compile_state.compile_options._only_load_props,\n        )\n\n    def setup_compile_state"), "C42-R2")
R.mutant("r2-explicit-selected-only-without-adapter", LOAD,
         sub("    if (\n        polymorphic_discriminator is not None\n        and polymorphic_discriminator is not mapper.polymorphic_on\n    ):",
             "    if (\n        polymorphic_discriminator is not None\n        and polymorphic_discriminator is not mapper.polymorphic_on\n        and not with_polymorphic\n    ):"), "C42-R2")
R.mutant("benign-r2-conditional-expression", LOAD,
         sub("        if adapter:\n            pd = adapter.columns[polymorphic_discriminator]\n        else:\n            pd = polymorphic_discriminator\n        column_collection.append(pd)",
             "        column_collection.append(\n            adapter.columns[polymorphic_discriminator]\n            if adapter\n            else polymorphic_discriminator\n        )"), None)


# ---------------------------------------------------------------------- C42-R3: polymorphic_map registration
MAP_OWNERS = {
    f"{MAP}::Mapper.__init__": "creates the map of a base mapper / takes the map handed in by the caller",
    f"{MAP}::Mapper._configure_inheritance": "shares the parent's map and registers the mapper under its identity",
    f"{MAP}::Mapper._set_concrete_base": "late parent of a concrete mapper: merges the maps",
}


def _map_writes(ctx):
    """[(module, enclosing function key, kind, node)] of every write to a `.polymorphic_map` in the orm package"""
    from ._helpers_rules_c import owner_key
    out = []
    for m in ctx.index.all_modules():
        if not m.relpath.startswith("orm/") or "polymorphic_map" not in m.source:
            continue
        for n in ast.walk(m.tree):
            kind = None
            if isinstance(n, ast.Subscript) and isinstance(n.ctx, (ast.Store, ast.Del)) and is_attr_of(n.value, "polymorphic_map"):
                kind = "item"
            elif isinstance(n, ast.Attribute) and n.attr == "polymorphic_map" and isinstance(n.ctx, (ast.Store, ast.Del)):
                kind = "rebind"
            elif isinstance(n, ast.Call) and isinstance(n.func, ast.Attribute) and is_attr_of(n.func.value, "polymorphic_map") \
                    and n.func.attr in ("update", "setdefault", "pop", "popitem", "clear", "__setitem__", "__delitem__"):
                kind = "call:" + n.func.attr
            if kind:
                out.append((m, owner_key(m, n), kind, n))
    return out


@R.rule("C42-R3", floor=6, template="T-OWN/T-FLOW",
        desc="polymorphic_map is written only by the mapper configuration functions; a mapper registers ITSELF under ITS OWN "
             "identity; an inheriting mapper shares the parent's map object before it registers; a late concrete base merges first")
def r3(ctx):
    writes = _map_writes(ctx)
    ctx.require(writes, "no write to polymorphic_map found")
    foreign = sorted({k for m, k, kind, n in writes if k not in MAP_OWNERS})
    ctx.check(not foreign, f"{MAP}::Mapper.polymorphic_map:writers",
              f"polymorphic_map is also written by {foreign}: an identity registered / removed behind the configuration's back",
              f"{len(writes)} write(s), all in {sorted(k.split('::')[1] for k in {k for _, k, _, _ in writes})}")
    f = ctx.func(f"{MAP}::Mapper._configure_inheritance")
    S, g = get_sub(ctx, f), None
    g = S.g
    # item stores into the map, also through a local alias (`shared = self.polymorphic_map; shared[ident] = self`)
    items = [n for n in walk_local(f.node) if isinstance(n, ast.Subscript) and isinstance(n.ctx, ast.Store)
             and any(is_attr_of(a, "polymorphic_map") for a in S.ctx_alts(n.value))]
    shares = [(n, st) for t, n, st in attr_stores(f.node) if t == "self.polymorphic_map"]
    ctx.require(items, f"{f.key}: no registration into polymorphic_map")
    bad = []
    for it in items:
        at = S.node_of(it)
        st = S._root_of.get(id(it))
        for a in S.ctx_alts(it.slice):
            if not is_attr_of(a, "polymorphic_identity", "self"):
                bad.append(f"registered under `{unparse(a)[:40]}`, not under the mapper's own polymorphic_identity")
        for a in S.ctx_alts(it.value):
            if not is_attr_of(a, "polymorphic_map", "self"):
                bad.append(f"registered in `{unparse(a)[:40]}`, not in the mapper's (shared) map")
        val = st.value if isinstance(st, ast.Assign) else None
        if val is None or not all(_name(a, "self") for a in S.alts(val, at)):
            bad.append("what is registered is not the mapper itself")
        if not any((not pol) and any(none_test(x) is not None and is_attr_of(none_test(x), "polymorphic_identity", "self") for x in al)
                   for al, pol, t in guard_atoms_at(S, at)):
            bad.append("a mapper without polymorphic_identity registers itself under None")
    ctx.check(not bad, f"{f.key}:registers-self-under-own-identity", "; ".join(sorted(set(bad))),
              f"{len(items)} site(s): self.polymorphic_map[self.polymorphic_identity] = self", loc(f, items[0]))
    # inheriting branch: share before register
    bad = []
    share_nodes = []
    for n, st in shares:
        at = g.nodes_for(st)[0]
        for a in S.alts(st.value, at):
            if is_attr_of(a, "polymorphic_map") and is_attr_of(getattr_norm(a)[0], "inherits", "self"):
                share_nodes.append(at)
            else:
                bad.append(f"an inheriting mapper takes `{unparse(a)[:50]}` as its map: the parent (and a query against the parent) never sees the sub-mapper's identity")
    if not share_nodes:
        bad.append("an inheriting mapper does not share its parent's polymorphic_map")
    inh = [it for it in items if any(pol and any(is_attr_of(x, "inherits", "self") for x in al) for al, pol, t in guard_atoms_at(S, S.node_of(it)))]
    if not inh:
        bad.append("an inheriting mapper never registers its identity")
    for it in inh:
        w = g.always_preceded(S.node_of(it), share_nodes) if share_nodes else ["?"]
        if w is not None:
            bad.append("the identity is registered before the parent's map is adopted: it lands in a map nobody else reads")
    ctx.check(not bad, f"{f.key}:shares-parent-map-before-registering", "; ".join(sorted(set(bad))) + " -- query(Person) over an Engineer row: "
              "'No such polymorphic_identity'", "self.polymorphic_map = self.inherits.polymorphic_map dominates the registration", loc(f, shares[0][0]) if shares else loc(f))
    roots = [it for it in items if it not in inh]
    ctx.check(bool(roots), f"{f.key}:base-mapper-registers", "a base mapper with a polymorphic_identity does not register itself",
              f"{len(roots)} site(s) outside the inheriting branch", loc(f))
    # __init__: own map
    init = ctx.func(f"{MAP}::Mapper.__init__")
    SI = get_sub(ctx, init)
    bad = []
    inits = [(n, st) for t, n, st in attr_stores(init.node) if t == "self.polymorphic_map"]
    ctx.require(inits, f"{init.key}: polymorphic_map not initialised")
    fresh = 0
    for n, st in inits:
        for a in SI.alts(st.value, SI.g.nodes_for(st)[0]):
            if isinstance(a, ast.Dict) and not a.keys:
                fresh += 1
            elif not (isinstance(a, ast.Name) and a.id in init.params):
                bad.append(f"a new mapper starts with `{unparse(a)[:40]}` as its map")
    if not fresh:
        bad.append("a base mapper does not get a map of its own")
    ctx.check(not bad, f"{init.key}:own-map", "; ".join(bad) + " -- two unrelated hierarchies would share identities", "a new dict (or the map passed in)", loc(init, inits[0][0]))
    # late concrete base
    f2 = ctx.func(f"{MAP}::Mapper._set_concrete_base")
    S2 = get_sub(ctx, f2)
    ups = [n for m, k, kind, n in writes if k == f2.key and kind == "call:update"]
    reb = [(n, st) for t, n, st in attr_stores(f2.node) if t == "self.polymorphic_map"]
    bad = []
    if not ups:
        bad.append("the identities already registered below a concrete mapper are not merged into its new parent's map")
    if not reb:
        bad.append("the concrete mapper does not adopt its new parent's map")
    for u in ups:
        if not (u.args and all(is_attr_of(a, "polymorphic_map", "self") for a in S2.ctx_alts(u.args[0]))):
            bad.append("what is merged into the parent's map is not the mapper's own map")
        for n, st in reb:
            if S2.g.always_preceded(S2.g.nodes_for(st)[0], [S2.node_of(u)]) is not None:
                bad.append("the mapper adopts the parent's map before merging its own into it: its identities are lost")
    ctx.check(not bad, f"{f2.key}:merge-then-adopt", "; ".join(sorted(set(bad))), "parent.polymorphic_map.update(own); own = parent's", loc(f2))


R.mutant("r3-map-copied-not-shared", MAP,
         sub("            self.polymorphic_map = self.inherits.polymorphic_map\n            self.batch = self.inherits.batch\n            self.inherits._inheriting_mappers.append(self)",
             "            self.polymorphic_map = dict(self.inherits.polymorphic_map)\n            self.batch = self.inherits.batch\n            self.inherits._inheriting_mappers.append(self)"), "C42-R3")
R.mutant("r3-registered-before-sharing", MAP,
         chain(sub("            self.polymorphic_map = self.inherits.polymorphic_map\n            self.batch = self.inherits.batch\n            self.inherits._inheriting_mappers.append(self)",
                   "            self.batch = self.inherits.batch\n            self.inherits._inheriting_mappers.append(self)"),
               sub("            if self.polymorphic_load and self.concrete:\n", "            self.polymorphic_map = self.inherits.polymorphic_map\n            if self.polymorphic_load and self.concrete:\n")), "C42-R3")
R.mutant("r3-registered-under-class-name", MAP,
         sub("                        )\n                    )\n                self.polymorphic_map[self.polymorphic_identity] = self\n",
             "                        )\n                    )\n                self.polymorphic_map[self.class_.__name__] = self\n"), "C42-R3")
R.mutant("r3-parent-registered", MAP,
         sub("                        )\n                    )\n                self.polymorphic_map[self.polymorphic_identity] = self\n",
             "                        )\n                    )\n                self.polymorphic_map[self.polymorphic_identity] = self.inherits\n"), "C42-R3")
R.mutant("r3-concrete-base-adopts-first", MAP,
         sub("        self.inherits.polymorphic_map.update(self.polymorphic_map)\n        self.polymorphic_map = self.inherits.polymorphic_map\n",
             "        self.polymorphic_map = self.inherits.polymorphic_map\n        self.inherits.polymorphic_map.update(self.polymorphic_map)\n"), "C42-R3")
R.mutant("r3-foreign-writer", "orm/util.py",
         sub("def _entity_corresponds_to(", "def _forget_identity(mapper, ident):\n    mapper.polymorphic_map.pop(ident, None)\n\n\ndef _entity_corresponds_to("), "C42-R3")
R.mutant("benign-r3-locals", MAP,
         sub("                        )\n                    )\n                self.polymorphic_map[self.polymorphic_identity] = self\n",
             "                        )\n                    )\n                ident = self.polymorphic_identity\n                shared = self.polymorphic_map\n                shared[ident] = self\n"), None)


# ---------------------------------------------------------------------- C42-R4: new objects carry their own mapper's identity
@R.rule("C42-R4", floor=4, template="T-FLOW",
        desc="the identity setter (shared by every mapper of the hierarchy) stamps the identity of the INSTANCE's mapper; inheriting "
             "mappers adopt setter / attribute key / validator of one ancestor when they see the discriminator; the init hook calls the "
             "setter of the instance's mapper; bulk INSERT defaults the discriminator to the mapper's identity")
def r4(ctx):
    f = ctx.func(f"{MAP}::Mapper._configure_polymorphic_setter")
    S = get_sub(ctx, f)
    defs = {d.name: d for d in nested_defs(f.node)}
    setters = set()
    for t, n, st in attr_stores(f.node):
        if t == "self._set_polymorphic_identity":
            for a in S.alts(st.value, S.g.nodes_for(st)[0]):
                if isinstance(a, ast.Name) and a.id in defs:
                    setters.add(a.id)
    ctx.require(setters, f"{f.key}: no locally defined identity setter is installed")
    bad = []
    for nm in sorted(setters):
        d = defs[nm]
        SD = get_sub(ctx, d)
        own = [a.arg for a in d.args.args]
        sets = [c for c in calls_in(d) if isinstance(c.func, ast.Attribute) and c.func.attr == "set" and len(c.args) >= 3]
        if not sets:
            bad.append("the setter sets nothing")
        for c in sets:
            for a in SD.ctx_alts(c.args[2]):
                if not is_attr_of(a, "polymorphic_identity"):
                    bad.append(f"the discriminator attribute is set to `{unparse(a)[:50]}`, not to a polymorphic_identity")
                elif root_name(a) not in own:
                    bad.append(f"the discriminator attribute is set to `{unparse(a)[:50]}`: the identity of the mapper that DEFINED the setter. "
                               "Sub-mappers reuse this function, so Engineer() would be stored (and reloaded) as a Person")
            for a in SD.ctx_alts(c.args[0]):
                if root_name(a) not in own:
                    bad.append("the value is set on something other than the instance state handed in")
    ctx.check(not bad, f"{f.key}:setter-uses-instance-mapper", "; ".join(sorted(set(bad))),
              "<state>.manager.mapper.polymorphic_identity", loc(f, defs[sorted(setters)[0]]))
    # ---- adoption by inheriting mappers
    trio = ("_set_polymorphic_identity", "_polymorphic_attr_key", "_validate_polymorphic_identity")
    adopted: Dict[str, Set[str]] = {}
    guards_ok: Dict[str, bool] = {}
    for t, n, st in attr_stores(f.node):
        nm = t[5:] if t.startswith("self.") else None
        if nm not in trio:
            continue
        at = S.g.nodes_for(st)[0]
        for a in S.alts(st.value, at):
            r = getattr_norm(a)
            if r is not None and r[1] == nm and not _name(r[0], "self"):
                adopted.setdefault(nm, set()).add(ast.dump(r[0]))
                g_ok = any((not pol) and any(none_test(x) is not None and is_attr_of(none_test(x), "polymorphic_on", "self") for x in al)
                           for al, pol, tt in guard_atoms_at(S, at))
                guards_ok[nm] = guards_ok.get(nm, True) and g_ok
    bad = []
    for nm in trio:
        if nm not in adopted:
            bad.append(f"an inheriting mapper does not adopt its ancestor's {nm}")
    if len({frozenset(v) for v in adopted.values()}) > 1:
        bad.append("setter, attribute key and validator are adopted from different mappers")
    for nm, okg in guards_ok.items():
        if not okg:
            bad.append(f"{nm} is adopted although the inheriting mapper does not see the discriminator column")
    ctx.check(not bad, f"{f.key}:inheriting-mapper-adopts-setter", "; ".join(sorted(set(bad))) + " -- Engineer() would be flushed with a NULL discriminator",
              "all three from the same ancestor, when self.polymorphic_on is present", loc(f))
    # ---- init hook
    f2 = ctx.func(f"{MAP}::_event_on_init")
    S2 = get_sub(ctx, f2)
    calls = [c for c in calls_in(f2.node) if any(is_attr_of(a, "_set_polymorphic_identity") for a in S2.ctx_alts(c.func))]
    bad = []
    if not calls:
        bad.append("the init hook never stamps the identity")
    for c in calls:
        st_param = f2.params[0]
        if not (c.args and _name(c.args[0], st_param)):
            bad.append("the setter is not given the new instance's state")
        for fa in S2.ctx_alts(c.func):
            a = getattr_norm(fa)[0] if getattr_norm(fa) else fa
            if not (root_name(a) == st_param and is_attr_of(a, "mapper")):
                bad.append(f"the setter of `{unparse(a)[:40]}` is used, not the one of the instance's mapper")
        for al, pol, t in guard_atoms_at(S2, S2.node_of(c)):
            if not (pol and all(root_name(x) == st_param for x in al)):
                bad.append(f"stamping is conditional on `{unparse(orig(t))[:40]}`")
    ctx.check(not bad, f"{f2.key}:stamps-on-init", "; ".join(sorted(set(bad))), "state.manager.mapper._set_polymorphic_identity(state)", loc(f2))
    # ---- bulk insert default
    f3 = ctx.func("orm/persistence.py::_collect_insert_commands")
    S3 = get_sub(ctx, f3)
    sd = [c for c in calls_in(f3.node) if isinstance(c.func, ast.Attribute) and c.func.attr in ("setdefault", "__setitem__") and len(c.args) == 2
          and any(is_attr_of(a, "_polymorphic_attr_key") for a in S3.ctx_alts(c.args[0]))]
    bad = []
    if not sd:
        bad.append("bulk INSERT does not default the discriminator")
    for c in sd:
        ka = {ast.dump(getattr_norm(a)[0]) for a in S3.ctx_alts(c.args[0])}
        for a in S3.ctx_alts(c.args[1]):
            if not is_attr_of(a, "polymorphic_identity") or ast.dump(getattr_norm(a)[0]) not in ka:
                bad.append(f"the discriminator defaults to `{unparse(a)[:40]}`, not to the identity of the mapper whose key is used")
    ctx.check(not bad, f"{f3.key}:bulk-default-identity", "; ".join(bad) + " -- session.bulk_insert_mappings(Engineer, [...]) rows load as Person / not at all",
              "params.setdefault(mapper._polymorphic_attr_key, mapper.polymorphic_identity)", loc(f3, sd[0]) if sd else loc(f3))


R.mutant("r4-setter-uses-defining-mapper", MAP,
         sub("                polymorphic_identity = (\n                    state.manager.mapper.polymorphic_identity\n                )\n                if (\n                    polymorphic_identity is None",
             "                polymorphic_identity = self.polymorphic_identity\n                if (\n                    polymorphic_identity is None"), "C42-R4")
R.mutant("r4-attr-key-not-adopted", MAP,
         sub("                        self._polymorphic_attr_key = (\n                            mapper._polymorphic_attr_key\n                        )\n", "                        self._polymorphic_attr_key = None\n"), "C42-R4")
R.mutant("r4-setter-adopted-from-base-only", MAP,
         sub("                        self._set_polymorphic_identity = (\n                            mapper._set_polymorphic_identity\n                        )\n",
             "                        self._set_polymorphic_identity = (\n                            self.base_mapper._set_polymorphic_identity\n                        )\n"), "C42-R4")
R.mutant("r4-init-hook-uses-base-mapper", MAP,
         sub("        if instrumenting_mapper._set_polymorphic_identity:\n            instrumenting_mapper._set_polymorphic_identity(state)",
             "        if instrumenting_mapper._set_polymorphic_identity and not instrumenting_mapper.inherits:\n            instrumenting_mapper._set_polymorphic_identity(state)"), "C42-R4")
R.mutant("r4-bulk-default-base-identity", "orm/persistence.py",
         sub("                    mapper._polymorphic_attr_key, mapper.polymorphic_identity\n", "                    mapper._polymorphic_attr_key, mapper.base_mapper.polymorphic_identity\n"), "C42-R4")
R.mutant("benign-r4-setter-locals", MAP,
         sub("                polymorphic_identity = (\n                    state.manager.mapper.polymorphic_identity\n                )\n                if (\n                    polymorphic_identity is None\n                    and state.manager.mapper.polymorphic_abstract\n                ):",
             "                own_mapper = state.manager.mapper\n                polymorphic_identity = own_mapper.polymorphic_identity\n                if polymorphic_identity is None and own_mapper.polymorphic_abstract:"), None)


# ---------------------------------------------------------------------- C42-R5: single-table criterion
def _real_uses(ctx, f, attr: str) -> Tuple[int, int]:
    """(reads of `.<attr>` in f, statements with an effect that the value read flows into: a store to an attribute / item,
    an augmented assignment, a return, a call statement).  A None / truth test or a value that only ever reaches a local
    name is not a use.  Flow through locals is a plain (flow insensitive) taint: cheap, and enough to tell "used" from
    "only tested"."""
    ctx.functions_analysed.add(f.key)
    reads = {id(n) for n in walk_local(f.node) if isinstance(n, ast.Attribute) and n.attr == attr and isinstance(n.ctx, ast.Load)}
    tainted: Set[str] = set()

    def carries(e) -> bool:
        return any(id(n) in reads or (isinstance(n, ast.Name) and isinstance(n.ctx, ast.Load) and n.id in tainted) for n in ast.walk(e))

    def local_targets(tg) -> Optional[List[str]]:
        leaves = tg.elts if isinstance(tg, (ast.Tuple, ast.List)) else [tg]
        out = []
        for x in leaves:
            if isinstance(x, ast.Starred):
                x = x.value
            if isinstance(x, (ast.Tuple, ast.List)):
                sub_ = local_targets(x)
                if sub_ is None:
                    return None
                out.extend(sub_)
            elif isinstance(x, ast.Name):
                out.append(x.id)
            else:
                return None
        return out
    stmts = [n for n in walk_local(f.node) if isinstance(n, ast.stmt)]
    changed = True
    while changed:
        changed = False
        for st in stmts:
            val, tgs = None, []
            if isinstance(st, ast.Assign):
                val, tgs = st.value, st.targets
            elif isinstance(st, ast.AnnAssign) and st.value is not None:
                val, tgs = st.value, [st.target]
            elif isinstance(st, ast.For):
                val, tgs = st.iter, [st.target]
            if val is None or not carries(val):
                continue
            for tg in tgs:
                for nm in local_targets(tg) or []:
                    if nm not in tainted:
                        tainted.add(nm)
                        changed = True
    real = 0
    for st in stmts:
        if isinstance(st, ast.Assign):
            if all(local_targets(t) is not None for t in st.targets):
                continue
            val = st.value
        elif isinstance(st, ast.AugAssign):
            val = st.value
        elif isinstance(st, ast.Return) and st.value is not None:
            val = st.value
        elif isinstance(st, ast.Expr) and isinstance(st.value, ast.Call):
            val = st.value
        else:
            continue
        if carries(val):
            real += 1
    return len(reads), real


@R.rule("C42-R5", floor=9, template="T-FLOW/T-PATH",
        desc="single-table criterion = discriminator IN identities of self_and_descendants (guarded by single / inherits / "
             "polymorphic_on); _adjust_for_extra_criteria turns every registered entity's component into a WHERE criterion on every "
             "path; registration sites test the criterion; every other reader conjoins / forwards it")
def r5(ctx):
    # ---- T1 component
    f = ctx.func(f"{MAP}::Mapper._single_table_criteria_component")
    S = get_sub(ctx, f)
    rets = [r_ for r_ in returns_in(f.node) if r_.value is not None and not is_none_const(r_.value)]
    bad = []
    if not rets:
        bad.append("no criterion component is produced")
    for r_ in rets:
        at = S.node_of(r_.value)
        for a in S.alts(r_.value, at):
            if not (isinstance(a, ast.Tuple) and len(a.elts) == 2):
                bad.append(f"component is `{unparse(a)[:50]}`, not (discriminator column, identities)")
                continue
            col, ids = a.elts
            if not any(is_attr_of(n, "polymorphic_on", "self") for n in ast.walk(col)):
                bad.append("the criterion is not on the mapper's polymorphic_on column")
            comps = [n for n in ast.walk(ids) if isinstance(n, (ast.GeneratorExp, ast.ListComp, ast.SetComp))]
            if len(comps) != 1:
                bad.append("identities are not collected by one iteration over the hierarchy")
                continue
            gen = comps[0].generators[0]
            if not is_attr_of(gen.iter, "self_and_descendants", "self"):
                bad.append(f"identities are collected from `{unparse(gen.iter)[:40]}`, not from self.self_and_descendants: "
                           "query(Manager) misses Boss(Manager) rows / returns Person rows")
            if not (is_attr_of(comps[0].elt, "polymorphic_identity") and is_pseudo(getattr_norm(comps[0].elt)[0], ELEM)):
                bad.append("what is collected is not each mapper's polymorphic_identity")
            for cond in gen.ifs:
                okc = isinstance(cond, ast.UnaryOp) and isinstance(cond.op, ast.Not) and is_attr_of(cond.operand, "polymorphic_abstract")
                if not okc:
                    bad.append(f"descendants are filtered by `{unparse(cond)[:40]}`")
        want = {"single": False, "inherits": False, "polymorphic_on": False}
        for al, pol, t in guard_atoms_at(S, at):
            x = al[0]
            if pol and is_attr_of(x, "single", "self"):
                want["single"] = True
            elif pol and is_attr_of(x, "inherits", "self"):
                want["inherits"] = True
            elif (not pol) and none_test(x) is not None and is_attr_of(none_test(x), "polymorphic_on", "self"):
                want["polymorphic_on"] = True
            else:
                bad.append(f"the criterion exists only if `{unparse(orig(t))[:40]}` is {pol}")
        for k, v in want.items():
            if not v:
                bad.append(f"the criterion is produced without testing self.{k} (a base / joined-table mapper would filter too)")
    ctx.check(not bad, f"{f.key}:discriminator-in-own-and-descendant-identities", "; ".join(sorted(set(bad))),
              "(self.polymorphic_on, identities of self_and_descendants) iff single and inherits and polymorphic_on", loc(f))
    # ---- T2 criterion
    f2 = ctx.func(f"{MAP}::Mapper._single_table_criterion")
    S2 = get_sub(ctx, f2)
    bad = []
    rets = [r_ for r_ in returns_in(f2.node) if r_.value is not None and not is_none_const(r_.value)]
    if not rets:
        bad.append("no criterion is produced")

    def comp_item(e, i):
        if isinstance(e, ast.Subscript) and isinstance(e.slice, ast.Constant) and e.slice.value == i:
            return is_attr_of(e.value, "_single_table_criteria_component", "self")
        return is_pseudo(e, ITEM) and is_attr_of(e.args[0], "_single_table_criteria_component", "self") and e.args[1].value == i
    for r_ in rets:
        for a in S2.alts(r_.value, S2.node_of(r_.value)):
            okc = isinstance(a, ast.Call) and isinstance(a.func, ast.Attribute) and a.func.attr == "in_" and len(a.args) == 1 \
                and comp_item(a.func.value, 0) and comp_item(a.args[0], 1)
            if not okc:
                bad.append(f"criterion is `{unparse(a)[:70]}`, not component[0].in_(component[1])")
    ctx.check(not bad, f"{f2.key}:column-in-identities", "; ".join(bad), "component[0].in_(component[1])", loc(f2))
    # ---- T3 / T4 select compile path
    f3 = ctx.func(f"{CTXM}::_ORMSelectCompileState._adjust_for_extra_criteria")
    S3, g = get_sub(ctx, f3), None
    g = S3.g
    comp_reads = [n for n in walk_local(f3.node) if isinstance(n, ast.Attribute) and n.attr == "_single_table_criteria_component"]
    ctx.require(comp_reads, f"{f3.key}: the single-table component is never read")
    bad = []
    for r in comp_reads:
        for a in S3.ctx_alts(r):
            base = getattr_norm(a)[0]
            if not is_attr_of(base, "mapper"):
                bad.append(f"component read off `{unparse(base)[:40]}`")
    loops = [n for n in walk_local(f3.node) if isinstance(n, ast.For)]
    l1 = [lp for lp in loops if any(x is comp_reads[0] for st in lp.body for x in ast.walk(st))]
    ctx.require(len(l1) == 1, f"{f3.key}: loop over the registered entities not found")
    l1 = l1[0]
    if not any(has_attr(a, "extra_criteria_entities") for a in S3.ctx_alts(l1.iter)):
        bad.append("the loop that adds the criteria does not run over self.extra_criteria_entities")
    ups = [c for st in l1.body for c in ast.walk(st) if isinstance(c, ast.Call) and isinstance(c.func, ast.Attribute) and c.func.attr in ("update", "add", "extend", "append")
           and c.args and any(contains_orig(a, comp_reads[0]) for a in S3.ctx_alts(c.args[0]))]
    if not ups:
        bad.append("the identities of an entity's component are not collected")
    else:
        upn = [S3.node_of(c) for c in ups]
        fors = [n.id for n in g.nodes if n.kind == "for" and n.stmt is l1 and not n.copy]
        cut = set()
        for n in g.nodes:
            if n.kind != "test":
                continue
            for lab in ("true", "false"):
                for t, pol in conj(n.stmt.test, lab == "true"):
                    al = S3.alts(t, n.id)
                    if pol and any(none_test(x) is not None and contains_orig(none_test(x), comp_reads[0]) for x in al):
                        cut.add((n.id, lab))        # no component: not a single-inheritance entity
                    if pol and any(isinstance(x, ast.Compare) and isinstance(x.ops[0], ast.In) and has_attr(x.comparators[0], "_join_entities") for x in al):
                        cut.add((n.id, lab))        # joined entities get the criterion in their ON clause (_ORMJoin)
        body = [b for b, lab in g.succ[fors[0]] if lab == "true" and b not in upn]
        w = g.witness(body, fors + [g.exit], avoid=upn, edge_ok=lambda a, b, lab: lab != "exc" and (a, lab) not in cut)
        if w is not None:
            bad.append("a registered single-inheritance entity can pass the loop without contributing its identities: " + " -> ".join(g.describe_path(w))[:200])
    ins = [c for c in calls_in(f3.node) if isinstance(c.func, ast.Attribute) and c.func.attr == "in_"]
    l2 = [lp for lp in loops if lp is not l1 and any(x is c for c in ins for st in lp.body for x in ast.walk(st))]
    if not l2:
        bad.append("the collected identities are never turned into `discriminator IN (...)`")
    else:
        l2 = l2[0]
        inc = [c for c in ins if any(x is c for st in l2.body for x in ast.walk(st))][0]
        adds = [n.id for n in g.nodes if n.kind == "stmt" and not n.copy and isinstance(n.stmt, (ast.AugAssign, ast.Assign))
                and any(x is n.stmt for st in l2.body for x in ast.walk(st))
                and any(isinstance(a, (ast.BinOp, ast.Tuple, ast.List)) and contains_orig(a, inc) for a in S3.alts(n.stmt.value, n.id))]
        fors2 = [n.id for n in g.nodes if n.kind == "for" and n.stmt is l2 and not n.copy]
        if not adds:
            bad.append("the IN criterion is built but not added to the criteria to apply")
        else:
            body = [b for b, lab in g.succ[fors2[0]] if lab == "true" and b not in adds]
            if body and g.witness(body, fors2 + [g.exit], avoid=adds, edge_ok=no_exc) is not None:
                bad.append("an iteration can skip adding the IN criterion")
        wh = [n.id for n in g.nodes if n.kind == "stmt" and not n.copy and isinstance(n.stmt, (ast.AugAssign, ast.Assign))
              and any(is_attr_of(t, "_where_criteria", "self") for t in ([n.stmt.target] if isinstance(n.stmt, ast.AugAssign) else n.stmt.targets))
              and any(contains_orig(a, inc) for a in S3.alts(n.stmt.value, n.id))]
        after = [b for b, lab in g.succ[fors2[0]] if lab == "false"]
        if not wh:
            bad.append("the criteria are never appended to self._where_criteria")
        else:
            inner_for = [n.id for n in g.nodes if n.kind == "for" and not n.copy and any(i in g.reachable([b for b, lab in g.succ[n.id] if lab == "true"], avoid=[n.id], edge_ok=no_exc) for i in wh)]
            w = g.witness(after, [g.exit], avoid=wh + inner_for, edge_ok=no_exc)
            if w is not None:
                bad.append("a path after the criteria are assembled returns without appending them to self._where_criteria")
    ctx.check(not bad, f"{f3.key}:every-registered-entity-filtered", "; ".join(sorted(set(bad))) + " -- select(Manager) on a single-table hierarchy returns every Person row",
              "component -> merged identities -> polymorphic_on.in_() -> self._where_criteria on every path", loc(f3))
    # registration sites
    regs = []
    for m in (ctx.index.module(CTXM),):
        for fi in ctx.index.all_functions(m):
            for n in walk_local(fi.node):
                if isinstance(n, ast.Subscript) and isinstance(n.ctx, ast.Store) and is_attr_of(n.value, "extra_criteria_entities"):
                    regs.append((fi, n))
    ctx.require(len(regs) >= 3, f"only {len(regs)} registration site(s) of extra_criteria_entities")
    for fi, n in regs:
        SR = get_sub(ctx, fi)
        okr = False
        for al, pol, t in guard_atoms_at(SR, SR.node_of(n)):
            for x in al:
                disj = x.values if isinstance(x, ast.BoolOp) and isinstance(x.op, ast.Or) else [x]
                for d in disj:
                    for tt, pp in conj(d, pol):
                        if (not pp) and none_test(tt) is not None and is_attr_of(none_test(tt), "_single_table_criterion"):
                            okr = True
        ctx.check(okr, f"{fi.key}:registers-single-inheritance-entity",
                  "the entity is registered for extra criteria without `mapper._single_table_criterion is not None` being one of the reasons: "
                  "a single-inheritance entity of this kind is not filtered", "registered when the mapper has a single-table criterion (or loader criteria)", loc(fi, n))
    # ---- T5 other readers
    readers = []
    for m in ctx.index.all_modules():
        if not m.relpath.startswith("orm/") or "_single_table_criterion" not in m.source or m.relpath == MAP:
            continue
        for fi in ctx.index.all_functions(m):
            if fi.type_only or fi in [r_[0] for r_ in regs]:
                continue
            if any(isinstance(n, ast.Attribute) and n.attr == "_single_table_criterion" for n in walk_local(fi.node)):
                readers.append(fi)
    ctx.require(len(readers) >= 3, f"only {len(readers)} function(s) outside the select compile path read _single_table_criterion")
    for fi in sorted(readers, key=lambda x: x.key):
        nreads, real = _real_uses(ctx, fi, "_single_table_criterion")
        ctx.check(real > 0, f"{fi.key}:criterion-applied",
                  f"the {nreads} read(s) of _single_table_criterion are only tested, never conjoined / forwarded: the single-inheritance target is not filtered "
                  "on this path (join to a subclass entity, relationship to a subclass, ORM UPDATE/DELETE of a subclass)",
                  f"{nreads} read(s), {real} use(s) as operand / argument", loc(fi))


R.mutant("r5-children-only", MAP,
         sub("                for m in self.self_and_descendants\n                if not m.polymorphic_abstract\n            )\n\n            return (\n                self.polymorphic_on._annotate(",
             "                for m in [self] + self._inheriting_mappers\n                if not m.polymorphic_abstract\n            )\n\n            return (\n                self.polymorphic_on._annotate("), "C42-R5")
R.mutant("r5-joined-table-filtered-too", MAP,
         sub("        if self.single and self.inherits and self.polymorphic_on is not None:\n\n            hierarchy", "        if self.inherits and self.polymorphic_on is not None:\n\n            hierarchy"), "C42-R5")
R.mutant("r5-criterion-on-identity-list-swapped", MAP,
         sub("            return component[0].in_(component[1])", "            return component[0].in_(component[1][:1])"), "C42-R5")
R.mutant("r5-aliased-entities-skipped", CTXM,
         sub("            if ext_info in self._join_entities:\n                continue\n", "            if ext_info in self._join_entities or ext_info.is_aliased_class:\n                continue\n"), "C42-R5")
R.mutant("r5-criteria-not-appended-without-adapter", CTXM,
         sub("            # else just concatenate our criteria to the final WHERE criteria\n            self._where_criteria += _where_criteria_to_add",
             "            # else just concatenate our criteria to the final WHERE criteria\n            pass"), "C42-R5")
R.mutant("r5-in-criterion-dropped", CTXM,
         sub("            for adapter in adapters:\n                new_crit = adapter.traverse(new_crit)\n            _where_criteria_to_add += (new_crit,)",
             "            for adapter in adapters:\n                new_crit = adapter.traverse(new_crit)"), "C42-R5")
R.mutant("r5-column-entity-not-registered", CTXM,
         sub("        ezero = self.entity_zero\n\n        single_table_crit = self.mapper._single_table_criterion\n        if (\n            single_table_crit is not None\n            or (\"additional_entity_criteria\", self.mapper)",
             "        ezero = self.entity_zero\n\n        single_table_crit = self.mapper._single_table_criterion\n        if (\n            (\"additional_entity_criteria\", self.mapper)"), "C42-R5")
R.mutant("r5-join-on-clause-not-augmented", "orm/util.py",
         sub("                self.onclause = self.onclause & single_crit\n", "                pass\n"), "C42-R5")
R.mutant("r5-bulk-criterion-dropped", "orm/bulk_persistence.py",
         sub("            return_crit += (ext_info.mapper._single_table_criterion,)\n", "            pass\n"), "C42-R5")
R.mutant("benign-r5-restructured", CTXM,
         chain(sub("            if ext_info in self._join_entities:\n                continue\n", "            joined = ext_info in self._join_entities\n            if joined:\n                continue\n"),
               sub("            for adapter in adapters:\n                new_crit = adapter.traverse(new_crit)\n            _where_criteria_to_add += (new_crit,)",
                   "            for adapter in adapters:\n                new_crit = adapter.traverse(new_crit)\n            _where_criteria_to_add = _where_criteria_to_add + (new_crit,)")), None)

R.mutant("benign-r5-component-early-return", MAP,
         sub("        if self.single and self.inherits and self.polymorphic_on is not None:\n\n            hierarchy = tuple(\n                m.polymorphic_identity\n                for m in self.self_and_descendants\n                if not m.polymorphic_abstract\n            )\n\n            return (\n                self.polymorphic_on._annotate(\n                    {\"parententity\": self, \"parentmapper\": self}\n                ),\n                hierarchy,\n            )\n        else:\n            return None\n",
             "        if not (\n            self.single and self.inherits and self.polymorphic_on is not None\n        ):\n            return None\n        discriminator = self.polymorphic_on._annotate(\n            {\"parententity\": self, \"parentmapper\": self}\n        )\n        identities = tuple(\n            sub_mapper.polymorphic_identity\n            for sub_mapper in self.self_and_descendants\n            if not sub_mapper.polymorphic_abstract\n        )\n        return (discriminator, identities)\n"), None)
R.mutant("benign-r4-init-hook-alias", MAP,
         sub("        if instrumenting_mapper._set_polymorphic_identity:\n            instrumenting_mapper._set_polymorphic_identity(state)",
             "        stamp = instrumenting_mapper._set_polymorphic_identity\n        if stamp:\n            stamp(state)"), None)


# ---------------------------------------------------------------------- C42-R6 (str2-z2, seed C42_2): attributes the row does not carry
# A polymorphic row loaded through a query against a superclass is an instance of its most specific class, but the SELECT
# has only the superclass columns: for every other column attribute of that class the column loader finds no getter and
# files the attribute under populators["expire"] with flag True ("mark it expired, it is loaded on access").  Two things are
# necessary for "all of that class's attributes correct": (producer) every column attribute gets SOME populator, (consumer)
# the loops over populators["expire"] in loading.py mark every flagged attribute expired and, whenever the instance may
# already carry values (populate_existing / a partial refresh), take the old value out of the instance dict first -- an
# attribute that is in expired_attributes AND in the dict reads the stale dict value, and _commit_all() drops the mark.
STRAT = "orm/strategies.py"


def _expire_list(S: Sub, e: ast.AST) -> bool:
    return any(isinstance(a, ast.Subscript) and isinstance(a.slice, ast.Constant) and a.slice.value == "expire" for a in S.ctx_alts(e))


def _component(S: Sub, e: ast.AST, i: int) -> bool:
    """every alternative of `e` is component i of an element of an "expire" populator list"""
    al = S.ctx_alts(e)
    def ok(a):
        if isinstance(a, ast.Subscript) and isinstance(a.slice, ast.Constant) and a.slice.value == i:
            a = ast.Call(func=ast.Name(id=ITEM, ctx=ast.Load()), args=[a.value, ast.Constant(value=i)], keywords=[])
        return is_pseudo(a, ITEM) and len(a.args) == 2 and isinstance(a.args[1], ast.Constant) and a.args[1].value == i \
            and is_pseudo(a.args[0], ELEM) and a.args[0].args and isinstance(a.args[0].args[0], ast.Subscript) \
            and isinstance(a.args[0].args[0].slice, ast.Constant) and a.args[0].args[0].slice.value == "expire"
    return bool(al) and all(ok(a) for a in al)


def _falsy_param_edges(S: Sub, params, pname: str) -> Set[Tuple[int, str]]:
    """branch outcomes under which the parameter `pname` is falsy"""
    out: Set[Tuple[int, str]] = set()
    if pname not in params:
        return out
    for n in S.g.nodes:
        if n.kind != "test" or not hasattr(n.stmt, "test"):
            continue
        for lab in ("true", "false"):
            for t, pol in conj(n.stmt.test, lab == "true"):
                if not pol and any(_name(a, pname) for a in S.alts(t, n.id)):
                    out.add((n.id, lab))
    return out


def _not_requested_edges(S: Sub, params) -> Set[Tuple[int, str]]:
    """branch outcomes that say "this attribute is not among those being loaded" (`key in to_load` false), for a container
    other than a parameter that holds the instance dict"""
    out: Set[Tuple[int, str]] = set()
    for n in S.g.nodes:
        if n.kind != "test" or not hasattr(n.stmt, "test"):
            continue
        for lab in ("true", "false"):
            for t, pol in conj(n.stmt.test, lab == "true"):
                if not pol and isinstance(t, ast.Compare) and len(t.ops) == 1 and isinstance(t.ops[0], ast.In) and _component(S, t.left, 0):
                    out.add((n.id, lab))
    return out


def _expire_consumers(ctx):
    """[(normal form, Sub, [For loops over <x>["expire"]])] of the functions of orm/loading.py that consume the expire
    populators; a helper that is called from another consumer is judged where it is inlined"""
    from ._helpers_rob_i import nf
    mod = ctx.index.module(LOAD)
    cands = []
    for fi in mod.functions.values():
        if fi.cls is not None or fi.parent_func is not None:
            continue
        if '"expire"' not in ast.unparse(fi.node).replace("'", '"'):
            f0 = nf(ctx, fi, alias=None)
            if '"expire"' not in ast.unparse(f0.node).replace("'", '"'):
                continue
        else:
            f0 = nf(ctx, fi, alias=None)
        S = get_sub(ctx, f0)
        loops = [n for n in walk_local(f0.node) if isinstance(n, ast.For) and _expire_list(S, n.iter)]
        if loops:
            cands.append((fi, f0, S, loops))
    names = {fi.name for fi, _, _, _ in cands}
    out = []
    for fi, f0, S, loops in cands:
        called_by_other = any(isinstance(c.func, ast.Name) and c.func.id == fi.name
                              for fj, _, _, _ in cands if fj is not fi for c in calls_in(fj.node))
        if not called_by_other:
            out.append((f0, S, loops))
    return out


@R.rule("C42-R6", floor=8, template="T-SIBLING/T-PATH",
        desc="column attributes of the row's class that the SELECT does not carry: the column loader files them under the "
             "expire populators; every loop over populators[\"expire\"] in orm/loading.py marks each flagged attribute expired and, "
             "where the instance can already hold values (populate_existing, partial refresh), removes the old value from the "
             "instance dict for EVERY entry, flagged or not")
def r6(ctx):
    cons = _expire_consumers(ctx)
    n_loops = sum(len(l_) for _, _, l_ in cons)
    ctx.check(len(cons) >= 2 and n_loops >= 2, f"{LOAD}:expire-populators:consumers",
              f"expected the full and the partial population path to consume populators[\"expire\"], found {len(cons)} function(s) / {n_loops} loop(s)",
              f"{len(cons)} function(s), {n_loops} loop(s)", None)
    for f, S, loops in cons:
        g = S.g
        params = list(f.params)
        refreshes_only_on_request = "populate_existing" in params
        cut_req = _not_requested_edges(S, params)
        cut_pe = _falsy_param_edges(S, params, "populate_existing")
        cut_new = _falsy_param_edges(S, params, "isnew")
        heads_all: List[int] = []
        bad_mark: List[str] = []
        bad_pop: List[str] = []
        where = None
        for lp in loops:
            heads = [n.id for n in g.nodes if n.kind == "for" and n.stmt is lp]
            ctx.require(heads, f"{f.key}: loop over the expire populators has no CFG node")
            heads_all += heads
            where = where or lp
            ctx.require(isinstance(lp.target, (ast.Tuple, ast.List)) and len(lp.target.elts) == 2 or isinstance(lp.target, ast.Name),
                        f"{f.key}: element of the expire populators is not (key, flag)")
            adds, pops = [], []
            for st in lp.body:
                for c in ast.walk(st):
                    if isinstance(c, ast.Call) and isinstance(c.func, ast.Attribute) and c.args:
                        if c.func.attr == "add" and any(top_attr(a) == "expired_attributes" for a in S.ctx_alts(c.func.value)) \
                                and _component(S, c.args[0], 0):
                            adds.append(S.node_of(c))
                        if c.func.attr == "pop" and all(isinstance(a, ast.Name) and a.id in params for a in S.ctx_alts(c.func.value)) \
                                and _component(S, c.args[0], 0):
                            pops.append(S.node_of(c))
                    if isinstance(c, ast.Delete):
                        for t in c.targets:
                            if isinstance(t, ast.Subscript) and all(isinstance(a, ast.Name) and a.id in params for a in S.ctx_alts(t.value)) \
                                    and _component(S, t.slice, 0):
                                pops += g.nodes_for(c)
            adds = [a for a in adds if a is not None]
            pops = [p for p in pops if p is not None]
            body = [b for b, lab in g.succ[heads[0]] if lab == "true"]
            # (a) flagged entries are marked expired, every iteration
            cut_flag: Set[Tuple[int, str]] = set()
            for n in g.nodes:
                if n.kind == "test" and hasattr(n.stmt, "test"):
                    for lab in ("true", "false"):
                        for t, pol in conj(n.stmt.test, lab == "true"):
                            if not pol and not isinstance(t, ast.Compare) and _component(S, t, 1):
                                cut_flag.add((n.id, lab))
            cut = cut_flag | cut_req
            starts = [b for b in body if b not in adds]
            w = g.witness(starts, heads + [g.exit], avoid=adds, edge_ok=lambda a, b, lab: lab != "exc" and (a, lab) not in cut) if starts else None
            if not adds or w is not None:
                bad_mark.append(f"line {getattr(orig(lp), 'lineno', '?')}: an entry flagged `True` can pass without `<state>.expired_attributes.add(<key>)`")
            # (b) refresh context: the old value leaves the dict, flagged or not
            hg = S.guards(heads[0])
            only_without = refreshes_only_on_request and any((not pol) and any(_name(a, "populate_existing") for a in S.alts(t, S.node_of(t)) or [t])
                                                             for t, pol in hg if S.node_of(t) is not None or isinstance(t, ast.Name))
            if not only_without:
                cut = cut_pe | cut_req
                starts = [b for b in body if b not in pops]
                w = g.witness(starts, heads + [g.exit], avoid=pops, edge_ok=lambda a, b, lab: lab != "exc" and (a, lab) not in cut) if starts else None
                if not pops or w is not None:
                    tests = [unparse(g.nodes[i].stmt.test)[:40] for i in (w or []) if g.nodes[i].kind == "test" and hasattr(g.nodes[i].stmt, "test")]
                    bad_pop.append(f"line {getattr(orig(lp), 'lineno', '?')}: an entry can pass without `<dict>.pop(<key>)`"
                                   + (f" (decided by `{tests[-1]}`)" if tests else "") +
                                   (" although populate_existing is in effect" if refreshes_only_on_request else " although the attribute is being refreshed"))
        ctx.check(not bad_mark, f"{f.key}:expire-populators:flagged-entries-marked-expired", "; ".join(bad_mark) +
                  " -- session.query(Person) over an Engineer row: Engineer-only columns are neither in the dict nor expired and read as None",
                  f"{len(loops)} loop(s): every flagged entry reaches expired_attributes.add(key)", loc(f, where))
        ctx.check(not bad_pop, f"{f.key}:expire-populators:old-value-removed-when-refreshing", "; ".join(bad_pop) +
                  " -- Engineer objects already in the Session, rows changed, query(Person).populate_existing(): base columns are refreshed, "
                  "Engineer-only attributes keep their stale values (the expired mark is ignored while the key is in the dict and dropped by _commit_all)",
                  "every entry's key is popped from the instance dict before it is marked", loc(f, where))
        cut = cut_new | cut_pe
        w = g.witness([g.entry], [g.exit], avoid=heads_all, edge_ok=lambda a, b, lab: lab != "exc" and (a, lab) not in cut)
        ctx.check(w is None, f"{f.key}:expire-populators:consumed-for-first-seen-row",
                  "a row seen for the first time" + (" with populate_existing" if refreshes_only_on_request else "") +
                  " can be populated without going through the expire populators", "reached whenever isnew", loc(f), g.describe_path(w) if w else None)
    # ---- producer: the plain column loader leaves no attribute without populator
    fp = ctx.func(f"{STRAT}::_ColumnLoader.create_row_processor")
    SP = get_sub(ctx, fp)
    gp = SP.g
    apps, bad = [], []
    for c in calls_in(fp.node):
        if not (isinstance(c.func, ast.Attribute) and c.func.attr == "append" and c.args):
            continue
        kinds = {a.slice.value for a in SP.ctx_alts(c.func.value) if isinstance(a, ast.Subscript) and isinstance(a.slice, ast.Constant)
                 and all(isinstance(x, ast.Name) and x.id in fp.params for x in [a.value])}
        if not kinds:
            continue
        for a in SP.ctx_alts(c.args[0]):
            if not (isinstance(a, ast.Tuple) and len(a.elts) == 2 and is_attr_of(a.elts[0], "key", "self")):
                bad.append(f"`{unparse(a)[:50]}` is not filed under the property's own key")
            elif "expire" in kinds and not (isinstance(a.elts[1], ast.Constant) and a.elts[1].value is True):
                bad.append(f"a column that is not in the row is filed as `{unparse(a)[:50]}`: not marked expired, reads as None")
        if kinds & {"quick", "expire"}:
            apps.append(SP.node_of(c))
    apps = [a for a in apps if a is not None]
    if not apps:
        bad.append("no populator is registered")
    else:
        w = gp.must_pass([gp.entry], [gp.exit], apps, edge_ok=no_exc)
        if w is not None:
            bad.append("a path registers no populator for the attribute: a column missing from the row (subclass column in a superclass "
                       "query) is neither loaded nor expired")
    ctx.check(not bad, f"{fp.key}:every-column-attribute-gets-a-populator", "; ".join(sorted(set(bad))),
              "quick getter when the column is in the row, else (key, True) under expire", loc(fp))


_R6_FULL = ("        if populate_existing:\n            for key, set_callable in populators[\"expire\"]:\n                dict_.pop(key, None)\n                if set_callable:\n"
            "                    state.expired_attributes.add(key)\n        else:\n            for key, set_callable in populators[\"expire\"]:\n                if set_callable:\n"
            "                    state.expired_attributes.add(key)\n")
R.mutant("r6-old-value-popped-only-for-unflagged", LOAD,
         sub(_R6_FULL, "        for key, set_callable in populators[\"expire\"]:\n            if set_callable:\n                state.expired_attributes.add(key)\n"
                       "            elif populate_existing:\n                dict_.pop(key, None)\n"), "C42-R6")
R.mutant("r6-populate-existing-never-pops", LOAD,
         sub(_R6_FULL, "        for key, set_callable in populators[\"expire\"]:\n            if set_callable:\n                state.expired_attributes.add(key)\n"), "C42-R6")
R.mutant("r6-partial-refresh-keeps-flagged-value", LOAD,
         sub("            if key in to_load:\n                dict_.pop(key, None)\n                if set_callable:\n                    state.expired_attributes.add(key)\n",
             "            if key in to_load:\n                if set_callable:\n                    state.expired_attributes.add(key)\n                else:\n                    dict_.pop(key, None)\n"), "C42-R6")
R.mutant("r6-flagged-entries-not-marked-without-populate-existing", LOAD,
         sub("        else:\n            for key, set_callable in populators[\"expire\"]:\n                if set_callable:\n                    state.expired_attributes.add(key)\n",
             "        else:\n            for key, set_callable in populators[\"expire\"]:\n                if not set_callable:\n                    state.expired_attributes.add(key)\n"), "C42-R6")
R.mutant("r6-expire-populators-skipped-with-populate-existing", LOAD,
         sub(_R6_FULL, "        if not populate_existing:\n            for key, set_callable in populators[\"expire\"]:\n                if set_callable:\n                    state.expired_attributes.add(key)\n"), "C42-R6")
R.mutant("r6-missing-column-gets-no-populator", STRAT,
         sub("        else:\n            populators[\"expire\"].append((self.key, True))\n\n\n@log.class_logger", "        else:\n            pass\n\n\n@log.class_logger"), "C42-R6")
R.mutant("r6-missing-column-not-flagged", STRAT,
         sub("        else:\n            populators[\"expire\"].append((self.key, True))\n\n\n@log.class_logger", "        else:\n            populators[\"expire\"].append((self.key, False))\n\n\n@log.class_logger"), "C42-R6")
R.mutant("benign-r6-one-loop-pop-inside", LOAD,
         sub(_R6_FULL, "        for key, set_callable in populators[\"expire\"]:\n            if populate_existing:\n                dict_.pop(key, None)\n            if set_callable:\n                state.expired_attributes.add(key)\n"), None)
R.mutant("benign-r6-inverted-branch-and-locals", LOAD,
         sub(_R6_FULL, "        to_expire = populators[\"expire\"]\n        if not populate_existing:\n            for attrname, mark in to_expire:\n                if mark:\n                    state.expired_attributes.add(attrname)\n"
                       "        else:\n            for attrname, mark in to_expire:\n                dict_.pop(attrname, None)\n                if not mark:\n                    continue\n                state.expired_attributes.add(attrname)\n"), None)
R.mutant("benign-r6-extracted-helper", LOAD,
         chain(sub(_R6_FULL, "        _expire_unloaded(state, dict_, populators[\"expire\"], populate_existing)\n"),
               sub("def _populate_partial(\n", "def _expire_unloaded(state, dict_, entries, refresh):\n    for key, set_callable in entries:\n        if refresh:\n            dict_.pop(key, None)\n"
                                                "        if set_callable:\n            state.expired_attributes.add(key)\n\n\ndef _populate_partial(\n")), None)
