"""C17 -- Lambda statements never reuse stale closure values (clauses of the tracking machinery, not the behaviour).

What a lambda's closure holds is only known at run time, and whether the SQL a lambda builds depends on a value in a
way the tracker cannot see (a Python conditional on a global, `col == None`) is a property of the user's lambda: none
of that is decided here.  What IS visible in the shape of sql/lambdas.py is the plumbing that makes "run the lambda
once, re-read the closure every time" work: the per-invocation getters read the *current* closure, the record cache is
keyed by everything that changes the SQL, a record taken from the cache is handed the current values, the cached
wrappers re-extract values from the object they are given, and the expression handed to the compiler has the current
parameters spliced in.  Each clause below is a necessary condition: the breaking input is named in its message.
"""

from __future__ import annotations

import ast
from typing import Dict, List, Optional, Set, Tuple

from ..astutil import attr_stores, calls_in, dotted, unparse, walk_local
from ..cfg import no_exc
from ..report import Registry, chain, sub
from ._helpers_na_d import (
    CYC, ELEM, INDEX, Sub, attr_reads, base_chain, bind_args, conj, contains_orig, free_reads, getattr_norm, has_attr,
    has_name, is_pseudo, loc, local_names, nested_defs, nodes_with, normal_succ, orig, param_defaults, root_name,
)

R = Registry(
    "C17",
    title="Lambda statements never reuse stale closure values",
    decides=(
        "clauses of C17, not the behaviour: (R1) every per-invocation getter that AnalyzedCode registers (cache-key "
        "getters for closure variables / track_on, bound-value getters for closure cells / globals) computes its "
        "result from the closure / options / function it is CALLED with, never from a value captured when the code "
        "object was first analysed, and the bound-value getters read the value at the same cell / global name the "
        "wrapper sits at; (R2) LambdaElement._retrieve_tracker_rec keys the record cache by tracker key + parent "
        "closure key + the result of calling EVERY closure getter on the current closure, looks up and stores under "
        "the same key, publishes that key for _gen_cache_key and bypasses the cache when the key is NO_CACHE; (R3) the "
        "per-invocation parameter list is a fresh list, the list kept on the cached record is a copy, a record that "
        "comes out of the cache gets the current values under the record's parameter keys on every path, the parent's "
        "parameters are prepended and every bound-value tracker of the element and its parents runs on every "
        "cacheable invocation with (that element's current fn, its record's instrumented fn, the per-invocation "
        "list); (R4) PyWrapper._extract_bound_parameters takes the value from its argument (never the value stored at "
        "analysis time), re-applies every recorded attribute / item path to that argument, and _add_getter records "
        "every literal sub-value with the getter it used; the has-parameter flag is set only where a parameter is "
        "created; (R5) the expression handed out (_resolved, _resolve_with_args) has the per-invocation parameters "
        "spliced in by key, and _gen_cache_key returns code + closure key (own and parents') and extracts the "
        "per-invocation parameters; (R6) every closure cell is classified (wrapped as a potential bound value, or "
        "cache-key tracked, or rejected) unless a documented option turns tracking off, wrappers that did not become "
        "parameters become cache-key trackers, and with the default LambdaOptions every tracking guard is on."
    ),
    not_decided=(
        "that a statement built by a lambda equals the directly built statement: values the tracker cannot see "
        "(module globals used in Python conditionals, `col == x` with x None on one invocation: rendered `= NULL`, "
        "see findings/C17_obs_*), user callables inside lambdas, the classification of a live value as literal / "
        "cacheable (coercions._deep_is_literal, HasCacheKey), ORM with_loader_criteria propagation, rows returned."
    ),
)

LAM = "sql/lambdas.py"
AC = f"{LAM}::AnalyzedCode"
LE = f"{LAM}::LambdaElement"
PW = f"{LAM}::PyWrapper"
AF = f"{LAM}::AnalyzedFunction"

# attribute names through which a first-invocation VALUE is reached
VALUE_ATTRS = {"cell_contents", "__closure__", "__globals__", "_to_evaluate", "_sa__to_evaluate", "track_on"}
FUNC_STATE = {"__closure__", "__globals__", "__defaults__", "__kwdefaults__"}


def _S(ctx, f) -> Sub:
    cache = ctx.__dict__.setdefault("_na_d_sub", {})
    node = f.node if hasattr(f, "node") else f
    if id(node) not in cache:
        cache[id(node)] = Sub(ctx, f)
        if hasattr(f, "key"):
            ctx.functions_analysed.add(f.key)
    return cache[id(node)]


def _self_call(c: ast.Call) -> Optional[str]:
    f = c.func
    if isinstance(f, ast.Attribute) and isinstance(f.value, ast.Name) and f.value.id in ("self", "cls"):
        return f.attr
    return None


def _top_attr(e: ast.AST) -> Optional[str]:
    """attribute the expression itself reads (`x.y.closure_trackers` -> closure_trackers), through list()/tuple()"""
    while isinstance(e, ast.Call) and isinstance(e.func, ast.Name) and e.func.id in ("list", "tuple", "iter", "reversed") and len(e.args) == 1:
        e = e.args[0]
    r = getattr_norm(e)
    return r[1] if r is not None else None


def _has_cyc(e: ast.AST) -> bool:
    return any(isinstance(n, ast.Name) and n.id.startswith(CYC) for n in ast.walk(e))


def _strip_sa(a: str) -> str:
    return a[4:] if a.startswith("_sa_") else a


def _is_value_source(e: ast.AST, tainted: Set[str]) -> bool:
    if has_attr(e, *VALUE_ATTRS):
        return True
    return any(isinstance(n, ast.Name) and n.id in tainted for n in ast.walk(e))


# ---------------------------------------------------------------------- shared discovery: AnalyzedCode
class _Code:
    """tracker registrations, getter factories and value-carrying parameters of AnalyzedCode"""

    def __init__(self, ctx):
        self.ctx = ctx
        self.cls = cls = ctx.index.cls(AC)
        self.methods = dict(cls.methods)
        ctx.require(self.methods, "AnalyzedCode has no methods")
        self.tainted: Dict[str, Set[str]] = {m: set() for m in self.methods}
        self._taint()
        # registrations: (kind, method FuncInfo, call node of append/extend, [factory calls (substituted)])
        self.regs: List[Tuple[str, object, ast.Call, List[ast.Call]]] = []
        for name, m in sorted(self.methods.items()):
            S = _S(ctx, m)
            for c in calls_in(m.node):
                if not (isinstance(c.func, ast.Attribute) and c.func.attr in ("append", "extend", "insert") and c.args):
                    continue
                kinds = set()
                for r in S.ctx_alts(c.func.value):
                    for b, a in attr_reads(r):
                        if a in ("closure_trackers", "bindparam_trackers") and isinstance(b, ast.Name) and b.id == "self":
                            kinds.add(a)
                    if isinstance(r, ast.Attribute) and r.attr in ("closure_trackers", "bindparam_trackers"):
                        kinds.add(r.attr)
                if not kinds:
                    continue
                ctx.require(len(kinds) == 1, f"{m.key}: a list that is both closure_trackers and bindparam_trackers")
                facts = []
                for alt in S.ctx_alts(c):
                    for x in ast.walk(alt):
                        if isinstance(x, ast.Call) and _self_call(x) in self.methods:
                            facts.append(x)
                self.regs.append((kinds.pop(), m, c, facts))
        ctx.require(self.regs, "no registration into closure_trackers / bindparam_trackers found in AnalyzedCode")

    def _taint(self):
        ctx = self.ctx
        changed = True
        rounds = 0
        while changed and rounds < 8:
            changed = False
            rounds += 1
            for name, m in self.methods.items():
                S = _S(ctx, m)
                for c in calls_in(m.node, into_nested=False):
                    tgt = _self_call(c)
                    if tgt not in self.methods:
                        continue
                    for calt in S.ctx_alts(c):
                        b = bind_args(calt, self.methods[tgt].node)
                        if b is None:
                            continue
                        for p, arg in b.items():
                            if p not in self.tainted[tgt] and _is_value_source(arg, self.tainted[name]):
                                self.tainted[tgt].add(p)
                                changed = True

    def factories(self, kind: str) -> Dict[str, object]:
        """real getter factories (methods that define and return nested functions) reachable from registrations of
        `kind`, following delegating factories (`return self._other_factory(...)`)"""
        out: Dict[str, object] = {}
        todo = []
        for k, m, c, facts in self.regs:
            if k == kind:
                todo.extend(_self_call(x) for x in facts)
        seen = set()
        while todo:
            nm = todo.pop()
            if nm in seen or nm not in self.methods:
                continue
            seen.add(nm)
            f = self.methods[nm]
            if nested_defs(f.node):
                out[nm] = f
            for r in [n for n in walk_local(f.node) if isinstance(n, ast.Return) and n.value is not None]:
                for x in ast.walk(r.value):
                    if isinstance(x, ast.Call) and _self_call(x) in self.methods:
                        todo.append(_self_call(x))
        return out


def _code(ctx) -> _Code:
    if "_c17_code" not in ctx.__dict__:
        ctx.__dict__["_c17_code"] = _Code(ctx)
    return ctx.__dict__["_c17_code"]


def _returned_getters(fnode) -> List[ast.FunctionDef]:
    names = set()
    for n in walk_local(fnode):
        if isinstance(n, ast.Return) and isinstance(n.value, ast.Name):
            names.add(n.value.id)
    return [d for d in nested_defs(fnode) if d.name in names]


# ---------------------------------------------------------------------- call sites of the getters (roles of arguments)
class _RT:
    """facts about LambdaElement._retrieve_tracker_rec"""

    def __init__(self, ctx):
        self.ctx = ctx
        self.f = f = ctx.func(f"{LE}._retrieve_tracker_rec")
        self.S = S = _S(ctx, f)
        self.g = S.g
        fn = f.node
        # ---- the per-invocation parameter list
        self.list_stores = [(n, st) for t, n, st in attr_stores(fn) if t == "self._resolved_bindparams"]
        ctx.require(self.list_stores, f"{f.key}: self._resolved_bindparams is not assigned")
        self.fresh_nodes: List[ast.AST] = []
        self.fresh_bad: List[str] = []
        for n, st in self.list_stores:
            val = st.value if isinstance(st, (ast.Assign, ast.AnnAssign)) else None
            ctx.require(val is not None, f"{f.key}: store to _resolved_bindparams not understood")
            for a in S.alts(val, S.node_of(val) if S.node_of(val) is not None else self.g.nodes_for(st)[0]):
                if (isinstance(a, ast.List) and not a.elts) or (isinstance(a, ast.Call) and dotted(a.func) == "list" and not a.args):
                    self.fresh_nodes.append(orig(a))
                else:
                    self.fresh_bad.append(unparse(a)[:80])
                    self.fresh_nodes.append(orig(a))
        # ---- the iteration over the closure getters
        self.key_iter = None        # (comprehension node | For stmt, generator|None)
        for n in walk_local(fn):
            if isinstance(n, (ast.ListComp, ast.GeneratorExp, ast.SetComp)):
                for gen in n.generators:
                    if any(_top_attr(a) == "closure_trackers" for a in S.ctx_alts(gen.iter)):
                        ctx.require(self.key_iter is None, f"{f.key}: closure_trackers is iterated twice")
                        self.key_iter = (n, gen)
            elif isinstance(n, ast.For):
                if any(_top_attr(a) == "closure_trackers" for a in S.ctx_alts(n.iter)):
                    ctx.require(self.key_iter is None, f"{f.key}: closure_trackers is iterated twice")
                    self.key_iter = (n, None)
        ctx.require(self.key_iter is not None, f"{f.key}: no iteration over <tracker>.closure_trackers found")
        node, gen = self.key_iter
        tgt = gen.target if gen is not None else node.target
        ctx.require(isinstance(tgt, ast.Name), f"{f.key}: closure getter loop variable is not a plain name")
        body = node if gen is not None else ast.Module(body=node.body, type_ignores=[])
        calls = [c for c in ast.walk(body) if isinstance(c, ast.Call) and isinstance(c.func, ast.Name) and c.func.id == tgt.id]
        ctx.require(len(calls) == 1, f"{f.key}: expected one call of the closure getter inside its iteration, found {len(calls)}")
        self.key_call = calls[0]
        # anchor of the closure key inside a value: the comprehension, or the list the loop appends to
        self.key_anchor: List[ast.AST] = []
        self.key_loop_append: Optional[ast.Call] = None
        if gen is not None:
            self.key_anchor = [node]
        else:
            for c in ast.walk(body):
                if isinstance(c, ast.Call) and isinstance(c.func, ast.Attribute) and c.func.attr == "append" and c.args \
                        and any(x is self.key_call for x in ast.walk(c.args[0])):
                    self.key_loop_append = c
                    for a in S.ctx_alts(c.func.value):
                        self.key_anchor.append(orig(a))
            ctx.require(self.key_anchor, f"{f.key}: results of the closure getters are not appended to a list")
        # ---- record cache accesses
        self.accesses: List[Tuple[str, ast.AST, ast.expr, int]] = []      # (kind, node, key expr, cfg node)
        for n in walk_local(fn):
            if isinstance(n, ast.Call) and isinstance(n.func, ast.Attribute) and n.func.attr in ("get", "setdefault", "pop", "__getitem__") \
                    and n.args and self.is_cache(n.func.value):
                self.accesses.append(("get" if n.func.attr != "setdefault" else "store", n, n.args[0], S.node_of(n)))
            elif isinstance(n, ast.Subscript) and self.is_cache(n.value):
                self.accesses.append(("store" if isinstance(n.ctx, ast.Store) else "load", n, n.slice, S.node_of(n)))
            elif isinstance(n, ast.Compare) and len(n.ops) == 1 and isinstance(n.ops[0], (ast.In, ast.NotIn)) \
                    and self.is_cache(n.comparators[0]):
                self.accesses.append(("contains", n, n.left, S.node_of(n)))
        # ---- bound-value tracker loop
        self.trk_iter = None
        for n in walk_local(fn):
            if isinstance(n, ast.For) and any(_top_attr(a) == "bindparam_trackers" for a in S.ctx_alts(n.iter)):
                ctx.require(self.trk_iter is None, f"{f.key}: bindparam_trackers is iterated twice")
                self.trk_iter = n
        self.trk_call = None
        if self.trk_iter is not None and isinstance(self.trk_iter.target, ast.Name):
            cs = [c for st in self.trk_iter.body for c in ast.walk(st)
                  if isinstance(c, ast.Call) and isinstance(c.func, ast.Name) and c.func.id == self.trk_iter.target.id]
            if len(cs) == 1:
                self.trk_call = cs[0]

    def is_cache(self, e: ast.expr) -> bool:
        return any(_top_attr(a) == "lambda_cache" for a in self.S.ctx_alts(e))

    def is_cur_list(self, e: ast.AST) -> bool:
        for n in ast.walk(e):
            if any(orig(n) is fr for fr in self.fresh_nodes):
                return True
            r = getattr_norm(n)
            if r is not None and r[1] == "_resolved_bindparams" and isinstance(r[0], ast.Name) and r[0].id == "self":
                return True
        return False

    def has_key_anchor(self, e: ast.AST) -> bool:
        return any(contains_orig(e, a) for a in self.key_anchor)

    def key_roles(self) -> List[str]:
        """role of each positional argument of the closure getter call: closure | opts | list | other"""
        out = []
        for a in self.key_call.args:
            alts = self.S.ctx_alts(a)
            if alts and all(_top_attr(x) == "__closure__" for x in alts):
                out.append("closure")
            elif alts and all(self._is_opts(x) for x in alts):
                out.append("opts")
            elif alts and all(self.is_cur_list(x) for x in alts):
                out.append("list")
            else:
                out.append("other")
        return out

    def _is_opts(self, e: ast.AST) -> bool:
        """the options object: the parameter (or self attribute) `.lambda_cache` is read from"""
        fn = self.f.node
        for n in walk_local(fn):
            if isinstance(n, ast.Attribute) and n.attr == "lambda_cache":
                for b in self.S.ctx_alts(n.value):
                    if ast.dump(b) == ast.dump(e):
                        return True
        return False

    def trk_roles(self) -> List[str]:
        out = []
        if self.trk_call is None:
            return out
        for a in self.trk_call.args:
            alts = self.S.ctx_alts(a)
            if alts and all(_top_attr(x) == "tracker_instrumented_fn" for x in alts):
                out.append("cached")
            elif alts and all(_top_attr(x) == "fn" for x in alts):
                out.append("current")
            elif alts and all(self.is_cur_list(x) for x in alts):
                out.append("result")
            else:
                out.append("other")
        return out


def _rt(ctx) -> _RT:
    if "_c17_rt" not in ctx.__dict__:
        ctx.__dict__["_c17_rt"] = _RT(ctx)
    return ctx.__dict__["_c17_rt"]


# ---------------------------------------------------------------------- C17-R1
def _getter_free_value_reads(ctx, code: _Code, factory, getter) -> List[str]:
    """reasons why `getter` reads a value captured at analysis time"""
    bad = []
    SF = _S(ctx, factory)
    tainted = code.tainted[factory.name]
    mine = local_names(getter)
    for n in free_reads(getter):
        if n.id in ("self", "cls") or n.id not in local_names(factory.node):
            continue            # module level name / builtin
        alts = SF.free(ast.Name(id=n.id, ctx=ast.Load()), getter)
        if any(_is_value_source(a, tainted) for a in alts):
            bad.append(f"reads `{n.id}`, a value captured when the code object was first analysed "
                       f"(`{unparse(alts[0])[:60]}`)")
    SG = _S(ctx, getter)
    for n in ast.walk(getter):
        r = getattr_norm(n)
        if r is None or _strip_sa(r[1]) not in (VALUE_ATTRS | FUNC_STATE) - {"track_on"} and r[1] != "track_on":
            continue
        at = SG.node_of(n)
        for a in (SG.ctx_alts(r[0]) if at is not None else [r[0]]):
            rn = root_name(a)
            if rn is not None and rn not in mine and not rn.startswith("__"):
                bad.append(f"reads `{unparse(n)[:70]}` off the captured `{rn}` instead of off one of its own arguments")
    for c in calls_in(getter, into_nested=True):
        if isinstance(c.func, ast.Name) and c.func.id not in mine and c.func.id in local_names(factory.node) \
                and c.func.id in code.tainted.get(factory.name, set()) | {p for p in factory.params if p == "fn"}:
            bad.append(f"calls the captured `{c.func.id}`")
    return sorted(set(bad))


@R.rule("C17-R1", floor=8, template="T-FLOW",
        desc="every per-invocation getter registered by AnalyzedCode computes its result from its own arguments (the "
             "current closure / options / function), never from a value captured at analysis time; bound-value getters "
             "read the current value at the position the wrapper sits at")
def r1(ctx):
    code = _code(ctx)
    rt = _rt(ctx)
    kroles = rt.key_roles()
    ctx.require("closure" in kroles, f"{rt.f.key}: the closure getters are not called with <fn>.__closure__")
    troles = rt.trk_roles()
    ctx.require(rt.trk_call is not None and "current" in troles and "cached" in troles,
                f"{rt.f.key}: call of the bound-value trackers not understood (roles {troles})")
    # ---- cache-key getters
    for fname, fac in sorted(code.factories("closure_trackers").items()):
        getters = _returned_getters(fac.node)
        ctx.require(getters, f"{fac.key}: defines nested functions but returns none of them")
        for k, gt in enumerate(getters, 1):
            key = f"{fac.key}:getter[{k}]"
            bad = _getter_free_value_reads(ctx, code, fac, gt)
            params = [a.arg for a in gt.args.posonlyargs + gt.args.args]
            value_params = {p for p, r in zip(params, kroles) if r in ("closure", "opts")}
            SG = _S(ctx, gt)
            rets = [n for n in walk_local(gt) if isinstance(n, ast.Return)]
            if not [r for r in rets if r.value is not None]:
                bad.append("returns nothing: this closure variable contributes nothing to the cache key")
            for r_ in rets:
                if r_.value is None:
                    continue
                ralts = SG.alts(r_.value, SG.node_of(r_.value))
                settled = [a for a in ralts if not _has_cyc(a)] or ralts      # a loop carried value derives from the others
                for a in settled:
                    if not has_name(a, *value_params):
                        bad.append(f"returns `{unparse(r_.value)[:60]}`, which is not computed from the closure / options it is called with")
            ctx.check(not bad, key,
                      "cache-key getter " + "; ".join(bad) + " -- a later lambda with the same code object but another closure value "
                      "(def go(col): return lambda_stmt(lambda: select(col)); go(t.c.a); go(t.c.b)) gets the first value's key and SQL",
                      f"result computed from own argument(s) {sorted(value_params)}", loc(fac, gt))
    # ---- bound-value getters
    for fname, fac in sorted(code.factories("bindparam_trackers").items()):
        getters = _returned_getters(fac.node)
        ctx.require(getters, f"{fac.key}: defines nested functions but returns none of them")
        for k, gt in enumerate(getters, 1):
            key = f"{fac.key}:getter[{k}]"
            bad = _getter_free_value_reads(ctx, code, fac, gt)
            params = [a.arg for a in gt.args.posonlyargs + gt.args.args]
            role = {r: p for p, r in zip(params, troles)}
            SG = _S(ctx, gt)
            ext = []
            for c in calls_in(gt):
                r = getattr_norm(c.func)
                if r is not None and _strip_sa(r[1]) == "_extract_bound_parameters":
                    ext.append((c, r[0]))
            if not ext:
                bad.append("never calls <wrapper>._extract_bound_parameters(): no value is extracted")
            for c, recv in ext:
                if len(c.args) < 2:
                    bad.append("extraction call without (value, result list)")
                    continue
                for ra in SG.ctx_alts(recv):
                    rroot, rpath = base_chain(ra)
                    for va in SG.ctx_alts(c.args[0]):
                        vroot, vpath = base_chain(va)
                        rn = rroot.id if isinstance(rroot, ast.Name) else None
                        vn = vroot.id if isinstance(vroot, ast.Name) else None
                        if rn != role.get("cached"):
                            bad.append(f"takes the wrapper from `{rn}`, not from the instrumented function of the cached record")
                        if vn != role.get("current"):
                            bad.append(f"takes the value from `{unparse(va)[:60]}` instead of from the function of the current invocation "
                                       f"(parameter `{role.get('current')}`)")
                        elif rpath != vpath:
                            bad.append(f"wrapper read at `{''.join(rpath)}` but value read at `{''.join(vpath)}`: another variable's value")
                for la in SG.ctx_alts(c.args[1]):
                    if not (isinstance(la, ast.Name) and la.id == role.get("result")):
                        bad.append(f"extracts into `{unparse(la)[:40]}`, not into the per-invocation list it is given")
            ctx.check(not bad, key,
                      "bound-value getter " + "; ".join(sorted(set(bad))) + " -- def go(x): return lambda_stmt(lambda: select(t).where(t.c.q == x)); "
                      "go(5); go(7) executes with the wrong value",
                      "wrapper from the cached fn, value from the current fn, same position", loc(fac, gt))


_GLOB = "AnalyzedCode._bound_parameter_getter_func_globals"
R.mutant("r1-closure-key-from-captured-value", LAM,
         sub("                obj = closure[idx].cell_contents\n", "                obj = cell_contents\n"), "C17-R1")
R.mutant("r1-track-on-returns-captured-elem", LAM,
         sub("            def get(closure, opts, anon_map, bindparams):\n                return opts.track_on[idx]\n",
             "            def get(closure, opts, anon_map, bindparams):\n                return elem\n"), "C17-R1")
R.mutant("r1-function-code-from-captured", LAM,
         sub("                return closure[idx].cell_contents.__code__", "                return cell_contents.__code__"), "C17-R1")
R.mutant("r1-sequence-from-first-fn", LAM,
         sub("                contents = closure[idx].cell_contents\n", "                contents = fn.__closure__[idx].cell_contents\n"), "C17-R1")
R.mutant("r1-key-getter-constant", LAM,
         sub("                return closure[idx].cell_contents.__code__", "                return types.FunctionType"), "C17-R1")
R.mutant("r1-bound-value-from-cached-fn", LAM,
         sub("                current_fn.__globals__[name], result\n", "                tracker_instrumented_fn.__globals__[name]._sa__to_evaluate, result\n"), "C17-R1")
R.mutant("r1-bound-getter-params-swapped", LAM,
         sub("        def extract_parameter_value(\n            current_fn, tracker_instrumented_fn, result\n        ):\n            wrapper = tracker_instrumented_fn.__closure__[",
             "        def extract_parameter_value(\n            tracker_instrumented_fn, current_fn, result\n        ):\n            wrapper = tracker_instrumented_fn.__closure__["), "C17-R1")
R.mutant("r1-bound-value-other-cell", LAM,
         sub("                current_fn.__closure__[closure_index].cell_contents, result\n",
             "                current_fn.__closure__[closure_index - 1].cell_contents, result\n"), "C17-R1")
R.mutant("benign-r1-getter-locals", LAM,
         chain(sub("                obj = closure[idx].cell_contents\n                if use_inspect:\n                    obj = inspection.inspect(obj)",
                   "                cell = closure[idx]\n                obj = cell.cell_contents\n                if use_inspect:\n                    obj = inspection.inspect(obj)"),
               sub("                contents = closure[idx].cell_contents\n\n                try:\n                    return tuple(\n                        elem._gen_cache_key(anon_map, bindparams)\n                        for elem in contents\n                    )",
                   "                try:\n                    return tuple(\n                        member._gen_cache_key(anon_map, bindparams)\n                        for member in closure[idx].cell_contents\n                    )")), None)
R.mutant("benign-r1-bound-getter-spelling", LAM,
         chain(sub("            wrapper = tracker_instrumented_fn.__globals__[name]\n            object.__getattribute__(wrapper, \"_extract_bound_parameters\")(\n                current_fn.__globals__[name], result\n            )",
                   "            cached_globals = tracker_instrumented_fn.__globals__\n            now = current_fn.__globals__[name]\n            cached_globals[name]._sa__extract_bound_parameters(now, result)"),
               sub("        def extract_parameter_value(\n            current_fn, tracker_instrumented_fn, result\n        ):\n            wrapper = tracker_instrumented_fn.__closure__[",
                   "        def extract_parameter_value(live_fn, tracker_instrumented_fn, result):\n            current_fn = live_fn\n            wrapper = tracker_instrumented_fn.__closure__[")), None)


# ---------------------------------------------------------------------- C17-R2 / R3: _retrieve_tracker_rec
def _is_nocache(x: ast.AST) -> bool:
    return (dotted(x) or "").endswith("NO_CACHE")


def _nocache_atom(t: ast.AST) -> Optional[Tuple[str, ast.expr]]:
    """('is' | 'in', other operand) when `t` compares something with the NO_CACHE sentinel"""
    if isinstance(t, ast.Compare) and len(t.ops) == 1 and isinstance(t.ops[0], (ast.Is, ast.In, ast.Eq)):
        a, b = t.left, t.comparators[0]
        if _is_nocache(a) and not _is_nocache(b):
            return ("in" if isinstance(t.ops[0], ast.In) else "is", b)
        if _is_nocache(b) and not _is_nocache(a):
            return ("is", a) if not isinstance(t.ops[0], ast.In) else None
    return None


def _anon_nodes(rt: _RT) -> List[ast.AST]:
    out = []
    for a in rt.key_call.args:
        for x in rt.S.ctx_alts(a):
            if isinstance(x, ast.Call) and (dotted(x.func) or "").split(".")[-1] == "anon_map":
                out.append(orig(x))
    return out


def _own_cacheable_guard(rt: _RT, at: int) -> bool:
    """a dominating branch outcome says: the key of THIS element is not NO_CACHE"""
    S = rt.S
    anon = _anon_nodes(rt)
    for t, pol in S.guards(at):
        if pol:
            continue
        r = _nocache_atom(t)
        if r is None:
            continue
        kind, other = r
        tn = S.node_of(other)
        alts = S.alts(other, tn) if tn is not None else [other]
        if kind == "is" and any(rt.has_key_anchor(a) for a in alts):
            return True
        if kind == "in" and any(any(orig(n) is an for n in ast.walk(a)) for a in alts for an in anon):
            return True
    return False


def _nocache_edges(rt: _RT) -> Set[Tuple[int, str]]:
    """(test node, label) outcomes that assert `... is NO_CACHE` / `NO_CACHE in ...`"""
    out = set()
    for n in rt.g.nodes:
        if n.kind != "test":
            continue
        for lab in ("true", "false"):
            for t, pol in conj(n.stmt.test, lab == "true"):
                if pol and _nocache_atom(t) is not None:
                    out.add((n.id, lab))
    return out


def _key_parts(rt: _RT, k: ast.AST) -> Tuple[bool, bool, bool]:
    tk = any(a == "tracker_key" for _, a in attr_reads(k))
    parent = False
    for n in ast.walk(k):
        r = getattr_norm(n)
        if r is not None and r[1] == "closure_cache_key" and has_attr(r[0], "parent_lambda"):
            parent = True
    return tk, rt.has_key_anchor(k), parent


@R.rule("C17-R2", floor=5, template="T-FLOW/T-GUARD",
        desc="_retrieve_tracker_rec: the record cache key = tracker key + parent closure key + every closure getter applied "
             "to the current closure; lookup and store use the same key; NO_CACHE bypasses the cache; the key is published")
def r2(ctx):
    rt = _rt(ctx)
    f, S, g = rt.f, rt.S, rt.g
    # ---- K1: how the closure key is computed
    bad = []
    node, gen = rt.key_iter
    if gen is not None:
        if gen.ifs or len(node.generators) != 1:
            bad.append("the iteration over the closure getters is filtered: some closure variables do not reach the key")
        if node.elt is not rt.key_call:
            bad.append("the getter's result is not the collected element")
        if isinstance(node, ast.SetComp):
            bad.append("results are collected into a set (order / duplicates lost)")
    else:
        fors = [n.id for n in g.nodes if n.kind == "for" and n.stmt is node]
        app = g.nodes_for(S._root_of.get(id(rt.key_loop_append), rt.key_loop_append)) if rt.key_loop_append is not None else []
        app = [a for a in app] or [S.node_of(rt.key_loop_append)]
        body = [b for b, lab in g.succ[fors[0]] if lab == "true"] if fors else []
        w = g.must_pass(body, fors + [g.exit], app, edge_ok=no_exc) if body else ["?"]
        if w is not None:
            bad.append("an iteration over the closure getters can end without recording the getter's result")
    roles = rt.key_roles()
    if "closure" not in roles:
        bad.append("the getters are not called with the __closure__ of the current function")
    else:
        for a in S.ctx_alts(rt.key_call.args[roles.index("closure")]):
            r = getattr_norm(a)
            base = r[0] if r else None
            ok = base is not None and (
                (isinstance(base, ast.Name) and base.id in f.params and base.id != "self")
                or (isinstance(base, ast.Attribute) and base.attr == "fn" and isinstance(base.value, ast.Name) and base.value.id == "self"))
            if not ok:
                bad.append(f"the closure handed to the getters is `{unparse(a)[:60]}`, not the current lambda's")
    if "list" not in roles:
        bad.append("the getters do not collect embedded bound parameters into the per-invocation list")
    if not _anon_nodes(rt):
        bad.append("the getters are not given a fresh anon_map (a stale NO_CACHE mark / stale anonymous numbering)")
    ctx.check(not bad, f"{f.key}:closure-key[every-getter,current-closure]",
              "; ".join(bad) + " -- go(t.c.a) then go(t.c.b) with `lambda: select(col)` must not share a cached record",
              "tuple of getter(current closure, opts, fresh anon_map, per-invocation list) for every closure getter", loc(f, rt.key_call))
    # ---- K2 / K3: lookup and store keys
    look = [a for a in rt.accesses if a[0] in ("get", "load", "contains")]
    store = [a for a in rt.accesses if a[0] == "store"]
    ctx.require(look and store, f"{f.key}: record cache lookup / store not found (lookups {len(look)}, stores {len(store)})")

    def judge(accs):
        bad, sig = [], set()
        for kind, n, kx, at in accs:
            alts = S.ctx_alts(kx)
            parts = [_key_parts(rt, a) for a in alts]
            if not all(p[0] for p in parts):
                bad.append(f"`{unparse(n)[:60]}`: key lacks the tracker key (code objects of the lambda chain)")
            if not all(p[1] for p in parts):
                bad.append(f"`{unparse(n)[:60]}`: key lacks the closure key computed from the current closure")
            if not any(p[2] for p in parts):
                bad.append(f"`{unparse(n)[:60]}`: key lacks the parent lambda's closure key")
            sig.add((all(p[0] for p in parts), all(p[1] for p in parts), any(p[2] for p in parts)))
        return bad, sig
    lb, lsig = judge(look)
    ctx.check(not lb, f"{f.key}:record-cache:lookup-key", "; ".join(lb) + " -- a structure-changing closure value (another column, "
              "another parent statement) finds the record built for the first value: stale SQL",
              f"{len(look)} lookup(s) keyed by tracker key + parent closure key + closure key", loc(f, look[0][1]))
    sb, ssig = judge(store)
    if not sb and lsig != ssig:
        sb.append("the record is stored under a key composed differently from the key it is looked up with")
    for kind, n, kx, at in store:
        st = S._root_of.get(id(n))
        val = st.value if isinstance(st, ast.Assign) else None
        if val is not None:
            for a in S.alts(val, at):
                if not (isinstance(a, ast.Call) and (dotted(a.func) or "").split(".")[-1] == "AnalyzedFunction"):
                    sb.append(f"what is stored is `{unparse(a)[:50]}`, not a newly analysed function")
    ctx.check(not sb, f"{f.key}:record-cache:store-key", "; ".join(sb), f"{len(store)} store(s) under the lookup key", loc(f, store[0][1]))
    # ---- K4: NO_CACHE bypass
    bad = []
    for kind, n, kx, at in rt.accesses:
        if not _own_cacheable_guard(rt, at):
            bad.append(f"`{unparse(n)[:60]}` is not conditional on this element's closure key being cacheable (NO_CACHE not in the anon_map / key is not NO_CACHE)")
    naf = [c for c in calls_in(f.node) if (dotted(c.func) or "").split(".")[-1] == "NonAnalyzedFunction"]
    if not naf:
        bad.append("no uncached record (NonAnalyzedFunction) is built for an uncacheable closure")
    for c in naf:
        for a in (S.ctx_alts(c.args[0]) if c.args else []):
            if not (isinstance(a, ast.Call) and _self_call(a) == "_invoke_user_fn"):
                bad.append(f"the uncached record wraps `{unparse(a)[:60]}` instead of a fresh invocation of the lambda")
    ctx.check(not bad, f"{f.key}:record-cache:no-cache-bypass", "; ".join(bad) + " -- an uncacheable closure element contributes None to the key: "
              "every value of it would share one record", f"{len(rt.accesses)} cache access(es) guarded; uncached record invokes the lambda", loc(f))
    # ---- K5: published key
    pubs = [(n, st) for t, n, st in attr_stores(f.node) if t == "self.closure_cache_key"]
    bad = []
    if not pubs:
        bad.append("self.closure_cache_key is never assigned")
    else:
        pn = [i for n, st in pubs for i in g.nodes_for(st)]
        w = g.must_pass([g.entry], [g.exit], pn, edge_ok=no_exc)
        if w is not None:
            bad.append("a normal path returns without assigning self.closure_cache_key")
        # the last store on each path decides: stores from which no other store is reachable
        finals = [i for i in pn if not (g.reachable(normal_succ(g, i), edge_ok=no_exc) & set(pn))]
        for i in finals:
            st = g.nodes[i].stmt
            for a in S.alts(st.value, i):
                if not (_is_nocache(a) or rt.has_key_anchor(a)):
                    bad.append(f"publishes `{unparse(a)[:60]}`, which does not contain the closure key computed from the current closure")
    ctx.check(not bad, f"{f.key}:closure_cache_key:published", "; ".join(bad) + " -- _gen_cache_key builds the compiled-cache key from this attribute",
              "every path publishes NO_CACHE or a key containing the current closure key", loc(f, pubs[0][0]) if pubs else loc(f))


def _rekey_sites(rt: _RT):
    """[(call, cfg node, problems)] for `<recbind>._with_value(<newbind>.value ...)` rebuilding the per-invocation list"""
    S = rt.S
    out = []
    for c in calls_in(rt.f.node):
        if not (isinstance(c.func, ast.Attribute) and c.func.attr == "_with_value" and c.args):
            continue
        recv = S.ctx_alts(c.func.value)
        val = S.ctx_alts(c.args[0])
        from_rec = [any(is_pseudo(n, ELEM) and _top_attr(n.args[0]) == "closure_bindparams" for n in ast.walk(a)) for a in recv]
        from_cur_v = [any(is_pseudo(n, ELEM) and rt.is_cur_list(n.args[0]) for n in ast.walk(a)) for a in val]
        if not (any(from_rec) or any(from_cur_v)
                or any(has_attr(a, "closure_bindparams") for a in recv + val)):
            continue
        probs = []
        if not all(from_rec):
            probs.append(f"the parameter that keeps its key is `{unparse(recv[0])[:50]}`, not an element of the cached record's closure_bindparams")
        if not all(from_cur_v) or any(any(is_pseudo(n, ELEM) and _top_attr(n.args[0]) == "closure_bindparams" for n in ast.walk(a)) for a in val):
            probs.append(f"the value given to it is `{unparse(val[0])[:50]}`, not the value of the parameter extracted from the current closure")
        out.append((c, S.node_of(c), probs))
    return out


@R.rule("C17-R3", floor=8, template="T-PATH/T-FRESH",
        desc="_retrieve_tracker_rec: fresh per-invocation parameter list; the record keeps a copy; a record from the cache gets "
             "the current values on every path; parent parameters prepended; every bound-value tracker runs on every cacheable "
             "invocation with current fn / cached instrumented fn / per-invocation list")
def r3(ctx):
    rt = _rt(ctx)
    f, S, g = rt.f, rt.S, rt.g
    # ---- B1
    ctx.check(not rt.fresh_bad, f"{f.key}:resolved-binds:fresh-list",
              f"self._resolved_bindparams is bound to `{'; '.join(rt.fresh_bad)}`, not to a new list: values extracted for this invocation "
              "land in a list another invocation / the cached record also holds",
              "bound to a new empty list on every call", loc(f, rt.list_stores[0][0]))
    # ---- B2
    cbs = [(n, st) for t, n, st in attr_stores(f.node) if t.endswith(".closure_bindparams")]
    ctx.require(cbs, f"{f.key}: no store to <record>.closure_bindparams")
    bad = []
    for n, st in cbs:
        for a in S.alts(st.value, g.nodes_for(st)[0]):
            alias = any(orig(a) is fr for fr in rt.fresh_nodes) or (getattr_norm(a) or (None, ""))[1] == "_resolved_bindparams"
            if alias:
                bad.append("the cached record keeps the per-invocation list itself (parent / tracker parameters appended later end up in the "
                           "record and shift the positional pairing on the next hit)")
            elif not rt.is_cur_list(a):
                bad.append(f"the cached record keeps `{unparse(a)[:50]}`, not the parameters collected by the closure getters")
    ctx.check(not bad, f"{f.key}:record.closure_bindparams:stored-copy", "; ".join(bad), "a copy of the per-invocation list", loc(f, cbs[0][0]))
    # ---- B3 / B4
    rek = _rekey_sites(rt)
    reknodes = [at for c, at, p in rek if at is not None]
    reads = [a for a in rt.accesses if a[0] in ("get", "load")]
    ctx.require(reads, f"{f.key}: no read of a record from the cache")
    targets = [i for t, n, st in attr_stores(f.node) if t == "self._rec" for i in g.nodes_for(st)] or [g.exit]
    ordinal: Dict[str, int] = {}
    for kind, n, kx, at in reads:
        cut = set()
        for tn in g.nodes:
            if tn.kind != "test":
                continue
            for lab in ("true", "false"):
                for t, pol in conj(tn.stmt.test, lab == "true"):
                    if pol and isinstance(t, ast.Compare) and len(t.ops) == 1 and isinstance(t.ops[0], ast.Is) \
                            and isinstance(t.comparators[0], ast.Constant) and t.comparators[0].value is None:
                        if any(contains_orig(a, n) for a in S.alts(t.left, tn.id)):
                            cut.add((tn.id, lab))
        ok_edge = lambda a, b, lab, cut=cut: lab != "exc" and (a, lab) not in cut
        starts = [b for b in normal_succ(g, at) if b not in reknodes]
        direct = [b for b in starts if b in targets]
        w = [at, direct[0]] if direct else (g.witness(starts, targets, avoid=reknodes, edge_ok=ok_edge) if starts else None)
        ordinal[kind] = ordinal.get(kind, 0) + 1
        key = f"{f.key}:cached-record[{kind}{'' if ordinal[kind] == 1 else ordinal[kind]}]:current-values-rekeyed"
        ctx.check(w is None and bool(reknodes), key,
                  f"a record obtained with `{unparse(n)[:50]}` is used without giving the parameters collected from the CURRENT closure "
                  "the keys of the record's parameters: _setup_binds_for_tracked_expr finds no match and the cached expression keeps the "
                  "values of the invocation that built the record (closure variable holding a SQL expression with a bound value, "
                  "e.g. crit = t.c.q == v; lambda: select(t).where(crit))",
                  "every path to self._rec passes the re-keying", loc(f, n), g.describe_path(w) if w else None)
    bad = [p for c, at, ps in rek for p in ps]
    if not rek:
        bad.append("no `<record parameter>._with_value(<current parameter>.value)` re-keying found")
    for c, at, ps in rek:
        st = g.nodes[at].stmt if at is not None else None
        ok = False
        if isinstance(st, ast.Assign):
            for tg in st.targets:
                if isinstance(tg, ast.Subscript) and any(rt.is_cur_list(a) for a in S.alts(tg.value, at)):
                    ok = True
                if isinstance(tg, ast.Attribute) and tg.attr == "_resolved_bindparams":
                    ok = True
        elif isinstance(st, ast.Expr) and isinstance(st.value, ast.Call) and isinstance(st.value.func, ast.Attribute) \
                and st.value.func.attr in ("extend", "__setitem__") and any(rt.is_cur_list(a) for a in S.alts(st.value.func.value, at)):
            ok = True
        ctx.require(ok or st is None or isinstance(st, (ast.Assign, ast.Expr)), f"{f.key}: re-keying statement not understood")
        if not ok:
            bad.append("the re-keyed parameters are not put back into the per-invocation list")
    ctx.check(not bad, f"{f.key}:rekey:key-from-record,value-from-current", "; ".join(bad) + " -- swapping the roles returns the first invocation's values",
              "record's parameter ._with_value(current parameter's value), stored into the per-invocation list", loc(f, rek[0][0]) if rek else loc(f))
    # ---- B5 / B6: bound-value trackers
    ctx.require(rt.trk_iter is not None and rt.trk_call is not None, f"{f.key}: loop over <record>.bindparam_trackers not found")
    pm = f.module.parents()
    head = rt.trk_iter
    x = rt.trk_iter
    while x is not None and x is not f.node:
        if isinstance(x, (ast.For, ast.While)):
            head = x
        x = pm.get(x)
    heads = [i for i in g.nodes_for(head) if g.nodes[i].kind in ("test", "for") and not g.nodes[i].copy]
    ctx.require(heads, f"{f.key}: loop head of the tracker loop has no CFG node")
    nce = _nocache_edges(rt)
    w = g.witness([g.entry], [g.exit], avoid=heads, edge_ok=lambda a, b, lab: lab != "exc" and (a, lab) not in nce)
    ctx.check(w is None, f"{f.key}:bind-trackers:run-on-every-cacheable-invocation",
              "a cacheable invocation (cache hit or miss) can return without running the bound-value trackers: the per-invocation list lacks the "
              "literal closure values and the cached expression keeps the first invocation's values (go(5); go(7) with lambda: t.c.q == x)",
              "every cacheable path reaches the loop over the element chain's trackers", loc(f, head), g.describe_path(w) if w else None)
    roles = rt.trk_roles()
    bad = []
    if sorted(roles) != ["cached", "current", "result"]:
        bad.append(f"tracker arguments are {roles}: expected the element's current fn, its record's instrumented fn and the per-invocation list")
    else:
        # the element whose .fn is passed and the element whose record's instrumented fn is passed: same set of
        # elements (locals are resolved one by one, so the pairing is judged on the sets)
        cur_elems, cac_elems = set(), set()
        for a in S.ctx_alts(rt.trk_call.args[roles.index("current")]):
            cur_elems.add(ast.dump(getattr_norm(a)[0]))
        for a in S.ctx_alts(rt.trk_call.args[roles.index("cached")]):
            r2_ = getattr_norm(a)
            e2 = getattr_norm(r2_[0]) if r2_ else None
            if e2 is None or e2[1] != "_rec":
                bad.append(f"instrumented fn `{unparse(a)[:60]}` is not read off an element's record (`<element>._rec`)")
            else:
                cac_elems.add(ast.dump(e2[0]))
        if not bad and cur_elems != cac_elems:
            bad.append("the current fn and the instrumented fn handed to a tracker do not belong to the same element of the lambda chain")
        if ast.dump(ast.Name(id="self", ctx=ast.Load())) not in cur_elems:
            bad.append("the chain of elements whose trackers run does not start at this element")
        tn = S.node_of(rt.trk_call)
        fors = [n.id for n in g.nodes if n.kind == "for" and n.stmt is rt.trk_iter]
        body = [b for b, lab in g.succ[fors[0]] if lab == "true"]
        w2 = g.must_pass([b for b in body if b != tn], fors + [g.exit], [tn], edge_ok=no_exc)
        if w2 is not None:
            bad.append("an iteration over the trackers can finish without calling the tracker")
    ctx.check(not sorted(set(bad)), f"{f.key}:bind-trackers:arguments", "; ".join(sorted(set(bad))),
              "tracker(E.fn, E._rec.tracker_instrumented_fn, per-invocation list) for E = self, parents", loc(f, rt.trk_call))
    # ---- B7: parent parameters
    reads_parent = [n for n in walk_local(f.node) if isinstance(n, ast.Attribute) and n.attr == "_resolved_bindparams"
                    and has_attr(n.value, "parent_lambda")]
    bad = []
    sites = []
    for n in g.nodes:
        st = n.stmt
        if n.kind != "stmt" or n.copy or not isinstance(st, ast.Assign):
            continue
        for tg in st.targets:
            if isinstance(tg, ast.Subscript) and any(rt.is_cur_list(a) for a in S.alts(tg.value, n.id)) \
                    and any(_top_attr(a) == "_resolved_bindparams" and has_attr(a, "parent_lambda") for a in S.alts(st.value, n.id)):
                sites.append(n.id)
    if not reads_parent:
        bad.append("the parent lambda's per-invocation parameters are never read")
    else:
        ctx.require(sites, f"{f.key}: how the parent's parameters enter the per-invocation list is not understood")
        for i in sites:
            for t, pol in S.guards(i):
                if not pol and _nocache_atom(t) is not None:
                    continue
                if not pol and isinstance(t, ast.Compare) and isinstance(t.ops[0], ast.Is) and isinstance(t.comparators[0], ast.Constant) \
                        and t.comparators[0].value is None and has_attr(t.left, "parent_lambda"):
                    continue
                bad.append(f"prepending the parent's parameters is conditional on `{unparse(orig(t))[:50]}` ({pol})")
    ctx.check(not bad, f"{f.key}:parent-binds:prepended", "; ".join(bad) + " -- stmt = lambda_stmt(lambda: select(t).where(t.c.q == x)); "
              "stmt += lambda s: s.order_by(t.c.id): the linked element's expression contains the parent's parameter, which keeps its first value",
              "parent's per-invocation parameters spliced into the list on every cacheable invocation with a parent", loc(f, g.nodes[sites[0]].stmt) if sites else loc(f))


_HIT = ("            bindparams[:] = [\n                orig_bind._with_value(new_bind.value, maintain_key=True)\n                for orig_bind, new_bind in zip(\n"
        "                    rec.closure_bindparams, bindparams\n                )\n            ]\n")
R.mutant("r2-lookup-without-closure-key", LAM, sub("                rec = lambda_cache.get(tracker_key + cache_key)", "                rec = lambda_cache.get(tracker_key)"), "C17-R2")
R.mutant("r2-parent-key-dropped", LAM, sub("                cache_key = parent_closure_cache_key + cache_key\n", "                cache_key = cache_key + ()\n"), "C17-R2")
R.mutant("r2-store-under-other-key", LAM, sub("                    key = tracker_key + cache_key\n", "                    key = cache_key\n"), "C17-R2")
R.mutant("r2-getters-filtered", LAM,
         sub("                    for getter in tracker.closure_trackers\n", "                    for getter in tracker.closure_trackers[:1]\n"), "C17-R2")
R.mutant("r2-closure-of-cached-fn", LAM,
         sub("        closure = fn.__closure__\n        tracker = AnalyzedCode.get(", "        closure = getattr(self, '_rec', self).fn.__closure__\n        tracker = AnalyzedCode.get("), "C17-R2")
R.mutant("r2-no-cache-still-looked-up", LAM,
         sub("            if _cache_key.NO_CACHE not in anon_map:\n                cache_key = parent_closure_cache_key + cache_key\n",
             "            if True:\n                cache_key = parent_closure_cache_key + cache_key\n"), "C17-R2")
R.mutant("r2-published-key-is-parent-only", LAM,
         sub("        self.closure_cache_key = cache_key\n\n        if rec is None:", "        self.closure_cache_key = parent_closure_cache_key\n\n        if rec is None:"), "C17-R2")
R.mutant("r3-trackers-only-on-miss", LAM,
         chain(sub("        self._rec = rec\n\n        if cache_key is not _cache_key.NO_CACHE:\n", "        self._rec = rec\n\n        if cache_key is not _cache_key.NO_CACHE and not bindparams:\n")), "C17-R3")
R.mutant("r3-rekey-roles-swapped", LAM,
         sub("                orig_bind._with_value(new_bind.value, maintain_key=True)", "                new_bind._with_value(orig_bind.value, maintain_key=True)"), "C17-R3")
R.mutant("r3-hit-path-keeps-own-keys", LAM, sub(_HIT, "            pass\n"), "C17-R3")
R.mutant("r3-record-aliases-list", LAM, sub("                        rec.closure_bindparams = list(bindparams)", "                        rec.closure_bindparams = bindparams"), "C17-R3")
R.mutant("r3-list-not-fresh", LAM,
         sub("        self._resolved_bindparams = bindparams = []\n", "        self._resolved_bindparams = bindparams = getattr(self, '_resolved_bindparams', [])\n"), "C17-R3")
R.mutant("r3-tracker-reads-cached-fn", LAM,
         sub("                        tracker(\n                            lambda_element.fn,\n", "                        tracker(\n                            rec.fn,\n"), "C17-R3")
R.mutant("r3-parent-binds-dropped", LAM,
         sub("                bindparams[:0] = self.parent_lambda._resolved_bindparams\n", "                pass\n"), "C17-R3")
R.mutant("r3-chain-starts-at-parent", LAM,
         sub("            lambda_element: Optional[LambdaElement] = self\n", "            lambda_element: Optional[LambdaElement] = self.parent_lambda\n"), "C17-R3")
R.mutant("benign-r2r3-locals-renamed-and-reordered", LAM,
         chain(sub("        tracker_key = self.tracker_key\n\n        fn = self.fn\n        closure = fn.__closure__\n",
                   "        fn = self.fn\n        cells = fn.__closure__\n        closure = cells\n        tracker_key = self.tracker_key\n"),
               sub("                rec = lambda_cache.get(tracker_key + cache_key)", "                full_key = tracker_key + cache_key\n                rec = lambda_cache.get(full_key)"),
               sub("                        rec.closure_bindparams = list(bindparams)", "                        rec.closure_bindparams = bindparams[:]")), None)
R.mutant("benign-r3-hit-path-inverted-if", LAM,
         chain(sub("        if rec is None:\n            if cache_key is not _cache_key.NO_CACHE:\n                with AnalyzedCode._generation_mutex:",
                   "        if rec is not None:\n" + _HIT.replace("            ", "            ", 1) + "        else:\n            if cache_key is not _cache_key.NO_CACHE:\n                with AnalyzedCode._generation_mutex:"),
               sub("                rec = NonAnalyzedFunction(self._invoke_user_fn(fn))\n\n        else:\n" + _HIT, "                rec = NonAnalyzedFunction(self._invoke_user_fn(fn))\n")), None)
