"""C17 -- Lambda statements never reuse stale closure values (clauses of the tracking machinery, not the behaviour).

What a lambda's closure holds is only known at run time, and whether the SQL a lambda builds depends on a value in a
way the tracker cannot see (a Python conditional on a global, `col == None`) is a property of the user's lambda: none
of that is decided here.  What IS visible in the shape of sql/lambdas.py is the plumbing that makes "run the lambda
once, re-read the closure every time" work: the per-invocation getters read the *current* closure, the record cache is
keyed by everything that changes the SQL, a record taken from the cache is handed the current values, the cached
wrappers re-extract values from the object they are given, and the expression handed to the compiler has the current
parameters spliced in.  Each clause below is a necessary condition: the breaking input is named in its message.
"""

from __future__ import annotations

import ast
from typing import Dict, List, Optional, Set, Tuple

from ..astutil import attr_stores, calls_in, dotted, unparse, walk_local
from ..cfg import no_exc
from ..report import Registry, chain, sub
from ._helpers_na_d import (
    CYC, ELEM, INDEX, Sub, attr_reads, base_chain, bind_args, conj, contains_orig, free_reads, getattr_norm, has_attr,
    has_name, is_pseudo, loc, local_names, nested_defs, nodes_with, normal_succ, orig, param_defaults, root_name,
)

R = Registry(
    "C17",
    title="Lambda statements never reuse stale closure values",
    decides=(
        "clauses of C17, not the behaviour: (R1) every per-invocation getter that AnalyzedCode registers (cache-key "
        "getters for closure variables / track_on, bound-value getters for closure cells / globals) computes its "
        "result from the closure / options / function it is CALLED with, never from a value captured when the code "
        "object was first analysed, and the bound-value getters read the value at the same cell / global name the "
        "wrapper sits at; (R2) LambdaElement._retrieve_tracker_rec keys the record cache by tracker key + parent "
        "closure key + the result of calling EVERY closure getter on the current closure, looks up and stores under "
        "the same key, publishes that key for _gen_cache_key and bypasses the cache when the key is NO_CACHE; (R3) the "
        "per-invocation parameter list is a fresh list, the list kept on the cached record is a copy, a record that "
        "comes out of the cache gets the current values under the record's parameter keys on every path, the parent's "
        "parameters are prepended and every bound-value tracker of the element and its parents runs on every "
        "cacheable invocation with (that element's current fn, its record's instrumented fn, the per-invocation "
        "list); (R4) PyWrapper._extract_bound_parameters takes the value from its argument (never the value stored at "
        "analysis time), re-applies every recorded attribute / item path to that argument, and _add_getter records "
        "every literal sub-value with the getter it used; the has-parameter flag is set only where a parameter is "
        "created; (R5) the expression handed out (_resolved, _resolve_with_args) has the per-invocation parameters "
        "spliced in by key, and _gen_cache_key returns code + closure key (own and parents') and extracts the "
        "per-invocation parameters; (R6) every closure cell is classified (wrapped as a potential bound value, or "
        "cache-key tracked, or rejected) unless a documented option turns tracking off, wrappers that did not become "
        "parameters become cache-key trackers, and with the default LambdaOptions every tracking guard is on."
    ),
    not_decided=(
        "that a statement built by a lambda equals the directly built statement: values the tracker cannot see "
        "(module globals used in Python conditionals, `col == x` with x None on one invocation: rendered `= NULL`, "
        "see findings/C17_obs_*), user callables inside lambdas, the classification of a live value as literal / "
        "cacheable (coercions._deep_is_literal, HasCacheKey), ORM with_loader_criteria propagation, rows returned."
    ),
)

LAM = "sql/lambdas.py"
AC = f"{LAM}::AnalyzedCode"
LE = f"{LAM}::LambdaElement"
PW = f"{LAM}::PyWrapper"
AF = f"{LAM}::AnalyzedFunction"

# attribute names through which a first-invocation VALUE is reached
VALUE_ATTRS = {"cell_contents", "__closure__", "__globals__", "_to_evaluate", "_sa__to_evaluate", "track_on"}
FUNC_STATE = {"__closure__", "__globals__", "__defaults__", "__kwdefaults__"}


def _S(ctx, f) -> Sub:
    cache = ctx.__dict__.setdefault("_na_d_sub", {})
    node = f.node if hasattr(f, "node") else f
    if id(node) not in cache:
        cache[id(node)] = Sub(ctx, f)
        if hasattr(f, "key"):
            ctx.functions_analysed.add(f.key)
    return cache[id(node)]


def _self_call(c: ast.Call) -> Optional[str]:
    f = c.func
    if isinstance(f, ast.Attribute) and isinstance(f.value, ast.Name) and f.value.id in ("self", "cls"):
        return f.attr
    return None


def _top_attr(e: ast.AST) -> Optional[str]:
    """attribute the expression itself reads (`x.y.closure_trackers` -> closure_trackers), through list()/tuple()"""
    while True:
        if isinstance(e, ast.Call) and isinstance(e.func, ast.Name) and e.func.id in ("list", "tuple", "iter", "reversed") and len(e.args) == 1:
            e = e.args[0]
        elif isinstance(e, ast.Subscript) and isinstance(e.slice, ast.Slice):
            e = e.value
        else:
            break
    r = getattr_norm(e)
    return r[1] if r is not None else None


def _has_cyc(e: ast.AST) -> bool:
    return any(isinstance(n, ast.Name) and n.id.startswith(CYC) for n in ast.walk(e))


def _bare_cyc(e: ast.AST) -> bool:
    """a loop carried accumulator (`key = f(x) + key`) occurs as an operand itself, not as the object something is read off"""
    based = {id(n.value) for n in ast.walk(e) if isinstance(n, ast.Attribute)}
    return any(isinstance(n, ast.Name) and n.id.startswith(CYC) and id(n) not in based for n in ast.walk(e))


def _strip_sa(a: str) -> str:
    return a[4:] if a.startswith("_sa_") else a


def _is_value_source(e: ast.AST, tainted: Set[str]) -> bool:
    if has_attr(e, *VALUE_ATTRS):
        return True
    return any(isinstance(n, ast.Name) and n.id in tainted for n in ast.walk(e))


# ---------------------------------------------------------------------- shared discovery: AnalyzedCode
class _Code:
    """tracker registrations, getter factories and value-carrying parameters of AnalyzedCode"""

    def __init__(self, ctx):
        self.ctx = ctx
        self.cls = cls = ctx.index.cls(AC)
        self.methods = dict(cls.methods)
        ctx.require(self.methods, "AnalyzedCode has no methods")
        self.tainted: Dict[str, Set[str]] = {m: set() for m in self.methods}
        self._taint()
        # registrations: (kind, method FuncInfo, call node of append/extend, [factory calls (substituted)])
        self.regs: List[Tuple[str, object, ast.Call, List[ast.Call]]] = []
        for name, m in sorted(self.methods.items()):
            S = _S(ctx, m)
            for c in calls_in(m.node):
                if not (isinstance(c.func, ast.Attribute) and c.func.attr in ("append", "extend", "insert") and c.args):
                    continue
                kinds = set()
                for r in S.ctx_alts(c.func.value):
                    for b, a in attr_reads(r):
                        if a in ("closure_trackers", "bindparam_trackers") and isinstance(b, ast.Name) and b.id == "self":
                            kinds.add(a)
                    if isinstance(r, ast.Attribute) and r.attr in ("closure_trackers", "bindparam_trackers"):
                        kinds.add(r.attr)
                if not kinds:
                    continue
                ctx.require(len(kinds) == 1, f"{m.key}: a list that is both closure_trackers and bindparam_trackers")
                facts = []
                for alt in S.ctx_alts(c):
                    for x in ast.walk(alt):
                        if isinstance(x, ast.Call) and _self_call(x) in self.methods:
                            facts.append(x)
                self.regs.append((kinds.pop(), m, c, facts))
        ctx.require(self.regs, "no registration into closure_trackers / bindparam_trackers found in AnalyzedCode")

    def _taint(self):
        ctx = self.ctx
        changed = True
        rounds = 0
        while changed and rounds < 8:
            changed = False
            rounds += 1
            for name, m in self.methods.items():
                S = _S(ctx, m)
                for c in calls_in(m.node, into_nested=False):
                    tgt = _self_call(c)
                    if tgt not in self.methods:
                        continue
                    for calt in S.ctx_alts(c):
                        b = bind_args(calt, self.methods[tgt].node)
                        if b is None:
                            continue
                        for p, arg in b.items():
                            if p not in self.tainted[tgt] and _is_value_source(arg, self.tainted[name]):
                                self.tainted[tgt].add(p)
                                changed = True

    def factories(self, kind: str) -> Dict[str, object]:
        """real getter factories (methods that define and return nested functions) reachable from registrations of
        `kind`, following delegating factories (`return self._other_factory(...)`)"""
        out: Dict[str, object] = {}
        todo = []
        for k, m, c, facts in self.regs:
            if k == kind:
                todo.extend(_self_call(x) for x in facts)
        seen = set()
        while todo:
            nm = todo.pop()
            if nm in seen or nm not in self.methods:
                continue
            seen.add(nm)
            f = self.methods[nm]
            if nested_defs(f.node):
                out[nm] = f
            for r in [n for n in walk_local(f.node) if isinstance(n, ast.Return) and n.value is not None]:
                for x in ast.walk(r.value):
                    if isinstance(x, ast.Call) and _self_call(x) in self.methods:
                        todo.append(_self_call(x))
        return out


def _code(ctx) -> _Code:
    if "_c17_code" not in ctx.__dict__:
        ctx.__dict__["_c17_code"] = _Code(ctx)
    return ctx.__dict__["_c17_code"]


def _returned_getters(fnode) -> List[ast.FunctionDef]:
    names = set()
    for n in walk_local(fnode):
        if isinstance(n, ast.Return) and isinstance(n.value, ast.Name):
            names.add(n.value.id)
    return [d for d in nested_defs(fnode) if d.name in names]


# ---------------------------------------------------------------------- call sites of the getters (roles of arguments)
class _RT:
    """facts about LambdaElement._retrieve_tracker_rec"""

    def __init__(self, ctx):
        self.ctx = ctx
        from ._helpers_rob_i import nf
        # private helpers of the class (an extracted `self._rekey(rec, binds)` / `self._run_trackers(binds)`) are read
        # where they are called; locals stay as written (Sub resolves them)
        self.f = f = nf(ctx, ctx.func(f"{LE}._retrieve_tracker_rec"), keep=("_invoke_user_fn", "get"), alias=None)
        self.S = S = _S(ctx, f)
        self.g = S.g
        fn = f.node
        # ---- the per-invocation parameter list
        self.list_stores = [(n, st) for t, n, st in attr_stores(fn) if t == "self._resolved_bindparams"]
        ctx.require(self.list_stores, f"{f.key}: self._resolved_bindparams is not assigned")
        self.fresh_nodes: List[ast.AST] = []
        self.fresh_bad: List[str] = []
        for n, st in self.list_stores:
            val = st.value if isinstance(st, (ast.Assign, ast.AnnAssign)) else None
            ctx.require(val is not None, f"{f.key}: store to _resolved_bindparams not understood")
            for a in S.alts(val, S.node_of(val) if S.node_of(val) is not None else self.g.nodes_for(st)[0]):
                if (isinstance(a, ast.List) and not a.elts) or (isinstance(a, ast.Call) and dotted(a.func) == "list" and not a.args):
                    self.fresh_nodes.append(orig(a))
                else:
                    self.fresh_bad.append(unparse(a)[:80])
                    self.fresh_nodes.append(orig(a))
        # ---- the iteration over the closure getters
        self.key_iter = None        # (comprehension node | For stmt, generator|None)
        for n in walk_local(fn):
            if isinstance(n, (ast.ListComp, ast.GeneratorExp, ast.SetComp)):
                for gen in n.generators:
                    if any(_top_attr(a) == "closure_trackers" for a in S.ctx_alts(gen.iter)):
                        ctx.require(self.key_iter is None, f"{f.key}: closure_trackers is iterated twice")
                        self.key_iter = (n, gen)
            elif isinstance(n, ast.For):
                if any(_top_attr(a) == "closure_trackers" for a in S.ctx_alts(n.iter)):
                    ctx.require(self.key_iter is None, f"{f.key}: closure_trackers is iterated twice")
                    self.key_iter = (n, None)
        ctx.require(self.key_iter is not None, f"{f.key}: no iteration over <tracker>.closure_trackers found")
        node, gen = self.key_iter
        tgt = gen.target if gen is not None else node.target
        ctx.require(isinstance(tgt, ast.Name), f"{f.key}: closure getter loop variable is not a plain name")
        body = node if gen is not None else ast.Module(body=node.body, type_ignores=[])
        calls = [c for c in ast.walk(body) if isinstance(c, ast.Call) and isinstance(c.func, ast.Name) and c.func.id == tgt.id]
        ctx.require(len(calls) == 1, f"{f.key}: expected one call of the closure getter inside its iteration, found {len(calls)}")
        self.key_call = calls[0]
        # anchor of the closure key inside a value: the comprehension, or the list the loop appends to
        self.key_anchor: List[ast.AST] = []
        self.key_loop_append: Optional[ast.Call] = None
        if gen is not None:
            self.key_anchor = [node]
        else:
            for c in ast.walk(body):
                if isinstance(c, ast.Call) and isinstance(c.func, ast.Attribute) and c.func.attr == "append" and c.args \
                        and any(x is self.key_call for x in ast.walk(c.args[0])):
                    self.key_loop_append = c
                    for a in S.ctx_alts(c.func.value):
                        self.key_anchor.append(orig(a))
            ctx.require(self.key_anchor, f"{f.key}: results of the closure getters are not appended to a list")
        # ---- record cache accesses
        self.accesses: List[Tuple[str, ast.AST, ast.expr, int]] = []      # (kind, node, key expr, cfg node)
        for n in walk_local(fn):
            if isinstance(n, ast.Call) and isinstance(n.func, ast.Attribute) and n.func.attr in ("get", "setdefault", "pop", "__getitem__") \
                    and n.args and self.is_cache(n.func.value):
                self.accesses.append(("get" if n.func.attr != "setdefault" else "store", n, n.args[0], S.node_of(n)))
            elif isinstance(n, ast.Subscript) and self.is_cache(n.value):
                self.accesses.append(("store" if isinstance(n.ctx, ast.Store) else "load", n, n.slice, S.node_of(n)))
            elif isinstance(n, ast.Compare) and len(n.ops) == 1 and isinstance(n.ops[0], (ast.In, ast.NotIn)) \
                    and self.is_cache(n.comparators[0]):
                self.accesses.append(("contains", n, n.left, S.node_of(n)))
        # ---- bound-value tracker loop
        self.trk_iter = None
        for n in walk_local(fn):
            if isinstance(n, ast.For) and any(_top_attr(a) == "bindparam_trackers" for a in S.ctx_alts(n.iter)):
                ctx.require(self.trk_iter is None, f"{f.key}: bindparam_trackers is iterated twice")
                self.trk_iter = n
        self.trk_call = None
        if self.trk_iter is not None and isinstance(self.trk_iter.target, ast.Name):
            cs = [c for st in self.trk_iter.body for c in ast.walk(st)
                  if isinstance(c, ast.Call) and isinstance(c.func, ast.Name) and c.func.id == self.trk_iter.target.id]
            if len(cs) == 1:
                self.trk_call = cs[0]

    def is_cache(self, e: ast.expr) -> bool:
        return any(_top_attr(a) == "lambda_cache" for a in self.S.ctx_alts(e))

    def is_cur_list(self, e: ast.AST) -> bool:
        for n in ast.walk(e):
            if any(orig(n) is fr for fr in self.fresh_nodes):
                return True
            r = getattr_norm(n)
            if r is not None and r[1] == "_resolved_bindparams" and isinstance(r[0], ast.Name) and r[0].id == "self":
                return True
        return False

    def has_key_anchor(self, e: ast.AST) -> bool:
        return any(contains_orig(e, a) for a in self.key_anchor)

    def key_roles(self) -> List[str]:
        """role of each positional argument of the closure getter call: closure | opts | list | other"""
        out = []
        for a in self.key_call.args:
            alts = self.S.ctx_alts(a)
            if alts and all(_top_attr(x) == "__closure__" for x in alts):
                out.append("closure")
            elif alts and all(self._is_opts(x) for x in alts):
                out.append("opts")
            elif alts and all(self.is_cur_list(x) for x in alts):
                out.append("list")
            else:
                out.append("other")
        return out

    def _is_opts(self, e: ast.AST) -> bool:
        """the options object: the parameter (or self attribute) `.lambda_cache` is read from"""
        fn = self.f.node
        for n in walk_local(fn):
            if isinstance(n, ast.Attribute) and n.attr == "lambda_cache":
                for b in self.S.ctx_alts(n.value):
                    if ast.dump(b) == ast.dump(e):
                        return True
        return False

    def trk_roles(self) -> List[str]:
        out = []
        if self.trk_call is None:
            return out
        for a in self.trk_call.args:
            alts = self.S.ctx_alts(a)
            if alts and all(_top_attr(x) == "tracker_instrumented_fn" for x in alts):
                out.append("cached")
            elif alts and all(_top_attr(x) == "fn" for x in alts):
                out.append("current")
            elif alts and all(self.is_cur_list(x) for x in alts):
                out.append("result")
            else:
                out.append("other")
        return out


def _rt(ctx) -> _RT:
    if "_c17_rt" not in ctx.__dict__:
        ctx.__dict__["_c17_rt"] = _RT(ctx)
    return ctx.__dict__["_c17_rt"]


# ---------------------------------------------------------------------- C17-R1
def _getter_free_value_reads(ctx, code: _Code, factory, getter) -> List[str]:
    """reasons why `getter` reads a value captured at analysis time"""
    bad = []
    SF = _S(ctx, factory)
    tainted = code.tainted[factory.name]
    mine = local_names(getter)
    for n in free_reads(getter):
        if n.id in ("self", "cls") or n.id not in local_names(factory.node):
            continue            # module level name / builtin
        alts = SF.free(ast.Name(id=n.id, ctx=ast.Load()), getter)
        if any(_is_value_source(a, tainted) for a in alts):
            bad.append(f"reads `{n.id}`, a value captured when the code object was first analysed "
                       f"(`{unparse(alts[0])[:60]}`)")
    SG = _S(ctx, getter)
    for n in ast.walk(getter):
        r = getattr_norm(n)
        if r is None or _strip_sa(r[1]) not in (VALUE_ATTRS | FUNC_STATE) - {"track_on"} and r[1] != "track_on":
            continue
        at = SG.node_of(n)
        for a in (SG.ctx_alts(r[0]) if at is not None else [r[0]]):
            rn = root_name(a)
            if rn is not None and rn not in mine and not rn.startswith("__"):
                bad.append(f"reads `{unparse(n)[:70]}` off the captured `{rn}` instead of off one of its own arguments")
    for c in calls_in(getter, into_nested=True):
        if isinstance(c.func, ast.Name) and c.func.id not in mine and c.func.id in local_names(factory.node) \
                and c.func.id in code.tainted.get(factory.name, set()) | {p for p in factory.params if p == "fn"}:
            bad.append(f"calls the captured `{c.func.id}`")
    return sorted(set(bad))


@R.rule("C17-R1", floor=8, template="T-FLOW",
        desc="every per-invocation getter registered by AnalyzedCode computes its result from its own arguments (the "
             "current closure / options / function), never from a value captured at analysis time; bound-value getters "
             "read the current value at the position the wrapper sits at")
def r1(ctx):
    code = _code(ctx)
    rt = _rt(ctx)
    kroles = rt.key_roles()
    ctx.require("closure" in kroles, f"{rt.f.key}: the closure getters are not called with <fn>.__closure__")
    troles = rt.trk_roles()
    ctx.require(rt.trk_call is not None and "current" in troles and "cached" in troles,
                f"{rt.f.key}: call of the bound-value trackers not understood (roles {troles})")
    # ---- cache-key getters
    for fname, fac in sorted(code.factories("closure_trackers").items()):
        getters = _returned_getters(fac.node)
        ctx.require(getters, f"{fac.key}: defines nested functions but returns none of them")
        for k, gt in enumerate(getters, 1):
            key = f"{fac.key}:getter[{k}]"
            bad = _getter_free_value_reads(ctx, code, fac, gt)
            params = [a.arg for a in gt.args.posonlyargs + gt.args.args]
            value_params = {p for p, r in zip(params, kroles) if r in ("closure", "opts")}
            SG = _S(ctx, gt)
            rets = [n for n in walk_local(gt) if isinstance(n, ast.Return)]
            if not [r for r in rets if r.value is not None]:
                bad.append("returns nothing: this closure variable contributes nothing to the cache key")
            for r_ in rets:
                if r_.value is None:
                    continue
                ralts = SG.alts(r_.value, SG.node_of(r_.value))
                settled = [a for a in ralts if not _has_cyc(a)] or ralts      # a loop carried value derives from the others
                for a in settled:
                    if not has_name(a, *value_params):
                        bad.append(f"returns `{unparse(r_.value)[:60]}`, which is not computed from the closure / options it is called with")
            ctx.check(not bad, key,
                      "cache-key getter " + "; ".join(bad) + " -- a later lambda with the same code object but another closure value "
                      "(def go(col): return lambda_stmt(lambda: select(col)); go(t.c.a); go(t.c.b)) gets the first value's key and SQL",
                      f"result computed from own argument(s) {sorted(value_params)}", loc(fac, gt))
    # ---- bound-value getters
    for fname, fac in sorted(code.factories("bindparam_trackers").items()):
        getters = _returned_getters(fac.node)
        ctx.require(getters, f"{fac.key}: defines nested functions but returns none of them")
        for k, gt in enumerate(getters, 1):
            key = f"{fac.key}:getter[{k}]"
            bad = _getter_free_value_reads(ctx, code, fac, gt)
            params = [a.arg for a in gt.args.posonlyargs + gt.args.args]
            role = {r: p for p, r in zip(params, troles)}
            SG = _S(ctx, gt)
            ext = []
            for c in calls_in(gt):
                r = getattr_norm(c.func)
                if r is not None and _strip_sa(r[1]) == "_extract_bound_parameters":
                    ext.append((c, r[0]))
            if not ext:
                bad.append("never calls <wrapper>._extract_bound_parameters(): no value is extracted")
            for c, recv in ext:
                if len(c.args) < 2:
                    bad.append("extraction call without (value, result list)")
                    continue
                for ra in SG.ctx_alts(recv):
                    rroot, rpath = base_chain(ra)
                    for va in SG.ctx_alts(c.args[0]):
                        vroot, vpath = base_chain(va)
                        rn = rroot.id if isinstance(rroot, ast.Name) else None
                        vn = vroot.id if isinstance(vroot, ast.Name) else None
                        if rn != role.get("cached"):
                            bad.append(f"takes the wrapper from `{rn}`, not from the instrumented function of the cached record")
                        if vn != role.get("current"):
                            bad.append(f"takes the value from `{unparse(va)[:60]}` instead of from the function of the current invocation "
                                       f"(parameter `{role.get('current')}`)")
                        elif rpath != vpath:
                            bad.append(f"wrapper read at `{''.join(rpath)}` but value read at `{''.join(vpath)}`: another variable's value")
                for la in SG.ctx_alts(c.args[1]):
                    if not (isinstance(la, ast.Name) and la.id == role.get("result")):
                        bad.append(f"extracts into `{unparse(la)[:40]}`, not into the per-invocation list it is given")
            ctx.check(not bad, key,
                      "bound-value getter " + "; ".join(sorted(set(bad))) + " -- def go(x): return lambda_stmt(lambda: select(t).where(t.c.q == x)); "
                      "go(5); go(7) executes with the wrong value",
                      "wrapper from the cached fn, value from the current fn, same position", loc(fac, gt))


_GLOB = "AnalyzedCode._bound_parameter_getter_func_globals"
R.mutant("r1-closure-key-from-captured-value", LAM,
         sub("                obj = closure[idx].cell_contents\n", "                obj = cell_contents\n"), "C17-R1")
R.mutant("r1-track-on-returns-captured-elem", LAM,
         sub("            def get(closure, opts, anon_map, bindparams):\n                return opts.track_on[idx]\n",
             "            def get(closure, opts, anon_map, bindparams):\n                return elem\n"), "C17-R1")
R.mutant("r1-function-code-from-captured", LAM,
         sub("                return closure[idx].cell_contents.__code__", "                return cell_contents.__code__"), "C17-R1")
R.mutant("r1-sequence-from-first-fn", LAM,
         sub("                contents = closure[idx].cell_contents\n", "                contents = fn.__closure__[idx].cell_contents\n"), "C17-R1")
R.mutant("r1-key-getter-constant", LAM,
         sub("                return closure[idx].cell_contents.__code__", "                return types.FunctionType"), "C17-R1")
R.mutant("r1-bound-value-from-cached-fn", LAM,
         sub("                current_fn.__globals__[name], result\n", "                tracker_instrumented_fn.__globals__[name]._sa__to_evaluate, result\n"), "C17-R1")
R.mutant("r1-bound-getter-params-swapped", LAM,
         sub("        def extract_parameter_value(\n            current_fn, tracker_instrumented_fn, result\n        ):\n            wrapper = tracker_instrumented_fn.__closure__[",
             "        def extract_parameter_value(\n            tracker_instrumented_fn, current_fn, result\n        ):\n            wrapper = tracker_instrumented_fn.__closure__["), "C17-R1")
R.mutant("r1-bound-value-other-cell", LAM,
         sub("                current_fn.__closure__[closure_index].cell_contents, result\n",
             "                current_fn.__closure__[closure_index - 1].cell_contents, result\n"), "C17-R1")
R.mutant("benign-r1-getter-locals", LAM,
         chain(sub("                obj = closure[idx].cell_contents\n                if use_inspect:\n                    obj = inspection.inspect(obj)",
                   "                cell = closure[idx]\n                obj = cell.cell_contents\n                if use_inspect:\n                    obj = inspection.inspect(obj)"),
               sub("                contents = closure[idx].cell_contents\n\n                try:\n                    return tuple(\n                        elem._gen_cache_key(anon_map, bindparams)\n                        for elem in contents\n                    )",
                   "                try:\n                    return tuple(\n                        member._gen_cache_key(anon_map, bindparams)\n                        for member in closure[idx].cell_contents\n                    )")), None)
R.mutant("benign-r1-bound-getter-spelling", LAM,
         chain(sub("            wrapper = tracker_instrumented_fn.__globals__[name]\n            object.__getattribute__(wrapper, \"_extract_bound_parameters\")(\n                current_fn.__globals__[name], result\n            )",
                   "            cached_globals = tracker_instrumented_fn.__globals__\n            now = current_fn.__globals__[name]\n            cached_globals[name]._sa__extract_bound_parameters(now, result)"),
               sub("        def extract_parameter_value(\n            current_fn, tracker_instrumented_fn, result\n        ):\n            wrapper = tracker_instrumented_fn.__closure__[",
                   "        def extract_parameter_value(live_fn, tracker_instrumented_fn, result):\n            current_fn = live_fn\n            wrapper = tracker_instrumented_fn.__closure__[")), None)


# ---------------------------------------------------------------------- C17-R2 / R3: _retrieve_tracker_rec
def _is_nocache(x: ast.AST) -> bool:
    return (dotted(x) or "").endswith("NO_CACHE")


def _nocache_atom(t: ast.AST) -> Optional[Tuple[str, ast.expr]]:
    """('is' | 'in', other operand) when `t` compares something with the NO_CACHE sentinel"""
    if isinstance(t, ast.Compare) and len(t.ops) == 1 and isinstance(t.ops[0], (ast.Is, ast.In, ast.Eq)):
        a, b = t.left, t.comparators[0]
        if _is_nocache(a) and not _is_nocache(b):
            return ("in" if isinstance(t.ops[0], ast.In) else "is", b)
        if _is_nocache(b) and not _is_nocache(a):
            return ("is", a) if not isinstance(t.ops[0], ast.In) else None
    return None


def _anon_nodes(rt: _RT) -> List[ast.AST]:
    out = []
    for a in rt.key_call.args:
        for x in rt.S.ctx_alts(a):
            if isinstance(x, ast.Call) and (dotted(x.func) or "").split(".")[-1] == "anon_map":
                out.append(orig(x))
    return out


def _own_cacheable_guard(rt: _RT, at: int) -> bool:
    """a dominating branch outcome says: the key of THIS element is not NO_CACHE"""
    S = rt.S
    anon = _anon_nodes(rt)
    for t, pol in S.guards(at):
        if pol:
            continue
        r = _nocache_atom(t)
        if r is None:
            continue
        kind, other = r
        tn = S.node_of(other)
        alts = S.alts(other, tn) if tn is not None else [other]
        if kind == "is" and any(rt.has_key_anchor(a) for a in alts):
            return True
        if kind == "in" and any(any(orig(n) is an for n in ast.walk(a)) for a in alts for an in anon):
            return True
    return False


def _nocache_edges(rt: _RT) -> Set[Tuple[int, str]]:
    """(test node, label) outcomes that assert `... is NO_CACHE` / `NO_CACHE in ...`"""
    out = set()
    for n in rt.g.nodes:
        if n.kind != "test":
            continue
        for lab in ("true", "false"):
            for t, pol in conj(n.stmt.test, lab == "true"):
                if pol and _nocache_atom(t) is not None:
                    out.add((n.id, lab))
    return out


def _key_parts(rt: _RT, k: ast.AST) -> Tuple[bool, bool, bool]:
    tk = any(a == "tracker_key" for _, a in attr_reads(k))
    parent = False
    for n in ast.walk(k):
        r = getattr_norm(n)
        if r is not None and r[1] == "closure_cache_key" and has_attr(r[0], "parent_lambda"):
            parent = True
    return tk, rt.has_key_anchor(k), parent


@R.rule("C17-R2", floor=5, template="T-FLOW/T-GUARD",
        desc="_retrieve_tracker_rec: the record cache key = tracker key + parent closure key + every closure getter applied "
             "to the current closure; lookup and store use the same key; NO_CACHE bypasses the cache; the key is published")
def r2(ctx):
    rt = _rt(ctx)
    f, S, g = rt.f, rt.S, rt.g
    # ---- K1: how the closure key is computed
    bad = []
    node, gen = rt.key_iter
    if gen is not None:
        if gen.ifs or len(node.generators) != 1:
            bad.append("the iteration over the closure getters is filtered: some closure variables do not reach the key")
        if node.elt is not rt.key_call:
            bad.append("the getter's result is not the collected element")
        if isinstance(node, ast.SetComp):
            bad.append("results are collected into a set (order / duplicates lost)")
    else:
        fors = [n.id for n in g.nodes if n.kind == "for" and n.stmt is node]
        app = g.nodes_for(S._root_of.get(id(rt.key_loop_append), rt.key_loop_append)) if rt.key_loop_append is not None else []
        app = [a for a in app] or [S.node_of(rt.key_loop_append)]
        body = [b for b, lab in g.succ[fors[0]] if lab == "true"] if fors else []
        w = g.must_pass(body, fors + [g.exit], app, edge_ok=no_exc) if body else ["?"]
        if w is not None:
            bad.append("an iteration over the closure getters can end without recording the getter's result")
    it = gen.iter if gen is not None else node.iter
    for a in S.ctx_alts(it):
        if getattr_norm(a) is None:
            bad.append(f"only `{unparse(it)[:50]}` of the closure getters is iterated: some closure variables do not reach the key")
    roles = rt.key_roles()
    if "closure" not in roles:
        bad.append("the getters are not called with the __closure__ of the current function")
    else:
        for a in S.ctx_alts(rt.key_call.args[roles.index("closure")]):
            r = getattr_norm(a)
            base = r[0] if r else None
            ok = base is not None and (
                (isinstance(base, ast.Name) and base.id in f.params and base.id != "self")
                or (isinstance(base, ast.Attribute) and base.attr == "fn" and isinstance(base.value, ast.Name) and base.value.id == "self"))
            if not ok:
                bad.append(f"the closure handed to the getters is `{unparse(a)[:60]}`, not the current lambda's")
    if "list" not in roles:
        bad.append("the getters do not collect embedded bound parameters into the per-invocation list")
    if not _anon_nodes(rt):
        bad.append("the getters are not given a fresh anon_map (a stale NO_CACHE mark / stale anonymous numbering)")
    ctx.check(not bad, f"{f.key}:closure-key[every-getter,current-closure]",
              "; ".join(bad) + " -- go(t.c.a) then go(t.c.b) with `lambda: select(col)` must not share a cached record",
              "tuple of getter(current closure, opts, fresh anon_map, per-invocation list) for every closure getter", loc(f, rt.key_call))
    # ---- K2 / K3: lookup and store keys
    look = [a for a in rt.accesses if a[0] in ("get", "load", "contains")]
    store = [a for a in rt.accesses if a[0] == "store"]
    ctx.require(look and store, f"{f.key}: record cache lookup / store not found (lookups {len(look)}, stores {len(store)})")

    def judge(accs):
        bad, sig = [], set()
        for kind, n, kx, at in accs:
            alts = S.ctx_alts(kx)
            parts = [_key_parts(rt, a) for a in alts]
            if not all(p[0] for p in parts):
                bad.append(f"`{unparse(n)[:60]}`: key lacks the tracker key (code objects of the lambda chain)")
            if not all(p[1] for p in parts):
                bad.append(f"`{unparse(n)[:60]}`: key lacks the closure key computed from the current closure")
            if not any(p[2] for p in parts):
                bad.append(f"`{unparse(n)[:60]}`: key lacks the parent lambda's closure key")
            sig.add((all(p[0] for p in parts), all(p[1] for p in parts), any(p[2] for p in parts)))
        return bad, sig
    lb, lsig = judge(look)
    ctx.check(not lb, f"{f.key}:record-cache:lookup-key", "; ".join(lb) + " -- a structure-changing closure value (another column, "
              "another parent statement) finds the record built for the first value: stale SQL",
              f"{len(look)} lookup(s) keyed by tracker key + parent closure key + closure key", loc(f, look[0][1]))
    sb, ssig = judge(store)
    if not sb and lsig != ssig:
        sb.append("the record is stored under a key composed differently from the key it is looked up with")
    for kind, n, kx, at in store:
        st = S._root_of.get(id(n))
        val = st.value if isinstance(st, ast.Assign) else None
        if val is not None:
            for a in S.alts(val, at):
                if not (isinstance(a, ast.Call) and (dotted(a.func) or "").split(".")[-1] == "AnalyzedFunction"):
                    sb.append(f"what is stored is `{unparse(a)[:50]}`, not a newly analysed function")
    ctx.check(not sb, f"{f.key}:record-cache:store-key", "; ".join(sb), f"{len(store)} store(s) under the lookup key", loc(f, store[0][1]))
    # ---- K4: NO_CACHE bypass
    bad = []
    for kind, n, kx, at in rt.accesses:
        if not _own_cacheable_guard(rt, at):
            bad.append(f"`{unparse(n)[:60]}` is not conditional on this element's closure key being cacheable (NO_CACHE not in the anon_map / key is not NO_CACHE)")
    naf = [c for c in calls_in(f.node) if (dotted(c.func) or "").split(".")[-1] == "NonAnalyzedFunction"]
    if not naf:
        bad.append("no uncached record (NonAnalyzedFunction) is built for an uncacheable closure")
    for c in naf:
        for a in (S.ctx_alts(c.args[0]) if c.args else []):
            if not (isinstance(a, ast.Call) and _self_call(a) == "_invoke_user_fn"):
                bad.append(f"the uncached record wraps `{unparse(a)[:60]}` instead of a fresh invocation of the lambda")
    ctx.check(not bad, f"{f.key}:record-cache:no-cache-bypass", "; ".join(bad) + " -- an uncacheable closure element contributes None to the key: "
              "every value of it would share one record", f"{len(rt.accesses)} cache access(es) guarded; uncached record invokes the lambda", loc(f))
    # ---- K5: published key
    pubs = [(n, st) for t, n, st in attr_stores(f.node) if t == "self.closure_cache_key"]
    bad = []
    if not pubs:
        bad.append("self.closure_cache_key is never assigned")
    else:
        pn = [i for n, st in pubs for i in g.nodes_for(st)]
        w = g.must_pass([g.entry], [g.exit], pn, edge_ok=no_exc)
        if w is not None:
            bad.append("a normal path returns without assigning self.closure_cache_key")
        # the last store on each path decides: stores from which no other store is reachable
        finals = [i for i in pn if not (g.reachable(normal_succ(g, i), edge_ok=no_exc) & set(pn))]
        for i in finals:
            st = g.nodes[i].stmt
            for a in S.alts(st.value, i):
                if not (_is_nocache(a) or rt.has_key_anchor(a)):
                    bad.append(f"publishes `{unparse(a)[:60]}`, which does not contain the closure key computed from the current closure")
    ctx.check(not bad, f"{f.key}:closure_cache_key:published", "; ".join(bad) + " -- _gen_cache_key builds the compiled-cache key from this attribute",
              "every path publishes NO_CACHE or a key containing the current closure key", loc(f, pubs[0][0]) if pubs else loc(f))


def _rekey_sites(rt: _RT):
    """[(call, cfg node, problems)] for `<recbind>._with_value(<newbind>.value ...)` rebuilding the per-invocation list"""
    S = rt.S
    out = []
    for c in calls_in(rt.f.node):
        if not (isinstance(c.func, ast.Attribute) and c.func.attr == "_with_value" and c.args):
            continue
        recv = S.ctx_alts(c.func.value)
        val = S.ctx_alts(c.args[0])
        from_rec = [any(is_pseudo(n, ELEM) and _top_attr(n.args[0]) == "closure_bindparams" for n in ast.walk(a)) for a in recv]
        from_cur_v = [any(is_pseudo(n, ELEM) and rt.is_cur_list(n.args[0]) for n in ast.walk(a)) for a in val]
        if not (any(from_rec) or any(from_cur_v)
                or any(has_attr(a, "closure_bindparams") for a in recv + val)):
            continue
        probs = []
        if not all(from_rec):
            probs.append(f"the parameter that keeps its key is `{unparse(recv[0])[:50]}`, not an element of the cached record's closure_bindparams")
        if not all(from_cur_v) or any(any(is_pseudo(n, ELEM) and _top_attr(n.args[0]) == "closure_bindparams" for n in ast.walk(a)) for a in val):
            probs.append(f"the value given to it is `{unparse(val[0])[:50]}`, not the value of the parameter extracted from the current closure")
        out.append((c, S.node_of(c), probs))
    return out


@R.rule("C17-R3", floor=8, template="T-PATH/T-FRESH",
        desc="_retrieve_tracker_rec: fresh per-invocation parameter list; the record keeps a copy; a record from the cache gets "
             "the current values on every path; parent parameters prepended; every bound-value tracker runs on every cacheable "
             "invocation with current fn / cached instrumented fn / per-invocation list")
def r3(ctx):
    rt = _rt(ctx)
    f, S, g = rt.f, rt.S, rt.g
    # ---- B1
    ctx.check(not rt.fresh_bad, f"{f.key}:resolved-binds:fresh-list",
              f"self._resolved_bindparams is bound to `{'; '.join(rt.fresh_bad)}`, not to a new list: values extracted for this invocation "
              "land in a list another invocation / the cached record also holds",
              "bound to a new empty list on every call", loc(f, rt.list_stores[0][0]))
    # ---- B2
    cbs = [(n, st) for t, n, st in attr_stores(f.node) if t.endswith(".closure_bindparams")]
    ctx.require(cbs, f"{f.key}: no store to <record>.closure_bindparams")
    bad = []
    for n, st in cbs:
        for a in S.alts(st.value, g.nodes_for(st)[0]):
            alias = any(orig(a) is fr for fr in rt.fresh_nodes) or (getattr_norm(a) or (None, ""))[1] == "_resolved_bindparams"
            if alias:
                bad.append("the cached record keeps the per-invocation list itself (parent / tracker parameters appended later end up in the "
                           "record and shift the positional pairing on the next hit)")
            elif not rt.is_cur_list(a):
                bad.append(f"the cached record keeps `{unparse(a)[:50]}`, not the parameters collected by the closure getters")
    ctx.check(not bad, f"{f.key}:record.closure_bindparams:stored-copy", "; ".join(bad), "a copy of the per-invocation list", loc(f, cbs[0][0]))
    # ---- B3 / B4
    rek = _rekey_sites(rt)
    reknodes = [at for c, at, p in rek if at is not None]
    reads = [a for a in rt.accesses if a[0] in ("get", "load")]
    ctx.require(reads, f"{f.key}: no read of a record from the cache")
    targets = [i for t, n, st in attr_stores(f.node) if t == "self._rec" for i in g.nodes_for(st)] or [g.exit]
    ordinal: Dict[str, int] = {}
    for kind, n, kx, at in reads:
        cut = set()
        for tn in g.nodes:
            if tn.kind != "test":
                continue
            for lab in ("true", "false"):
                for t, pol in conj(tn.stmt.test, lab == "true"):
                    if pol and isinstance(t, ast.Compare) and len(t.ops) == 1 and isinstance(t.ops[0], ast.Is) \
                            and isinstance(t.comparators[0], ast.Constant) and t.comparators[0].value is None:
                        if any(contains_orig(a, n) for a in S.alts(t.left, tn.id)):
                            cut.add((tn.id, lab))
        ok_edge = lambda a, b, lab, cut=cut: lab != "exc" and (a, lab) not in cut
        starts = [b for b in normal_succ(g, at) if b not in reknodes]
        direct = [b for b in starts if b in targets]
        w = [at, direct[0]] if direct else (g.witness(starts, targets, avoid=reknodes, edge_ok=ok_edge) if starts else None)
        ordinal[kind] = ordinal.get(kind, 0) + 1
        key = f"{f.key}:cached-record[{kind}{'' if ordinal[kind] == 1 else ordinal[kind]}]:current-values-rekeyed"
        ctx.check(w is None and bool(reknodes), key,
                  f"a record obtained with `{unparse(n)[:50]}` is used without giving the parameters collected from the CURRENT closure "
                  "the keys of the record's parameters: _setup_binds_for_tracked_expr finds no match and the cached expression keeps the "
                  "values of the invocation that built the record (closure variable holding a SQL expression with a bound value, "
                  "e.g. crit = t.c.q == v; lambda: select(t).where(crit))",
                  "every path to self._rec passes the re-keying", loc(f, n), g.describe_path(w) if w else None)
    bad = [p for c, at, ps in rek for p in ps]
    if not rek:
        bad.append("no `<record parameter>._with_value(<current parameter>.value)` re-keying found")
    for c, at, ps in rek:
        st = g.nodes[at].stmt if at is not None else None
        ok = False
        if isinstance(st, ast.Assign):
            for tg in st.targets:
                if isinstance(tg, ast.Subscript) and any(rt.is_cur_list(a) for a in S.alts(tg.value, at)):
                    ok = True
                if isinstance(tg, ast.Attribute) and tg.attr == "_resolved_bindparams":
                    ok = True
        elif isinstance(st, ast.Expr) and isinstance(st.value, ast.Call) and isinstance(st.value.func, ast.Attribute) \
                and st.value.func.attr in ("extend", "__setitem__") and any(rt.is_cur_list(a) for a in S.alts(st.value.func.value, at)):
            ok = True
        ctx.require(ok or st is None or isinstance(st, (ast.Assign, ast.Expr)), f"{f.key}: re-keying statement not understood")
        if not ok:
            bad.append("the re-keyed parameters are not put back into the per-invocation list")
    ctx.check(not bad, f"{f.key}:rekey:key-from-record,value-from-current", "; ".join(bad) + " -- swapping the roles returns the first invocation's values",
              "record's parameter ._with_value(current parameter's value), stored into the per-invocation list", loc(f, rek[0][0]) if rek else loc(f))
    # ---- B5 / B6: bound-value trackers
    ctx.require(rt.trk_iter is not None and rt.trk_call is not None, f"{f.key}: loop over <record>.bindparam_trackers not found")
    pm = f.pm if hasattr(f, "pm") else f.module.parents()
    head = rt.trk_iter
    x = rt.trk_iter
    while x is not None and x is not f.node:
        if isinstance(x, (ast.For, ast.While)):
            head = x
        x = pm.get(x)
    heads = [i for i in g.nodes_for(head) if g.nodes[i].kind in ("test", "for") and not g.nodes[i].copy]
    ctx.require(heads, f"{f.key}: loop head of the tracker loop has no CFG node")
    nce = _nocache_edges(rt)
    w = g.witness([g.entry], [g.exit], avoid=heads, edge_ok=lambda a, b, lab: lab != "exc" and (a, lab) not in nce)
    ctx.check(w is None, f"{f.key}:bind-trackers:run-on-every-cacheable-invocation",
              "a cacheable invocation (cache hit or miss) can return without running the bound-value trackers: the per-invocation list lacks the "
              "literal closure values and the cached expression keeps the first invocation's values (go(5); go(7) with lambda: t.c.q == x)",
              "every cacheable path reaches the loop over the element chain's trackers", loc(f, head), g.describe_path(w) if w else None)
    roles = rt.trk_roles()
    bad = []
    if sorted(roles) != ["cached", "current", "result"]:
        bad.append(f"tracker arguments are {roles}: expected the element's current fn, its record's instrumented fn and the per-invocation list")
    else:
        # the element whose .fn is passed and the element whose record's instrumented fn is passed: same set of
        # elements (locals are resolved one by one, so the pairing is judged on the sets)
        cur_elems, cac_elems = set(), set()
        for a in S.ctx_alts(rt.trk_call.args[roles.index("current")]):
            cur_elems.add(ast.dump(getattr_norm(a)[0]))
        for a in S.ctx_alts(rt.trk_call.args[roles.index("cached")]):
            r2_ = getattr_norm(a)
            e2 = getattr_norm(r2_[0]) if r2_ else None
            if e2 is None or e2[1] != "_rec":
                bad.append(f"instrumented fn `{unparse(a)[:60]}` is not read off an element's record (`<element>._rec`)")
            else:
                cac_elems.add(ast.dump(e2[0]))
        if not bad and cur_elems != cac_elems:
            bad.append("the current fn and the instrumented fn handed to a tracker do not belong to the same element of the lambda chain")
        if ast.dump(ast.Name(id="self", ctx=ast.Load())) not in cur_elems:
            bad.append("the chain of elements whose trackers run does not start at this element")
        tn = S.node_of(rt.trk_call)
        fors = [n.id for n in g.nodes if n.kind == "for" and n.stmt is rt.trk_iter]
        body = [b for b, lab in g.succ[fors[0]] if lab == "true"]
        w2 = g.must_pass([b for b in body if b != tn], fors + [g.exit], [tn], edge_ok=no_exc)
        if w2 is not None:
            bad.append("an iteration over the trackers can finish without calling the tracker")
    ctx.check(not sorted(set(bad)), f"{f.key}:bind-trackers:arguments", "; ".join(sorted(set(bad))),
              "tracker(E.fn, E._rec.tracker_instrumented_fn, per-invocation list) for E = self, parents", loc(f, rt.trk_call))
    # ---- B7: parent parameters
    reads_parent = [n for n in walk_local(f.node) if isinstance(n, ast.Attribute) and n.attr == "_resolved_bindparams"
                    and has_attr(n.value, "parent_lambda")]
    bad = []
    sites = []
    for n in g.nodes:
        st = n.stmt
        if n.kind != "stmt" or n.copy or not isinstance(st, ast.Assign):
            continue
        for tg in st.targets:
            if isinstance(tg, ast.Subscript) and any(rt.is_cur_list(a) for a in S.alts(tg.value, n.id)) \
                    and any(_top_attr(a) == "_resolved_bindparams" and has_attr(a, "parent_lambda") for a in S.alts(st.value, n.id)):
                sites.append(n.id)
    if not reads_parent:
        bad.append("the parent lambda's per-invocation parameters are never read")
    else:
        ctx.require(sites, f"{f.key}: how the parent's parameters enter the per-invocation list is not understood")
        for i in sites:
            for t, pol in S.guards(i):
                if not pol and _nocache_atom(t) is not None:
                    continue
                if not pol and isinstance(t, ast.Compare) and isinstance(t.ops[0], ast.Is) and isinstance(t.comparators[0], ast.Constant) \
                        and t.comparators[0].value is None and has_attr(t.left, "parent_lambda"):
                    continue
                bad.append(f"prepending the parent's parameters is conditional on `{unparse(orig(t))[:50]}` ({pol})")
    ctx.check(not bad, f"{f.key}:parent-binds:prepended", "; ".join(bad) + " -- stmt = lambda_stmt(lambda: select(t).where(t.c.q == x)); "
              "stmt += lambda s: s.order_by(t.c.id): the linked element's expression contains the parent's parameter, which keeps its first value",
              "parent's per-invocation parameters spliced into the list on every cacheable invocation with a parent", loc(f, g.nodes[sites[0]].stmt) if sites else loc(f))


_HIT = ("            bindparams[:] = [\n                orig_bind._with_value(new_bind.value, maintain_key=True)\n                for orig_bind, new_bind in zip(\n"
        "                    rec.closure_bindparams, bindparams\n                )\n            ]\n")
R.mutant("r2-lookup-without-closure-key", LAM, sub("                rec = lambda_cache.get(tracker_key + cache_key)", "                rec = lambda_cache.get(tracker_key)"), "C17-R2")
R.mutant("r2-parent-key-dropped", LAM, sub("                cache_key = parent_closure_cache_key + cache_key\n", "                cache_key = cache_key + ()\n"), "C17-R2")
R.mutant("r2-store-under-other-key", LAM, sub("                    key = tracker_key + cache_key\n", "                    key = cache_key\n"), "C17-R2")
R.mutant("r2-getters-filtered", LAM,
         sub("                    for getter in tracker.closure_trackers\n", "                    for getter in tracker.closure_trackers[:1]\n"), "C17-R2")
R.mutant("r2-closure-of-cached-fn", LAM,
         sub("        closure = fn.__closure__\n        tracker = AnalyzedCode.get(", "        closure = getattr(self, '_rec', self).fn.__closure__\n        tracker = AnalyzedCode.get("), "C17-R2")
R.mutant("r2-no-cache-still-looked-up", LAM,
         sub("            if _cache_key.NO_CACHE not in anon_map:\n                cache_key = parent_closure_cache_key + cache_key\n",
             "            if True:\n                cache_key = parent_closure_cache_key + cache_key\n"), "C17-R2")
R.mutant("r2-published-key-is-parent-only", LAM,
         sub("        self.closure_cache_key = cache_key\n\n        if rec is None:", "        self.closure_cache_key = parent_closure_cache_key\n\n        if rec is None:"), "C17-R2")
R.mutant("r3-trackers-only-on-miss", LAM,
         chain(sub("        self._rec = rec\n\n        if cache_key is not _cache_key.NO_CACHE:\n", "        self._rec = rec\n\n        if cache_key is not _cache_key.NO_CACHE and not bindparams:\n")), "C17-R3")
R.mutant("r3-rekey-roles-swapped", LAM,
         sub("                orig_bind._with_value(new_bind.value, maintain_key=True)", "                new_bind._with_value(orig_bind.value, maintain_key=True)"), "C17-R3")
R.mutant("r3-hit-path-keeps-own-keys", LAM, sub(_HIT, "            pass\n"), "C17-R3")
R.mutant("r3-record-aliases-list", LAM, sub("                        rec.closure_bindparams = list(bindparams)", "                        rec.closure_bindparams = bindparams"), "C17-R3")
R.mutant("r3-list-not-fresh", LAM,
         sub("        self._resolved_bindparams = bindparams = []\n", "        self._resolved_bindparams = bindparams = getattr(self, '_resolved_bindparams', [])\n"), "C17-R3")
R.mutant("r3-tracker-reads-cached-fn", LAM,
         sub("                        tracker(\n                            lambda_element.fn,\n", "                        tracker(\n                            rec.fn,\n"), "C17-R3")
R.mutant("r3-parent-binds-dropped", LAM,
         sub("                bindparams[:0] = self.parent_lambda._resolved_bindparams\n", "                pass\n"), "C17-R3")
R.mutant("r3-chain-starts-at-parent", LAM,
         sub("            lambda_element: Optional[LambdaElement] = self\n", "            lambda_element: Optional[LambdaElement] = self.parent_lambda\n"), "C17-R3")
R.mutant("benign-r2r3-locals-renamed-and-reordered", LAM,
         chain(sub("        tracker_key = self.tracker_key\n\n        fn = self.fn\n        closure = fn.__closure__\n",
                   "        fn = self.fn\n        cells = fn.__closure__\n        closure = cells\n        tracker_key = self.tracker_key\n"),
               sub("                rec = lambda_cache.get(tracker_key + cache_key)", "                full_key = tracker_key + cache_key\n                rec = lambda_cache.get(full_key)"),
               sub("                        rec.closure_bindparams = list(bindparams)", "                        rec.closure_bindparams = bindparams[:]")), None)
R.mutant("benign-r3-hit-path-inverted-if", LAM,
         chain(sub("        if rec is None:\n            if cache_key is not _cache_key.NO_CACHE:\n                with AnalyzedCode._generation_mutex:",
                   "        if rec is not None:\n" + _HIT.replace("            ", "            ", 1) + "        else:\n            if cache_key is not _cache_key.NO_CACHE:\n                with AnalyzedCode._generation_mutex:"),
               sub("                rec = NonAnalyzedFunction(self._invoke_user_fn(fn))\n\n        else:\n" + _HIT, "                rec = NonAnalyzedFunction(self._invoke_user_fn(fn))\n")), None)


# ---------------------------------------------------------------------- C17-R4: PyWrapper
def _attr_is(e: ast.AST, name: str, root: Optional[str] = None) -> bool:
    r = getattr_norm(e)
    if r is None or _strip_sa(r[1]) != name:
        return False
    return root is None or (isinstance(r[0], ast.Name) and r[0].id == root)


def _has_sa_attr(e: ast.AST, name: str) -> bool:
    return any(_strip_sa(a) == name for _, a in attr_reads(e))


@R.rule("C17-R4", floor=5, template="T-FLOW/T-PATH",
        desc="PyWrapper: _extract_bound_parameters takes the new value from its argument and re-applies every recorded "
             "attribute/item path to it; _add_getter records every literal sub-value under the key it looks it up with, together "
             "with the getter that produced it; the has-parameter flag is raised only where a parameter is created")
def r4(ctx):
    cls = ctx.index.cls(PW)
    f = ctx.func(f"{PW}._extract_bound_parameters")
    S, g = _S(ctx, f), None
    g = S.g
    ctx.require(len(f.params) >= 3, f"{f.key}: expected (self, value, result list)")
    me, val, res = f.params[0], f.params[1], f.params[2]
    # ---- P1: own parameter
    bad = []
    wv = [c for c in calls_in(f.node) if isinstance(c.func, ast.Attribute) and c.func.attr == "_with_value" and c.args]
    wv = [c for c in wv if any(_has_sa_attr(a, "_param") for a in S.ctx_alts(c.func.value))]
    if not wv:
        bad.append("the wrapper's own parameter is never given a value (`<param>._with_value(...)` not found)")
    for c in wv:
        for a in S.ctx_alts(c.args[0]):
            if not (isinstance(a, ast.Name) and a.id == val):
                bad.append(f"the parameter gets `{unparse(a)[:60]}` instead of the value extracted from the current closure (`{val}`)")
        apps = [x for x in calls_in(f.node) if isinstance(x.func, ast.Attribute) and x.func.attr in ("append", "extend")
                and isinstance(x.func.value, ast.Name) and x.func.value.id == res and x.args
                and any(contains_orig(a, c) for a in S.ctx_alts(x.args[0]))]
        if not apps:
            bad.append(f"the re-valued parameter is not appended to the result list `{res}`")
        for x in apps:
            for t, pol in S.guards(S.node_of(x)):
                isnone = isinstance(t, ast.Compare) and isinstance(t.ops[0], ast.Is) and isinstance(t.comparators[0], ast.Constant) \
                    and t.comparators[0].value is None and any(_has_sa_attr(a, "_param") for a in S.alts(t.left, S.node_of(t.left)))
                if not (isnone and not pol):
                    bad.append(f"appending the parameter is conditional on `{unparse(orig(t))[:50]}`")
    ctx.check(not bad, f"{f.key}:own-parameter:value-from-argument", "; ".join(bad) + " -- go(5); go(7): the second statement runs with 5",
              f"<param>._with_value({val}) appended to {res}", loc(f, wv[0]) if wv else loc(f))
    # ---- P2 / P3: nested paths
    loops = [n for n in walk_local(f.node) if isinstance(n, ast.For) and any(_has_sa_attr(a, "_bind_paths") for a in S.ctx_alts(n.iter))]
    ctx.require(len(loops) == 1, f"{f.key}: expected one loop over the recorded bind paths, found {len(loops)}")
    lp = loops[0]
    rec_calls = []
    for st in lp.body:
        for c in ast.walk(st):
            if isinstance(c, ast.Call):
                r = getattr_norm(c.func)
                if r is not None and _strip_sa(r[1]) == "_extract_bound_parameters":
                    rec_calls.append((c, r[0]))
    bad = []
    if not rec_calls:
        bad.append("sub-wrappers recorded for attribute / item access are never asked for their parameters")
    for c, recv in rec_calls:
        if len(c.args) < 2:
            bad.append("recursive extraction without (value, result list)")
            continue
        subs = [ast.dump(a) for a in S.ctx_alts(recv)]
        for a in S.ctx_alts(c.args[0]):
            okv = isinstance(a, ast.Call) and len(a.args) == 1 and isinstance(a.args[0], ast.Name) and a.args[0].id == val \
                and _attr_is(a.func, "_getter") and ast.dump(getattr_norm(a.func)[0]) in subs
            if not okv:
                bad.append(f"the sub-wrapper is given `{unparse(a)[:70]}` instead of <its recorded getter>({val})")
        for a in S.ctx_alts(c.args[1]):
            if not (isinstance(a, ast.Name) and a.id == res):
                bad.append(f"the sub-wrapper extracts into `{unparse(a)[:40]}`, not into `{res}`")
    ctx.check(not bad, f"{f.key}:bind-paths:getter-reapplied-to-argument", "; ".join(sorted(set(bad))) +
              " -- def go(o): return lambda_stmt(lambda: select(t).where(t.c.q == o.x)); go(O(5)); go(O(7)) runs with 5",
              f"each sub-wrapper: extract(<sub>._getter({val}), {res})", loc(f, lp))
    bad = []
    for a in S.ctx_alts(lp.iter):
        if not (isinstance(a, ast.Call) and isinstance(a.func, ast.Attribute) and a.func.attr in ("values", "items") and not a.args
                or getattr_norm(a) is not None):
            bad.append(f"only `{unparse(lp.iter)[:50]}` of the recorded paths is visited")
    fors = [n.id for n in g.nodes if n.kind == "for" and n.stmt is lp]
    calln = [S.node_of(c) for c, _ in rec_calls]
    body = [b for b, lab in g.succ[fors[0]] if lab == "true" and b not in calln]
    if rec_calls:
        w = g.must_pass(body, fors + [g.exit], calln, edge_ok=no_exc) if body else None
        if w is not None:
            bad.append("an iteration over the recorded paths can finish without extracting that path's parameters")
        after = g.reachable([b for n_ in calln for b in normal_succ(g, n_)], avoid=fors, edge_ok=no_exc)
        if g.exit in after:
            bad.append("the loop over the recorded paths is left after the first path")
    # (str2-z2, seed C17_2) the descent is not an alternative to the wrapper's own parameter: a wrapper can have BOTH (a
    # closure value used as a literal and through an attribute / item: `day` and `day.year`, `ids` and `ids[0]`), so every
    # normal exit of the method has been through the loop, whatever was decided about the own parameter.  The only outcomes
    # that may skip it are those that say there are no recorded paths (`if not <bind paths>: return`).
    if fors:
        cut = _falsy_edges(S, "_bind_paths") | _falsy_edges(S, "_sa__bind_paths")
        wskip = g.witness([g.entry], [g.exit], avoid=fors, edge_ok=lambda a, b, lab: lab != "exc" and (a, lab) not in cut)
        if wskip is not None:
            tests = [unparse(g.nodes[i].stmt.test)[:50] for i in wskip if g.nodes[i].kind == "test" and hasattr(g.nodes[i].stmt, "test")]
            why = f" (decided by `{tests[-1]}`)" if tests else ""
            bad.append(f"the method can return without descending into the recorded attribute / item paths{why}: a closure value used both "
                       "as a literal and through an attribute (`lambda: t.c.y == day.year and t.c.d <= day`) keeps the first invocation's `day.year`")
    ctx.check(not bad, f"{f.key}:bind-paths:every-path-visited", "; ".join(bad) + " -- lambda: and_(t.c.a == o.x, t.c.b == o.y): o.y keeps its first value",
              "every recorded path, every iteration, on every normal path through the method", loc(f, lp))
    # ---- P4: _add_getter
    fa = ctx.func(f"{PW}._add_getter")
    SA, ga = _S(ctx, fa), None
    ga = SA.g
    cons = [c for c in calls_in(fa.node) if (dotted(c.func) or "").split(".")[-1] == "PyWrapper"]
    ctx.require(cons, f"{fa.key}: no sub-wrapper is constructed")
    bad = []
    stores = []
    lookups = []
    for n in walk_local(fa.node):
        if isinstance(n, ast.Subscript) and any(_has_sa_attr(a, "_bind_paths") for a in SA.ctx_alts(n.value)):
            (stores if isinstance(n.ctx, ast.Store) else lookups).append(n)
        if isinstance(n, ast.Compare) and len(n.ops) == 1 and isinstance(n.ops[0], (ast.In, ast.NotIn)) \
                and any(_has_sa_attr(a, "_bind_paths") for a in SA.ctx_alts(n.comparators[0])):
            lookups.append(n)
    def keys_of(n):
        kx = n.left if isinstance(n, ast.Compare) else n.slice
        return {ast.dump(a) for a in SA.ctx_alts(kx)}
    for c in cons:
        cn = SA.node_of(c)
        mine = [s_ for s_ in stores if any(contains_orig(a, c) for a in SA.alts(SA._root_of[id(s_)].value, SA.node_of(s_)))
                ] if stores else []
        if not mine:
            bad.append("the sub-wrapper is handed to the lambda but not recorded in the bind paths: its parameter is never re-extracted")
            continue
        sn = [SA.node_of(s_) for s_ in mine]
        w = ga.must_pass([b for b in normal_succ(ga, cn) if b not in sn] if cn not in sn else [], [ga.exit], sn, edge_ok=no_exc)
        if w is not None:
            bad.append("a path returns the new sub-wrapper without recording it")
        lk = set()
        for l_ in lookups:
            lk |= keys_of(l_)
        for s_ in mine:
            if lookups and not (keys_of(s_) <= lk):
                bad.append("the sub-wrapper is recorded under a key other than the one it is looked up with: a second access of the same "
                           "attribute creates a second parameter and only the last is re-extracted")
        b = {k.arg: k.value for k in c.keywords}
        gk = b.get("getter")
        v = c.args[2] if len(c.args) > 2 else b.get("to_evaluate")
        if gk is None or v is None:
            bad.append("the sub-wrapper is constructed without its value / getter")
        else:
            gd = {ast.dump(a) for a in SA.ctx_alts(gk)}
            for a in SA.ctx_alts(v):
                if not (isinstance(a, ast.Call) and ast.dump(a.func) in gd):
                    bad.append(f"the sub-wrapper's value `{unparse(a)[:50]}` is not what its recorded getter produces")
    ctx.check(not bad, f"{fa.key}:literal-subvalue-recorded", "; ".join(sorted(set(bad))),
              "PyWrapper(fn, key, getter(elem), getter=getter) stored under the lookup key", loc(fa, cons[0]))
    # ---- P5: has-param flag
    bad = []
    n_sites = 0
    for name, m in sorted(cls.methods.items()):
        for t, n, st in attr_stores(m.node):
            if _strip_sa(t.split(".")[-1]) != "_has_param" or not t.startswith("self."):
                continue
            n_sites += 1
            SM = _S(ctx, m)
            at = SM.g.nodes_for(st)[0]
            vals = SM.alts(st.value, at)
            truthy = [a for a in vals if not (isinstance(a, ast.Constant) and a.value in (False, None, 0))]
            if not truthy:
                continue
            mk = nodes_with(SM.g, lambda x: isinstance(x, ast.Call) and (dotted(x.func) or "").split(".")[-1] == "BindParameter")
            if not mk or SM.g.always_preceded(at, mk) is not None:
                bad.append(f"{m.qualname} raises the has-parameter flag without having created a parameter")
    fl = ctx.func(f"{PW}._py_wrapper_literal")
    SL = _S(ctx, fl)
    mk = nodes_with(SL.g, lambda x: isinstance(x, ast.Call) and (dotted(x.func) or "").split(".")[-1] == "BindParameter")
    ctx.require(mk, f"{fl.key}: no BindParameter is created")
    for i in mk:
        once = any(pol and isinstance(t, ast.Compare) and isinstance(t.ops[0], ast.Is) and isinstance(t.comparators[0], ast.Constant)
                   and t.comparators[0].value is None and any(_has_sa_attr(a, "_param") for a in SL.alts(t.left, SL.node_of(t.left)))
                   for t, pol in SL.guards(i))
        if not once:
            bad.append("a new parameter (new unique key) is created on every use of the wrapper: only the last one is re-extracted")
        flag = [j for t, n, st in attr_stores(fl.node) if _strip_sa(t.split(".")[-1]) == "_has_param" for j in SL.g.nodes_for(st)]
        keep = [j for t, n, st in attr_stores(fl.node) if _strip_sa(t.split(".")[-1]) == "_param" for j in SL.g.nodes_for(st)]
        for what, nodes in (("has-parameter flag", flag), ("parameter", keep)):
            nodes = [j for j in nodes if j != i] or nodes
            if i in nodes:
                continue
            starts = [b for b in normal_succ(SL.g, i) if b not in nodes]
            if not nodes or (starts and SL.g.must_pass(starts, [SL.g.exit], nodes, edge_ok=no_exc) is not None):
                bad.append(f"the {what} is not stored after a parameter was created")
    ctx.check(not bad, f"{PW}:has-param-flag:only-where-created", "; ".join(sorted(set(bad))) +
              " -- a closure value used in a Python conditional (`if flag`) is then not added to the cache key",
              f"{n_sites} store(s); flag raised only after BindParameter(...), created once", loc(fl))


R.mutant("r4-own-param-stored-value", LAM,
         sub("            param = param._with_value(starting_point, maintain_key=True)\n",
             "            param = param._with_value(\n                object.__getattribute__(self, \"_to_evaluate\"), maintain_key=True\n            )\n"), "C17-R4")
R.mutant("r4-subpath-from-stored-value", LAM,
         sub("            element = getter(starting_point)\n", "            element = getter(object.__getattribute__(self, \"_to_evaluate\"))\n"), "C17-R4")
R.mutant("r4-subpath-gets-parent-value", LAM,
         sub("            pywrapper._sa__extract_bound_parameters(element, result_list)", "            pywrapper._sa__extract_bound_parameters(starting_point, result_list)"), "C17-R4")
R.mutant("r4-first-path-only", LAM,
         sub("            pywrapper._sa__extract_bound_parameters(element, result_list)\n", "            pywrapper._sa__extract_bound_parameters(element, result_list)\n            break\n"), "C17-R4")
R.mutant("r4-subwrapper-not-recorded", LAM, sub("            bind_paths[bind_path_key] = wrapper\n", "            pass\n"), "C17-R4")
R.mutant("r4-subwrapper-other-key", LAM, sub("            bind_paths[bind_path_key] = wrapper\n", "            bind_paths[key] = wrapper\n"), "C17-R4")
R.mutant("r4-flag-raised-at-construction", LAM, sub("        self._has_param = False\n", "        self._has_param = True\n"), "C17-R4")
R.mutant("r4-param-recreated-every-use", LAM, sub("        if param is None:\n            name = object.__getattribute__(self, \"_name\")\n            self._param = param",
                                                  "        if True:\n            name = object.__getattribute__(self, \"_name\")\n            self._param = param"), "C17-R4")
# (str2-z2) seed C17_2 and its family: the descent into the recorded paths is skipped for a wrapper that has its own parameter
_R4_LOOP = "        for pywrapper in object.__getattribute__(self, \"_bind_paths\").values():\n"
R.mutant("r4-own-parameter-makes-wrapper-a-leaf", LAM,
         sub("            result_list.append(param)\n" + _R4_LOOP, "            result_list.append(param)\n            return\n" + _R4_LOOP), "C17-R4")
R.mutant("r4-paths-only-without-own-parameter", LAM,
         sub("            result_list.append(param)\n" + _R4_LOOP, "            result_list.append(param)\n        if param is not None:\n            return\n" + _R4_LOOP), "C17-R4")
R.mutant("r4-paths-skipped-when-flag-set", LAM,
         sub(_R4_LOOP, "        if object.__getattribute__(self, \"_has_param\"):\n            return\n" + _R4_LOOP), "C17-R4")
R.mutant("benign-r4-no-paths-early-return", LAM,
         sub(_R4_LOOP, "        recorded = object.__getattribute__(self, \"_bind_paths\")\n        if not recorded:\n            return\n        for pywrapper in recorded.values():\n"), None)
R.mutant("benign-r4-own-parameter-inverted-branch", LAM,
         sub("        if param is not None:\n            param = param._with_value(starting_point, maintain_key=True)\n            result_list.append(param)\n",
             "        if param is None:\n            pass\n        else:\n            result_list.append(\n                param._with_value(starting_point, maintain_key=True)\n            )\n"), None)
R.mutant("benign-r4-paths-guarded-by-non-empty", LAM,
         chain(sub(_R4_LOOP, "        if object.__getattribute__(self, \"_bind_paths\"):\n          for pywrapper in object.__getattribute__(self, \"_bind_paths\").values():\n"),
               sub("            getter = object.__getattribute__(pywrapper, \"_getter\")\n            element = getter(starting_point)\n            pywrapper._sa__extract_bound_parameters(element, result_list)",
                   "            getter = object.__getattribute__(pywrapper, \"_getter\")\n            element = getter(starting_point)\n            pywrapper._sa__extract_bound_parameters(\n                element, result_list\n            )")), None)
R.mutant("benign-r4-spelling", LAM,
         chain(sub("        param = object.__getattribute__(self, \"_param\")\n        if param is not None:\n            param = param._with_value(starting_point, maintain_key=True)\n            result_list.append(param)",
                   "        own = self._sa__param\n        if own is not None:\n            result_list.append(own._with_value(starting_point, maintain_key=True))"),
               sub("            getter = object.__getattribute__(pywrapper, \"_getter\")\n            element = getter(starting_point)\n            pywrapper._sa__extract_bound_parameters(element, result_list)",
                   "            sub_value = pywrapper._sa__getter(starting_point)\n            pywrapper._sa__extract_bound_parameters(sub_value, result_list)")), None)
R.mutant("benign-r4-add-getter-early-return", LAM,
         sub("        if coercions._deep_is_literal(rolled_down_value):\n            wrapper = PyWrapper(self._sa_fn, key, value, getter=getter)\n            bind_paths[bind_path_key] = wrapper\n            return wrapper\n        else:\n            return value",
             "        if not coercions._deep_is_literal(rolled_down_value):\n            return value\n        made = bind_paths[bind_path_key] = PyWrapper(\n            self._sa_fn, key, value, getter=getter\n        )\n        return made"), None)


# ---------------------------------------------------------------------- C17-R5: consumers of the per-invocation state
def _setup_calls(fnode) -> List[ast.Call]:
    return [c for c in calls_in(fnode) if _self_call(c) == "_setup_binds_for_tracked_expr"]


def _falsy_edges(S: Sub, attr: str) -> Set[Tuple[int, str]]:
    """branch outcomes under which `<x>.<attr>` is falsy"""
    out = set()
    for n in S.g.nodes:
        if n.kind != "test":
            continue
        for lab in ("true", "false"):
            for t, pol in conj(n.stmt.test, lab == "true"):
                if not pol and any(_top_attr(a) == attr for a in S.alts(t, n.id)):
                    out.add((n.id, lab))
    return out


def _chain_reach(ctx, receivers) -> Optional[str]:
    """How far up the parent chain the objects a key component is read off reach: None (no parent), "first" (only
    `self.parent_lambda`), "chain" (the immediate parent and a loop carried walker `p = p.parent_lambda`, or the elements
    of a helper of the class that walks `parent_lambda` in a loop), "skips" (a walker that does not start at the
    immediate parent)."""
    first = walker = False
    for r in receivers:
        if r is None:
            continue
        if is_pseudo(r, ELEM) and r.args and isinstance(r.args[0], ast.Call) and _self_call(r.args[0]):
            m = ctx.index.cls(LE).methods.get(_self_call(r.args[0]))
            if m is not None and any(isinstance(l_, (ast.While, ast.For)) and has_attr(l_, "parent_lambda") for l_ in ast.walk(m.node)):
                first = walker = True
            continue
        if not has_attr(r, "parent_lambda"):
            continue
        if _has_cyc(r):
            walker = True
        elif _attr_is(r, "parent_lambda", "self"):
            first = True
    if first and walker:
        return "chain"
    if walker:
        return "skips"
    return "first" if first else None


def _published_parent_prefix(ctx) -> bool:
    """_retrieve_tracker_rec publishes self.closure_cache_key = <parent's published key> + <own closure key> (so the
    published key of a linked element carries the closure keys of the whole chain)"""
    rt = _rt(ctx)
    g, S = rt.g, rt.S
    pn = [i for t, n, st in attr_stores(rt.f.node) if t == "self.closure_cache_key" for i in g.nodes_for(st)]
    finals = [i for i in pn if not (g.reachable(normal_succ(g, i), edge_ok=no_exc) & set(pn))]
    vals = [a for i in finals for a in S.alts(g.nodes[i].stmt.value, i) if not _is_nocache(a)]
    return bool(vals) and any(_key_parts(rt, a)[2] for a in vals) and all(rt.has_key_anchor(a) for a in vals)


@R.rule("C17-R5", floor=7, template="T-FLOW/T-PATH",
        desc="the expression handed to the compiler has the per-invocation parameters spliced in by key (_resolved, "
             "_resolve_with_args, _setup_binds_for_tracked_expr); _gen_cache_key = code + closure key of the element and its "
             "parents, extracts the per-invocation parameters, and marks NO_CACHE")
def r5(ctx):
    # ---- C1: _resolved
    f = ctx.func(f"{LE}._resolved")
    S, g = _S(ctx, f), None
    g = S.g
    sc = [S.node_of(c) for c in _setup_calls(f.node)]
    bad = []
    if not sc:
        bad.append("the cached expression is returned without splicing in the per-invocation parameters")
    else:
        cut = _falsy_edges(S, "_resolved_bindparams")
        w = g.witness([g.entry], [g.exit], avoid=sc, edge_ok=lambda a, b, lab: lab != "exc" and (a, lab) not in cut)
        if w is not None:
            bad.append("a path with per-invocation parameters returns the cached expression as it is")
        for r_ in [n for n in walk_local(f.node) if isinstance(n, ast.Return) and n.value is not None]:
            for a in S.alts(r_.value, S.node_of(r_.value)):
                spliced = [c for c in ast.walk(a) if isinstance(c, ast.Call) and _self_call(c) == "_setup_binds_for_tracked_expr"]
                if spliced:
                    if not all(c.args and _has_sa_attr(c.args[0], "expected_expr") for c in spliced):
                        bad.append("what is spliced is not the record's expected_expr")
                elif _top_attr(a) != "expected_expr":
                    bad.append(f"returns `{unparse(a)[:60]}`")
    ctx.check(not bad, f"{f.key}:parameters-spliced", "; ".join(sorted(set(bad))) + " -- go(5); go(7): the second element's _resolved carries 5",
              "record's expected_expr through _setup_binds_for_tracked_expr whenever there are parameters", loc(f))
    # ---- C2 / C3: _setup_binds_for_tracked_expr
    f2 = ctx.func(f"{LE}._setup_binds_for_tracked_expr")
    S2 = _S(ctx, f2)
    trav = [c for c in calls_in(f2.node) if (dotted(c.func) or "").split(".")[-1] == "replacement_traverse"]
    ctx.require(trav, f"{f2.key}: no replacement traversal")
    defs = {d.name: d for d in nested_defs(f2.node)}
    used = set()
    bad = []
    for c in trav:
        fnarg = [a for a in list(c.args) + [k.value for k in c.keywords] if isinstance(a, ast.Name) and a.id in defs]
        if not fnarg:
            bad.append(f"`{unparse(c)[:50]}` does not use the parameter-replacing function")
        used |= {a.id for a in fnarg}
    ctx.require(used, f"{f2.key}: the replacing function is not a nested def")
    rep = defs[sorted(used)[0]]
    SR = _S(ctx, rep)
    p0 = rep.args.args[0].arg if rep.args.args else None
    lookups = set()
    rets = [r_ for r_ in walk_local(rep) if isinstance(r_, ast.Return) and r_.value is not None
            and not (isinstance(r_.value, ast.Constant) and r_.value.value is None)]
    if not rets:
        bad.append("the replacing function never returns a replacement")
    for r_ in rets:
        for a in SR.alts(r_.value, SR.node_of(r_.value)):
            okr = isinstance(a, ast.Subscript) and isinstance(a.value, ast.Name) and a.value.id not in local_names(rep) \
                and _attr_is(a.slice, "key", p0)
            if okr:
                lookups.add(a.value.id)
            else:
                bad.append(f"the replacement returned is `{unparse(a)[:50]}`, not the per-invocation parameter with the visited parameter's key")
    for nm in lookups:
        for a in S2.free(ast.Name(id=nm, ctx=ast.Load()), rep):
            okd = isinstance(a, ast.DictComp) and len(a.generators) == 1 and _top_attr(a.generators[0].iter) == "_resolved_bindparams" \
                and isinstance(getattr_norm(a.generators[0].iter)[0], ast.Name) and getattr_norm(a.generators[0].iter)[0].id == "self" \
                and isinstance(a.key, ast.Attribute) and a.key.attr == "key" and is_pseudo(a.key.value, ELEM) and is_pseudo(a.value, ELEM)
            if not okd:
                bad.append(f"the lookup the replacement comes from is `{unparse(a)[:70]}`, not {{p.key: p for p in self._resolved_bindparams}}")
    ctx.check(not bad, f"{f2.key}:replace-by-key-from-per-invocation-list", "; ".join(sorted(set(bad))),
              "BindParameter with a known key -> the per-invocation parameter of that key", loc(f2, rep))
    g2 = S2.g
    tn = [S2.node_of(c) for c in trav]
    cut = set()
    for n in g2.nodes:
        if n.kind == "test":
            for lab in ("true", "false"):
                for t, pol in conj(n.stmt.test, lab == "true"):
                    if not pol and ("is_clause_element" in unparse(t)):
                        cut.add((n.id, lab))
    w = g2.witness([g2.entry], [g2.exit], avoid=tn, edge_ok=lambda a, b, lab: lab != "exc" and (a, lab) not in cut)
    ctx.check(w is None, f"{f2.key}:every-expression-shape-traversed",
              "a SQL expression (or a list of them) is returned without the replacement traversal",
              "sequence and single clause element are both traversed", loc(f2), g2.describe_path(w) if w else None)
    # ---- C4: _resolve_with_args
    f3 = ctx.func(f"{LAM}::DeferredLambdaElement._resolve_with_args")
    S3 = _S(ctx, f3)
    bad = []
    rets = [r_ for r_ in walk_local(f3.node) if isinstance(r_, ast.Return) and r_.value is not None]
    ctx.require(rets, f"{f3.key}: no return")
    for r_ in rets:
        alts = S3.alts(r_.value, S3.node_of(r_.value))
        settled = [a for a in alts if not _has_cyc(a)] or alts
        for a in settled:
            sp = [c for c in ast.walk(a) if isinstance(c, ast.Call) and _self_call(c) == "_setup_binds_for_tracked_expr"]
            if not sp:
                bad.append("the expression built by the instrumented function at compile time is returned with the parameters of the "
                           "invocation that built the record")
            elif not all(any(_has_sa_attr(x, "tracker_instrumented_fn") for x in ast.walk(c)) for c in sp):
                bad.append("what is spliced is not the instrumented function's result")
    ctx.check(not bad, f"{f3.key}:parameters-spliced", "; ".join(sorted(set(bad))) + " -- with_loader_criteria(A, lambda cls: cls.x == v) with v changing",
              "tracker_instrumented_fn(*args) -> _setup_binds_for_tracked_expr", loc(f3))
    # ---- C5 .. C7: _gen_cache_key
    f4 = ctx.func(f"{LE}._gen_cache_key")
    S4, g4 = _S(ctx, f4), None
    g4 = S4.g
    ctx.require(len(f4.params) >= 3, f"{f4.key}: expected (self, anon_map, bindparams)")
    amap, blist = f4.params[1], f4.params[2]
    rets = [r_ for r_ in walk_local(f4.node) if isinstance(r_, ast.Return) and r_.value is not None
            and not (isinstance(r_.value, ast.Constant) and r_.value.value is None)]
    bad = []
    if not rets:
        bad.append("no key is returned")
    for r_ in rets:
        alts = S4.alts(r_.value, S4.node_of(r_.value))
        base = [a for a in alts if not _bare_cyc(a)] or alts         # what the accumulator starts from / is rebuilt as
        own_ok = all(any(_attr_is(n, "closure_cache_key", "self") for n in ast.walk(a)) for a in base)
        code_ok = all(any(_attr_is(n, "__code__") and _attr_is(getattr_norm(n)[0], "fn", "self") for n in ast.walk(a)) for a in base)
        # (str2-z2, seed C17_1) "the parents" is the whole chain: a component read off `self.parent_lambda` only names the
        # immediate parent; the chain is covered when the object it is read off is also the loop carried walker
        # (`p = p.parent_lambda`) or when the parent is asked for its own key (recursion).  The closure keys of the chain
        # may instead arrive inside self.closure_cache_key: _retrieve_tracker_rec publishes parent key + own key (C17-R2
        # judges that composition), which is transitive by construction; code objects have no such second route.
        deleg = _chain_reach(ctx, [n.func.value for a in alts for n in ast.walk(a) if isinstance(n, ast.Call)
                                   and isinstance(n.func, ast.Attribute) and n.func.attr in ("_gen_cache_key", "_generate_cache_key")])
        ck = _chain_reach(ctx, [getattr_norm(n)[0] for a in alts for n in ast.walk(a)
                                if _attr_is(n, "closure_cache_key") and not _attr_is(n, "closure_cache_key", "self")])
        cd = _chain_reach(ctx, [getattr_norm(getattr_norm(n)[0])[0] for a in alts for n in ast.walk(a)
                                if _attr_is(n, "__code__") and _attr_is(getattr_norm(n)[0], "fn") and not _attr_is(getattr_norm(n)[0], "fn", "self")])
        published = _published_parent_prefix(ctx)
        if not own_ok:
            bad.append("the key lacks the element's closure cache key (structure-changing closure values)")
        if not code_ok:
            bad.append("the key lacks the lambda's code object")
        if not (published or deleg == "chain" or ck == "chain"):
            bad.append("the key lacks the parent elements' closure cache keys" if ck is None and deleg is None else
                       "only the immediate parent's closure cache key is part of the key and the published closure key does not carry "
                       "the chain either: elements above it are not represented")
        if deleg == "chain" or cd == "chain":
            pass
        elif cd is None and deleg is None:
            bad.append("the key lacks the parent lambdas' code objects")
        elif cd == "first" or deleg == "first":
            bad.append("only the immediate parent's code object is part of the key, the lambdas above it are not: two statements of three "
                       "or more links that differ only in the root lambda (another table, no closure variable) share one compiled form "
                       "and the second executes the first one's SQL")
        else:
            bad.append("the walk over the parent lambdas does not start at the immediate parent: its code object is missing from the key")
        # the contribution of an ancestor is conditional on nothing but its existence
        for n in g4.nodes:
            if n.kind != "stmt" or not isinstance(n.stmt, (ast.Assign, ast.AugAssign, ast.AnnAssign)) or n.stmt.value is None:
                continue
            if not any(_attr_is(x, "__code__") and not _attr_is(getattr_norm(x)[0], "fn", "self") for x in ast.walk(n.stmt.value)):
                continue
            for t, pol in S4.guards(n.id):
                if isinstance(t, ast.Constant):
                    continue
                subj = t.left if isinstance(t, ast.Compare) else t
                sa = S4.alts(subj, S4.node_of(subj)) if S4.node_of(subj) is not None else [subj]
                sa = [a for a in sa if not isinstance(a, ast.Constant)] or sa
                is_link = all(_top_attr(a) == "parent_lambda" or (isinstance(a, ast.Name) and a.id.startswith(CYC)) for a in sa)
                exist = is_link and (pol if not isinstance(t, ast.Compare) else (
                    len(t.ops) == 1 and isinstance(t.ops[0], (ast.Is, ast.IsNot)) and isinstance(t.comparators[0], ast.Constant)
                    and t.comparators[0].value is None and pol == isinstance(t.ops[0], ast.IsNot)))
                nocache = _nocache_atom(t) is not None
                if not (exist or nocache):
                    bad.append(f"an ancestor's contribution to the key is conditional on `{unparse(orig(t))[:60]}`")
    ctx.check(not bad, f"{f4.key}:key-components", "; ".join(sorted(set(bad))) + " -- two statements differing in a closure column share one compiled form",
              "code + closure key of the element and of every parent", loc(f4))
    ext = [c for c in calls_in(f4.node) if isinstance(c.func, ast.Attribute) and c.func.attr in ("extend", "__iadd__")
           and isinstance(c.func.value, ast.Name) and c.func.value.id == blist and c.args
           and any(_attr_is(a, "_resolved_bindparams", "self") for a in S4.ctx_alts(c.args[0]))]
    extn = [S4.node_of(c) for c in ext]
    for n in g4.nodes:
        if n.kind == "stmt" and isinstance(n.stmt, ast.AugAssign) and isinstance(n.stmt.target, ast.Name) and n.stmt.target.id == blist \
                and _attr_is(n.stmt.value, "_resolved_bindparams", "self"):
            extn.append(n.id)
    bad = []
    if not extn:
        bad.append("the per-invocation parameters are never added to the extracted parameters")
    else:
        retn = [S4.node_of(r_.value) for r_ in rets]
        cut = _falsy_edges(S4, "_resolved_bindparams")
        w = g4.witness([g4.entry], retn, avoid=extn, edge_ok=lambda a, b, lab: lab != "exc" and (a, lab) not in cut)
        if w is not None:
            bad.append("a key is returned without adding the per-invocation parameters to the extracted parameters")
    ctx.check(not bad, f"{f4.key}:parameters-extracted", "; ".join(bad) + " -- the compiled form is shared through the compiled cache and takes "
              "its values from the extracted parameters: go(5); go(7) executes with 5", f"{blist}.extend(self._resolved_bindparams) before every key", loc(f4))
    marks = [n for n in walk_local(f4.node) if isinstance(n, ast.Subscript) and isinstance(n.ctx, ast.Store)
             and isinstance(n.value, ast.Name) and n.value.id == amap and _is_nocache(n.slice)]
    bad = []
    if not marks:
        bad.append("an uncacheable element does not mark the anon_map NO_CACHE")
    for mk in marks:
        g_ok = any(pol and _nocache_atom(t) is not None and _nocache_atom(t)[0] == "is" and _attr_is(_nocache_atom(t)[1], "closure_cache_key", "self")
                   for t, pol in S4.guards(S4.node_of(mk)))
        if not g_ok:
            bad.append("the NO_CACHE mark does not depend on self.closure_cache_key being NO_CACHE")
    for r_ in rets:
        g_ok = any((not pol) and _nocache_atom(t) is not None and _attr_is(_nocache_atom(t)[1], "closure_cache_key", "self")
                   for t, pol in S4.guards(S4.node_of(r_.value)))
        if not g_ok:
            bad.append("a key is returned also when self.closure_cache_key is NO_CACHE")
    ctx.check(not bad, f"{f4.key}:no-cache-marked", "; ".join(sorted(set(bad))) + " -- a statement with an uncacheable closure element would be "
              "served from the compiled cache", "NO_CACHE closure key -> anon_map[NO_CACHE] = True, no key", loc(f4))


R.mutant("r5-resolved-returns-cached-expression", LAM,
         sub("        if self._resolved_bindparams:\n            expr = self._setup_binds_for_tracked_expr(expr)\n\n        return expr\n\n    def _gen_cache_key",
             "        if not self._resolved_bindparams:\n            expr = self._setup_binds_for_tracked_expr(expr)\n\n        return expr\n\n    def _gen_cache_key"), "C17-R5")
R.mutant("r5-replace-returns-visited", LAM, sub("                    return bind\n", "                    return element\n"), "C17-R5")
R.mutant("r5-lookup-from-record", LAM,
         sub("        bindparam_lookup = {b.key: b for b in self._resolved_bindparams}", "        bindparam_lookup = {b.key: b for b in self._rec.closure_bindparams or ()}"), "C17-R5")
R.mutant("r5-sequence-not-traversed", LAM,
         sub("        if self._rec.is_sequence:\n            expr = [\n                visitors.replacement_traverse(sub_expr, {}, replace)\n                for sub_expr in expr\n            ]\n        elif getattr",
             "        if self._rec.is_sequence:\n            expr = list(expr)\n        elif getattr"), "C17-R5")
R.mutant("r5-resolve-with-args-unspliced", LAM,
         sub("        expr = self._setup_binds_for_tracked_expr(expr)\n\n        # this validation is getting very close", "        # this validation is getting very close"), "C17-R5")
R.mutant("r5-cache-key-without-closure-key", LAM,
         sub("        cache_key = (\n            self.fn.__code__,\n            self.__class__,\n        ) + self.closure_cache_key\n",
             "        cache_key = (\n            self.fn.__code__,\n            self.__class__,\n        )\n"), "C17-R5")
# (str2-z2) was a breaking mutant of R5; it is behaviour preserving: self.closure_cache_key of a linked element is published by
# _retrieve_tracker_rec as <parent's published key> + <own key>, so the closure keys of the whole chain are in the key already
R.mutant("benign-r5-parent-closure-key-only-through-published-key", LAM,
         sub("                (parent.fn.__code__,) + parent_closure_cache_key + cache_key\n", "                (parent.fn.__code__,) + cache_key\n"), None)
R.mutant("r5-parent-closure-keys-on-no-route", LAM,
         chain(sub("                (parent.fn.__code__,) + parent_closure_cache_key + cache_key\n", "                (parent.fn.__code__,) + cache_key\n"),
               sub("                cache_key = parent_closure_cache_key + cache_key\n", "                cache_key = cache_key + ()\n")), "C17-R5")
# seed C17_1 and its family: not every lambda of the chain is named by the compiled-cache key
_R5_WALK = "        while parent is not None:\n            assert parent.closure_cache_key is not CacheConst.NO_CACHE\n"
R.mutant("r5-only-immediate-parent-code", LAM,
         chain(sub(_R5_WALK, "        if parent is not None:\n            assert parent.closure_cache_key is not CacheConst.NO_CACHE\n"),
               sub("                (parent.fn.__code__,) + parent_closure_cache_key + cache_key\n            )\n\n            parent = parent.parent_lambda\n",
                   "                (parent.fn.__code__,) + parent_closure_cache_key + cache_key\n            )\n")), "C17-R5")
R.mutant("r5-walk-left-after-first-parent", LAM,
         sub("            parent = parent.parent_lambda\n\n        if self._resolved_bindparams:\n            bindparams.extend",
             "            break\n\n        if self._resolved_bindparams:\n            bindparams.extend"), "C17-R5")
R.mutant("r5-walk-starts-above-immediate-parent", LAM,
         sub("        parent = self.parent_lambda\n\n        while parent is not None:\n",
             "        parent = (\n            self.parent_lambda.parent_lambda\n            if self.parent_lambda is not None\n            else None\n        )\n\n        while parent is not None:\n"), "C17-R5")
R.mutant("r5-ancestor-code-only-with-own-parameters", LAM,
         sub("            cache_key = (\n                (parent.fn.__code__,) + parent_closure_cache_key + cache_key\n            )\n",
             "            if parent._resolved_bindparams:\n                cache_key = (\n                    (parent.fn.__code__,) + parent_closure_cache_key + cache_key\n                )\n            else:\n                cache_key = parent_closure_cache_key + cache_key\n"), "C17-R5")
R.mutant("benign-r5-walk-as-while-true", LAM,
         sub(_R5_WALK, "        while True:\n            if parent is None:\n                break\n            assert parent.closure_cache_key is not CacheConst.NO_CACHE\n"), None)
R.mutant("benign-r5-walk-through-generator-helper", LAM,
         chain(sub("        parent = self.parent_lambda\n\n" + _R5_WALK, "        for parent in self._lambdas_above():\n            assert parent.closure_cache_key is not CacheConst.NO_CACHE\n"),
               sub("                (parent.fn.__code__,) + parent_closure_cache_key + cache_key\n            )\n\n            parent = parent.parent_lambda\n",
                   "                (parent.fn.__code__,) + parent_closure_cache_key + cache_key\n            )\n"),
               sub("    def _invoke_user_fn(self, fn: _AnyLambdaType, *arg: Any) -> ClauseElement:\n        return fn()  # type: ignore[no-any-return]\n",
                   "    def _lambdas_above(self):\n        above = self.parent_lambda\n        while above is not None:\n            yield above\n            above = above.parent_lambda\n\n"
                   "    def _invoke_user_fn(self, fn: _AnyLambdaType, *arg: Any) -> ClauseElement:\n        return fn()  # type: ignore[no-any-return]\n")), None)
R.mutant("r5-parameters-not-extracted", LAM,
         sub("        if self._resolved_bindparams:\n            bindparams.extend(self._resolved_bindparams)\n        return cache_key", "        return cache_key"), "C17-R5")
R.mutant("r5-no-cache-not-marked", LAM,
         sub("        if self.closure_cache_key is _cache_key.NO_CACHE:\n            anon_map[_cache_key.NO_CACHE] = True\n            return None\n",
             "        if self.closure_cache_key is _cache_key.NO_CACHE:\n            return None\n"), "C17-R5")
R.mutant("benign-r5-restructured", LAM,
         chain(sub("        expr = self._rec.expected_expr\n\n        if self._resolved_bindparams:\n            expr = self._setup_binds_for_tracked_expr(expr)\n\n        return expr\n\n    def _gen_cache_key",
                   "        cached = self._rec.expected_expr\n        if not self._resolved_bindparams:\n            return cached\n        return self._setup_binds_for_tracked_expr(cached)\n\n    def _gen_cache_key"),
               sub("        bindparam_lookup = {b.key: b for b in self._resolved_bindparams}", "        current = {p.key: p for p in self._resolved_bindparams}"),
               sub("                if element.key in bindparam_lookup:\n                    bind = bindparam_lookup[element.key]", "                if element.key in current:\n                    bind = current[element.key]"),
               sub("        if self._resolved_bindparams:\n            bindparams.extend(self._resolved_bindparams)\n        return cache_key",
                   "        mine = self._resolved_bindparams\n        if mine:\n            bindparams.extend(mine)\n        return cache_key")), None)


# ---------------------------------------------------------------------- C17-R7 (str2-z2): positional pairing of two cache keys
# CacheKey._apply_params_to_element(original_key, element) -> _OverrideBinds pairs the parameters of the two keys BY POSITION.
# That is only meaningful when both keys were produced by the same traversal.  The key of a LambdaElement is not produced by
# traversing its statement: _gen_cache_key extends the list with self._resolved_bindparams, i.e. the tracked closure
# parameters only, in tracker order (closure cells in co_freevars order = alphabetical, then recorded paths), whereas the
# key of the resolved statement lists every parameter in statement order.  A site that pairs "the key of the statement as
# it was executed" (QueryContext.query / .user_passed_query: may be a lambda statement) with "the key of the compiled
# statement" (compile_state.select_statement: always resolved) must therefore treat the lambda case separately.
CTXF = "orm/context.py"


def _as_passed_attrs(ctx) -> Set[str]:
    """attributes of QueryContext that hold the statement as it was handed to execute (never resolved): the constructor
    parameters that receive the caller's own `statement` at the QueryContext(...) construction sites"""
    init = ctx.func(f"{CTXF}::QueryContext.__init__")
    params = list(init.params)
    mod = ctx.index.module(CTXF)
    pos: Set[str] = set()
    for fi in ctx.index.all_functions(mod):
        for c in calls_in(fi.node):
            if (dotted(c.func) or "").split(".")[-1] != "QueryContext":
                continue
            b = bind_args(c, init.node) if callable(bind_args) else None
            if not isinstance(b, dict):
                continue
            for pn, v in b.items():
                if isinstance(v, ast.Name) and v.id in fi.params and v.id == "statement":
                    pos.add(pn)
    out: Set[str] = set()
    for t, n, st in attr_stores(init.node):
        if t.startswith("self.") and isinstance(getattr(st, "value", None), ast.Name) and st.value.id in pos:
            out.add(t.split(".", 1)[1])
    return out


@R.rule("C17-R7", floor=2, template="T-SIBLING",
        desc="every site that pairs the parameters of two cache keys by position (CacheKey._apply_params_to_element) takes both "
             "keys from statements of the same kind: the key of the statement as executed (may be a lambda statement: closure "
             "parameters only, tracker order) is not zipped with the key of the resolved, compiled statement (all parameters, "
             "statement order) unless the lambda case is split off")
def r7(ctx):
    as_passed = _as_passed_attrs(ctx)
    ctx.require(as_passed, f"{CTXF}::QueryContext.__init__: no attribute holds the statement as passed to execute")
    sites = []
    for m in list(ctx.index.modules.values()):
        if "_apply_params_to_element(" not in m.source:
            continue
        mod = ctx.index.module(m.relpath)
        for fi in ctx.index.all_functions(mod):
            for c in ast.walk(fi.node):
                if isinstance(c, ast.Call) and isinstance(c.func, ast.Attribute) and c.func.attr == "_apply_params_to_element" and c.args:
                    sites.append((fi, c))
    ctx.require(len(sites) >= 2, f"expected at least two sites that re-apply parameters to cached loader criteria, found {len(sites)}")
    for fi, c in sites:
        S = _S(ctx, fi)
        # the call may sit in a nested def: find it, and resolve its free variables in the enclosing function
        inner = None
        for d in nested_defs(fi.node):
            if any(x is c for x in ast.walk(d)):
                inner = d
        SI = _S(ctx, inner) if inner is not None else S

        def resolve(e):
            out = []
            for a in (SI.ctx_alts(e) if SI.node_of(e) is not None else [e]):
                out.extend(S.free(a, inner) if inner is not None else [a])
            return out

        def stmts(e):
            res = []
            for a in resolve(e):
                if isinstance(a, ast.Call) and isinstance(a.func, ast.Attribute) and a.func.attr == "_generate_cache_key":
                    res.append(a.func.value)
                else:
                    res.append(None)
            return res

        cur, org = stmts(c.func.value), stmts(c.args[0])
        ctx.require(cur and org and all(x is not None for x in cur + org),
                    f"{fi.key}: the keys paired by `{unparse(c)[:60]}` are not `<statement>._generate_cache_key()`")
        cur_attr = {_top_attr(x) for x in cur}
        org_attr = {_top_attr(x) for x in org}
        mixed = bool(cur_attr & as_passed) and not (org_attr & as_passed)
        split = False
        at = SI.node_of(c)
        for t, pol in (SI.guards(at) if at is not None else []):
            for a in resolve(t) if SI.node_of(t) is not None else [t]:
                if has_attr(a, "_is_lambda_element"):
                    split = True
        if inner is None and not split:
            pass
        ctx.check(not mixed or split, f"{fi.key}:cache-key-parameters-paired-by-position:same-kind-of-key",
                  f"`{unparse(c)[:70]}` zips the parameters of `{'/'.join(sorted(unparse(x)[:40] for x in cur))}` (the statement as executed: for a lambda "
                  f"statement its key lists the tracked closure parameters only, in closure-variable order) with those of "
                  f"`{'/'.join(sorted(unparse(x)[:40] for x in org))}` (the resolved statement: every parameter, statement order) and never asks "
                  "`_is_lambda_element` -- lambda_stmt(lambda: select(Order).options(selectinload(Order.lines.and_(Line.status == st, Line.qty >= mq)))): "
                  "from the second invocation on `st` is compared with mq's value and vice versa; with one closure value after a literal "
                  "written inside the lambda the closure value is not applied at all",
                  f"{'as-executed' if cur_attr & as_passed else 'other'} vs {'as-executed' if org_attr & as_passed else 'resolved'}"
                  + (", lambda case split off" if split else ""), loc(fi, c))


# no R.mutant for C17-R7 yet: both sites fire on the unchanged tree (genuine defect, findings/C17_obs_selectinload_and_two_closure_literals_swapped.py);
# with findings/C17_loader_criteria_lambda_params_by_key.fix.diff applied the rule is silent, and reverting either hunk of it is the breaking mutant.


# ---------------------------------------------------------------------- C17-R6: classification is exhaustive
def _append_nodes(S: Sub, fnode, list_attr: str) -> List[Tuple[int, ast.Call]]:
    out = []
    for c in calls_in(fnode):
        if isinstance(c.func, ast.Attribute) and c.func.attr in ("append", "extend") and c.args \
                and any(_top_attr(a) == list_attr for a in S.ctx_alts(c.func.value)):
            out.append((S.node_of(c), c))
    return out


def _edges_where(S: Sub, pred) -> Set[Tuple[int, str]]:
    """(test node, label) whose outcome includes an atom (expr alternatives, polarity) accepted by pred"""
    out = set()
    for n in S.g.nodes:
        if n.kind != "test":
            continue
        for lab in ("true", "false"):
            for t, pol in conj(n.stmt.test, lab == "true"):
                if pred(S.alts(t, n.id), pol, t):
                    out.add((n.id, lab))
    return out


def _loop_over(S: Sub, fnode, attr: str) -> List[ast.For]:
    return [n for n in walk_local(fnode) if isinstance(n, ast.For)
            and any(any(_strip_sa(x) == attr for _, x in attr_reads(a)) for a in S.ctx_alts(n.iter))]


def _every_iteration(S: Sub, loop: ast.For, through: List[int], cut: Set[Tuple[int, str]]):
    g = S.g
    fors = [n.id for n in g.nodes if n.kind == "for" and n.stmt is loop and not n.copy]
    body = [b for b, lab in g.succ[fors[0]] if lab == "true" and b not in through]
    if not body:
        return None
    w = g.witness(body, fors + [g.exit], avoid=through, edge_ok=lambda a, b, lab: lab != "exc" and (a, lab) not in cut)
    return g.describe_path(w) if w else None


def _default_truth(e: ast.AST, defaults: Dict[str, object]):
    """value of an option expression under the default LambdaOptions (None = cannot tell)"""
    if isinstance(e, ast.Constant):
        return e.value
    r = getattr_norm(e)
    if r is not None and r[1] in defaults and isinstance(r[0], ast.Name):
        return defaults[r[1]]
    if isinstance(e, ast.UnaryOp) and isinstance(e.op, ast.Not):
        v = _default_truth(e.operand, defaults)
        return None if v is _UNK else (not v)
    if isinstance(e, ast.BoolOp):
        vals = [_default_truth(v, defaults) for v in e.values]
        if any(v is _UNK for v in vals):
            return _UNK
        if isinstance(e.op, ast.And):
            for v in vals:
                if not v:
                    return v
            return vals[-1]
        for v in vals:
            if v:
                return v
        return vals[-1]
    return _UNK


_UNK = object()


def _outcome(test: ast.expr, atom: ast.AST, pol: bool) -> bool:
    """the outcome (True/False edge) of `test` under which `atom` has polarity `pol`"""
    for lab in (True, False):
        for t, p in conj(test, lab):
            if (orig(t) is orig(atom) or t is atom) and p == pol:
                return lab
    return pol


@R.rule("C17-R6", floor=9, template="T-EXHAUST/T-PATH",
        desc="AnalyzedCode classifies every closure cell (wrapped as potential bound value / cache-key tracked / rejected) and "
             "every literal global; a wrapped value always gets its bound-value getter for the same name / index; wrappers "
             "that did not become parameters become cache-key trackers; the phases run unless a documented option turns "
             "them off and all option guards are on under the default LambdaOptions")
def r6(ctx):
    code = _code(ctx)
    meths = code.methods
    # ---- locate the phases
    def find(attr):
        hits = [(m, lp) for nm, m in sorted(meths.items()) for lp in _loop_over(_S(ctx, m), m.node, attr)]
        ctx.require(len(hits) == 1, f"AnalyzedCode: expected one loop over `{attr}`, found {len(hits)}")
        return hits[0]
    mc, lc = find("co_freevars")
    mg, lg = find("co_names")
    mp, lpw = find("closure_pywrappers")
    opt_off = lambda name: (lambda alts, pol, t: (not pol) and any(_top_attr(a) == name for a in alts))
    # ---- E1 closure cells
    S = _S(ctx, mc)
    wraps = _append_nodes(S, mc.node, "build_py_wrappers")
    keys = _append_nodes(S, mc.node, "closure_trackers")
    binds = _append_nodes(S, mc.node, "bindparam_trackers")
    ctx.require(wraps and keys and binds, f"{mc.key}: registration sites not found (wrappers {len(wraps)}, key getters {len(keys)}, bound getters {len(binds)})")
    cut = _edges_where(S, opt_off("track_closure_variables"))
    w = _every_iteration(S, lc, [n for n, _ in wraps + keys], cut)
    ctx.check(w is None, f"{mc.key}:every-cell-classified",
              "a closure cell can be skipped: it is neither wrapped as a potential bound value nor made part of the cache key nor rejected -- "
              "its later values are invisible (stale SQL or stale parameter)",
              "each cell: wrapper | cache-key getter | error (only track_closure_variables=False skips)", loc(mc, lc), w)
    cutb = _edges_where(S, opt_off("track_bound_values"))
    bad = []
    for n, c in wraps:
        w = S.g.witness([b for b in normal_succ(S.g, n)], [i.id for i in S.g.nodes if i.kind == "for" and i.stmt is lc] + [S.g.exit],
                        avoid=[bn for bn, _ in binds], edge_ok=lambda a, b, lab: lab != "exc" and (a, lab) not in cutb)
        if w is not None and normal_succ(S.g, n)[0] not in [bn for bn, _ in binds]:
            bad.append("a wrapped cell gets no bound-value getter although track_bound_values is on")
        for a in S.ctx_alts(c.args[0]):
            okt = isinstance(a, ast.Tuple) and len(a.elts) == 2 and is_pseudo(a.elts[0], ELEM) and _top_attr(a.elts[0].args[0]) == "co_freevars" \
                and isinstance(a.elts[1], ast.Name) and a.elts[1].id == INDEX
            if not okt:
                bad.append(f"the wrapper is registered as `{unparse(a)[:50]}`, not (free variable name, its cell index)")
            else:
                for bn, bc in binds:
                    for fa in [x for alt in S.ctx_alts(bc) for x in ast.walk(alt) if isinstance(x, ast.Call) and _self_call(x) in meths]:
                        if [ast.dump(x) for x in fa.args[:2]] != [ast.dump(x) for x in a.elts]:
                            bad.append("the bound-value getter is created for another name / cell index than the wrapper")
    for kn, kc in keys:
        for fa in [x for alt in S.ctx_alts(kc) for x in ast.walk(alt) if isinstance(x, ast.Call) and _self_call(x) in meths]:
            idx = [x for x in fa.args if isinstance(x, ast.Name) and x.id == INDEX]
            cellv = [x for x in fa.args if _top_attr(x) == "cell_contents"]
            if not idx or not cellv:
                bad.append("the cache-key getter is not created for this cell's index and contents")
    ctx.check(not bad, f"{mc.key}:wrapper-and-getters-same-cell", "; ".join(sorted(set(bad))), "(name, index) of the loop's own cell everywhere", loc(mc, lc))
    # ---- E3 globals
    S = _S(ctx, mg)
    wraps = _append_nodes(S, mg.node, "build_py_wrappers")
    binds = _append_nodes(S, mg.node, "bindparam_trackers")
    ctx.require(wraps and binds, f"{mg.key}: registration sites not found")
    skip = _edges_where(S, lambda alts, pol, t: (not pol) and (
        any(isinstance(a, ast.Call) and (dotted(a.func) or "").endswith("_deep_is_literal") for a in alts)
        or any(isinstance(a, ast.Compare) and isinstance(a.ops[0], ast.In) and _top_attr(a.comparators[0]) == "__globals__" for a in alts)))
    w = _every_iteration(S, lg, [n for n, _ in wraps], skip)
    bad = []
    if w is not None:
        bad.append("a literal global the lambda refers to can be left unwrapped")
    for n, c in wraps:
        w2 = S.g.witness([b for b in normal_succ(S.g, n) if b not in [bn for bn, _ in binds]],
                         [i.id for i in S.g.nodes if i.kind == "for" and i.stmt is lg] + [S.g.exit],
                         avoid=[bn for bn, _ in binds], edge_ok=lambda a, b, lab: lab != "exc" and (a, lab) not in _edges_where(S, opt_off("track_bound_values")))
        if w2 is not None:
            bad.append("a wrapped global gets no bound-value getter although track_bound_values is on")
        for a in S.ctx_alts(c.args[0]):
            okt = isinstance(a, ast.Tuple) and len(a.elts) == 2 and is_pseudo(a.elts[0], ELEM) and _top_attr(a.elts[0].args[0]) == "co_names" \
                and isinstance(a.elts[1], ast.Constant) and a.elts[1].value is None
            if not okt:
                bad.append(f"the global wrapper is registered as `{unparse(a)[:50]}`, not (global name, None)")
            else:
                for bn, bc in binds:
                    for fa in [x for alt in S.ctx_alts(bc) for x in ast.walk(alt) if isinstance(x, ast.Call) and _self_call(x) in meths]:
                        if not fa.args or ast.dump(fa.args[0]) != ast.dump(a.elts[0]):
                            bad.append("the bound-value getter is created for another global name than the wrapper")
    ctx.check(not bad, f"{mg.key}:literal-globals-wrapped", "; ".join(sorted(set(bad))) + " -- LIMIT = 5 at module level, lambda: t.c.q == LIMIT, LIMIT = 7",
              "every literal global named by the code object: wrapper + bound-value getter of the same name", loc(mg, lg), w)
    # ---- E4 wrappers that did not become parameters
    S = _S(ctx, mp)
    keys = _append_nodes(S, mp.node, "closure_trackers")
    bad = []
    if not keys:
        bad.append("wrappers that produced no parameter are not added to the cache key")
    else:
        has = _edges_where(S, lambda alts, pol, t: pol and any(_has_sa_attr(a, "_has_param") for a in alts))
        w = _every_iteration(S, lpw, [n for n, _ in keys], has)
        if w is not None:
            bad.append("a wrapper that produced no parameter can be skipped")
        for kn, kc in keys:
            facts = [x for alt in S.ctx_alts(kc) for x in ast.walk(alt) if isinstance(x, ast.Call) and _self_call(x) in meths]
            if not facts or not all(any(is_pseudo(x, ELEM) for x in fa.args) for fa in facts):
                bad.append("the cache-key getter is not created from the wrapper in hand")
    ctx.check(not bad, f"{mp.key}:unbound-wrappers-become-key", "; ".join(bad) + " -- def go(flag): lambda: select(t).where(t.c.q > 1) if flag else select(t); "
              "go(True); go(False) returns the first statement", "every closure wrapper without parameter -> cache-key getter", loc(mp, lpw))
    # ---- E5 phases are called
    init = ctx.func(f"{AC}.__init__")
    S = _S(ctx, init)
    phases = sorted({m.name for k, m, c, facts in code.regs} | {mp.name})
    allowed = ("enable_tracking", "track_on", "__closure__")
    for ph in phases:
        if ph == "__init__":
            continue
        calls = [c for c in calls_in(init.node) if _self_call(c) == ph]
        bad = []
        if not calls:
            bad.append(f"AnalyzedCode.__init__ never runs {ph}")
        for c in calls:
            for t, pol in S.guards(S.node_of(c)):
                alts = S.alts(t, S.node_of(t) if S.node_of(t) is not None else S.node_of(c))
                takes_track_on = any(_top_attr(a) == "track_on" for x in c.args for a in S.ctx_alts(x))
                ok_attrs = allowed if takes_track_on else tuple(a for a in allowed if a != "track_on")
                if pol and all(_top_attr(a) in ok_attrs for a in alts):
                    continue
                tn = S.node_of(t)
                if tn is not None and S.g.nodes[tn].kind == "test":
                    # the other outcome rejects the lambda with an error: not a way of skipping the phase
                    others = [b for b, lab in S.g.succ[tn] if lab in ("true", "false") and (lab == "true") != _outcome(S.g.nodes[tn].stmt.test, t, pol)]
                    if others and S.g.exit not in S.g.reachable(others):
                        continue
                bad.append(f"{ph} runs only if `{unparse(orig(t))[:40]}` is {pol}")
        ctx.check(not bad, f"{init.key}:phase[{ph}]", "; ".join(bad), "runs unless enable_tracking / track_on / an empty closure say otherwise", loc(init))
    # ---- E7 defaults
    ocls = ctx.index.cls(f"{LAM}::LambdaOptions")
    defaults: Dict[str, object] = {}
    for k, vs in ocls.assigns.items():
        if len(vs) == 1 and isinstance(vs[0], ast.Constant):
            defaults[k] = vs[0].value
    ctx.require({"enable_tracking", "track_closure_variables", "track_bound_values"} <= set(defaults), "LambdaOptions defaults not readable")
    bad = []
    seen = 0
    for t, n, st in attr_stores(init.node):
        if t in ("self.track_bound_values", "self.track_closure_variables"):
            seen += 1
            for a in S.alts(st.value, S.g.nodes_for(st)[0]):
                v = _default_truth(a, defaults)
                ctx.require(v is not _UNK, f"{init.key}: `{unparse(a)[:60]}` cannot be evaluated under the default options")
                if not v:
                    bad.append(f"{t} = `{unparse(a)[:60]}` is off under the default LambdaOptions")
    ctx.require(seen >= 2, f"{init.key}: track_bound_values / track_closure_variables flags not assigned")
    for ph in phases:
        for c in [c for c in calls_in(init.node) if _self_call(c) == ph]:
            for t, pol in S.guards(S.node_of(c)):
                for a in S.alts(t, S.node_of(t) if S.node_of(t) is not None else S.node_of(c)):
                    if _top_attr(a) == "enable_tracking":
                        v = _default_truth(a, defaults)
                        if v is _UNK or bool(v) != pol:
                            bad.append(f"{ph} does not run under the default enable_tracking")
    ctx.check(not bad, f"{init.key}:tracking-on-by-default", "; ".join(sorted(set(bad))) + " -- plain lambda_stmt(lambda: ...) would track nothing",
              "track_bound_values, track_closure_variables and enable_tracking evaluate true for the default options", loc(init))


R.mutant("r6-strings-skipped", LAM,
         sub("            _bound_value = self._roll_down_to_literal(cell.cell_contents)\n\n            if coercions._deep_is_literal(_bound_value):\n                build_py_wrappers.append((fv, closure_index))",
             "            _bound_value = self._roll_down_to_literal(cell.cell_contents)\n\n            if isinstance(_bound_value, str):\n                continue\n            if coercions._deep_is_literal(_bound_value):\n                build_py_wrappers.append((fv, closure_index))"), "C17-R6")
R.mutant("r6-wrapper-other-index", LAM, sub("                build_py_wrappers.append((fv, closure_index))", "                build_py_wrappers.append((fv, 0))"), "C17-R6")
R.mutant("r6-no-bound-getter-for-cells", LAM,
         sub("                if track_bound_values:\n                    bindparam_trackers.append(\n                        self._bound_parameter_getter_func_closure(",
             "                if track_bound_values and closure_index:\n                    bindparam_trackers.append(\n                        self._bound_parameter_getter_func_closure("), "C17-R6")
R.mutant("r6-unbound-wrappers-not-keyed", LAM,
         sub("            if not pywrapper._sa__has_param:\n", "            if not pywrapper._sa__has_param and not closure_trackers:\n"), "C17-R6")
R.mutant("r6-closure-phase-needs-track-on", LAM, sub("            if closure:\n                self._init_closure(fn)", "            if closure and track_on:\n                self._init_closure(fn)"), "C17-R6")
R.mutant("r6-bound-values-off-by-default", LAM,
         sub("            opts.track_bound_values and opts.global_track_bound_values\n", "            opts.track_bound_values and not opts.global_track_bound_values\n"), "C17-R6")
R.mutant("r6-closure-tracking-off-by-default", LAM,
         sub("        self.track_closure_variables = track_closure_variables and not track_on\n", "        self.track_closure_variables = track_closure_variables and track_on\n"), "C17-R6")
R.mutant("r6-global-getter-other-name", LAM,
         sub("                        self._bound_parameter_getter_func_globals(name)\n", "                        self._bound_parameter_getter_func_globals(fn.__name__)\n"), "C17-R6")
R.mutant("benign-r6-loops-restructured", LAM,
         chain(sub("            if name not in fn.__globals__:\n                continue\n\n            _bound_value = self._roll_down_to_literal(fn.__globals__[name])\n\n            if coercions._deep_is_literal(_bound_value):\n                build_py_wrappers.append((name, None))\n                if track_bound_values:\n                    bindparam_trackers.append(\n                        self._bound_parameter_getter_func_globals(name)\n                    )",
                   "            if name in fn.__globals__:\n                candidate = self._roll_down_to_literal(fn.__globals__[name])\n                if not coercions._deep_is_literal(candidate):\n                    continue\n                build_py_wrappers.append((name, None))\n                if not track_bound_values:\n                    continue\n                getter = self._bound_parameter_getter_func_globals(name)\n                bindparam_trackers.append(getter)"),
               sub("            if not pywrapper._sa__has_param:\n                closure_trackers.append(\n                    self._cache_key_getter_tracked_literal(fn, pywrapper)\n                )",
                   "            if pywrapper._sa__has_param:\n                continue\n            closure_trackers.append(\n                self._cache_key_getter_tracked_literal(fn, pywrapper)\n            )")), None)

R.mutant("benign-r3-extracted-helpers", LAM,
         chain(sub("        else:\n" + _HIT, "        else:\n            self._rekey_closure_binds(rec, bindparams)\n"),
               sub("    def __getattr__(self, key):\n        return getattr(self._resolved, key)\n\n    @property\n    def _is_sequence(self):",
                   "    def _rekey_closure_binds(self, rec, bindparams):\n        bindparams[:] = [\n            cached._with_value(fresh.value, maintain_key=True)\n"
                   "            for cached, fresh in zip(rec.closure_bindparams, bindparams)\n        ]\n\n"
                   "    def __getattr__(self, key):\n        return getattr(self._resolved, key)\n\n    @property\n    def _is_sequence(self):")), None)
