"""C03 -- Statement objects are immutable values; compilation is deterministic (copy-on-write discipline)."""

from __future__ import annotations

import ast
from typing import Dict, List, Optional, Set

from ..astutil import (
    call_name, calls_in, dotted, name_stores, unparse, walk_local, walk_stmts, returns_of, attr_stores,
)
from ..fresh import F, S, U, FreshAnalysis, join
from ..index import ClassInfo, FuncInfo
from ..report import Registry, sub

R = Registry(
    "C03",
    title="Statement objects are immutable values; compilation is deterministic",
    decides=(
        "copy-on-write discipline: every @_generative method (and every hand-written clone-then-modify "
        "function) mutates in place only containers it has rebound to a fresh copy, and uses `+=` only on "
        "attributes that hold immutable values; _generate()/_clone() never share __dict__ with the original "
        "and the decorator operates on the copy; compiler and CompileState methods store into / mutate an "
        "element only after rebinding it to a clone or a newly constructed element on every path; the "
        "name-producing functions of compilation use no hash()/id()/random/time source and no set iteration."
    ),
    not_decided=(
        "pickling/deepcopy equality of statements, thread-level atomicity of memoisation, legacy Query paths "
        "outside the decorator family, determinism of user-supplied type/compile hooks."
    ),
)

# construct key -> reason (confirmed by reading / executing)
R3_EXCEPTIONS = {
    "orm/context.py::_ORMSelectCompileState._create_orm_context:statement._compile_options":
        "idempotent in-place upgrade of the default (Core) compile-options object to the ORM options class via "
        "safe_merge(); cache key and rendered SQL are unchanged (executed: key before == key after)",
}
# variables that are compiler-owned scratch state, not statement elements
SCRATCH_ROOTS = {
    "from_linter": "FromLinter is per-compilation scratch state created by the compiler",
    "lateral_from_linter": "FromLinter is per-compilation scratch state created by the compiler",
    "compiler": "the compiler object of this compilation",
    "kw": "keyword dict of this call", "kwargs": "keyword dict of this call",
}
ELEMENT_CTOR_METHODS = {
    # methods that always build a new element (not decorated @_generative)
    "subquery", "alias", "select", "scalar_subquery", "label", "cte", "exists", "lateral", "as_scalar",
    "join", "outerjoin", "concat", "_rconcat", "traverse", "over", "filter", "within_group", "self_group",
    "_anonymous_fromclause", "corresponding_column", "_annotate", "_deannotate", "set_label_style",
    "add_columns", "with_only_columns", "options", "safe_merge", "union", "merge_with",
}


def _generative_names(ctx) -> Set[str]:
    out = set()
    for f in ctx.index.all_functions():
        if any(d.split(".")[-1] == "_generative" for d in f.decorators):
            out.add(f.name)
    return out


def _memoized_attr_names(ctx) -> Set[str]:
    out = set()
    for f in ctx.index.all_functions():
        if any("memoized" in d for d in f.decorators):
            out.add(f.name)
    return out


def _returns_param_or_fresh(ctx, f: FuncInfo, gen_names, depth=0) -> Optional[Set[int]]:
    """If every `return` of f yields either a fresh object or (a reassigned copy of) one of its own
    parameters, return the positional indexes (excluding self/cls) of those parameters; else None."""
    params = [p for p in f.params if p not in ("self", "cls")]
    idx = set()
    rets = returns_of(f.node)
    if not rets:
        return None
    an = _analysis(ctx, f, gen_names, {p: "P:" + p for p in params}, depth + 1)
    for r in rets:
        if r.value is None:
            return None
        if isinstance(r.value, ast.Name):
            nm = r.value.id
            nodes = an.cfg.nodes_for(r)
            for nid in nodes:
                st = an.pre.get(nid, {}).get(nm, S)
                if st == F:
                    continue
                if nm in params:
                    idx.add(params.index(nm))
                else:
                    return None
        else:
            if an.state(r.value, an.pre.get(an.cfg.nodes_for(r)[0], {})) != F:
                return None
    return idx


class _Tagged(FreshAnalysis):
    pass


def _analysis(ctx, f: FuncInfo, gen_names, entry_env, depth=0, assume_true=()) -> FreshAnalysis:
    g = ctx.cfg(f)
    mod = f.module
    # states "P:<name>" are not used by the lattice; map them to S
    env = {k: (S if str(v).startswith("P:") else v) for k, v in entry_env.items()}

    def fresh_call(call: ast.Call, state_of):
        nm = call_name(call) or ""
        short = nm.rsplit(".", 1)[-1]
        if short in gen_names or short in ELEMENT_CTOR_METHODS:
            return F
        # constructor of a class of the package / well-known element factory functions
        if isinstance(call.func, (ast.Name, ast.Attribute)) and "()" not in nm:
            r = ctx.index.resolve(mod, nm)
            if isinstance(r, ClassInfo):
                return F
            if isinstance(r, FuncInfo) and r.cls is None and short in ("select", "literal_column", "text", "label", "and_", "or_", "not_", "cast", "column", "table", "bindparam", "null", "true", "false"):
                return F
        # self.helper(..., v, ...) returning v-or-fresh
        if depth < 2 and isinstance(call.func, ast.Attribute) and isinstance(call.func.value, ast.Name) and call.func.value.id in ("self", "cls") and f.cls is not None:
            tgt = ctx.index.resolve_method(f.cls, short)
            if tgt is not None and tgt.node is not f.node:
                idx = _returns_param_or_fresh(ctx, tgt, gen_names, depth + 1)
                if idx is not None:
                    tparams = [p for p in tgt.params if p not in ("self", "cls")]
                    st = F
                    for i in idx:
                        arg = None
                        if i < len(call.args):
                            arg = call.args[i]
                        else:
                            for k in call.keywords:
                                if k.arg == tparams[i]:
                                    arg = k.value
                        if arg is None:
                            return U
                        st = join(st, state_of(arg))
                    return st
        return None

    return FreshAnalysis(g, env, fresh_call=fresh_call, assume_true=assume_true)


# ---------------------------------------------------------------------- value classification for `+=`
def _classify_value(ctx, expr, module, cls) -> str:
    """'immutable' | 'mutable' | 'unknown' for an expression bound to an attribute."""
    if isinstance(expr, ast.Tuple):
        return "immutable"
    if isinstance(expr, ast.Constant):
        return "immutable"
    if isinstance(expr, (ast.List, ast.Dict, ast.Set, ast.ListComp, ast.DictComp, ast.SetComp)):
        return "mutable"
    if isinstance(expr, ast.BinOp) and isinstance(expr.op, ast.Add):
        # the result of `a + b` has the type of a.__add__: decided by the left operand
        a = _classify_value(ctx, expr.left, module, cls)
        if a != "unknown":
            return a
        return _classify_value(ctx, expr.right, module, cls)
    if isinstance(expr, ast.Call):
        nm = call_name(expr) or ""
        short = nm.rsplit(".", 1)[-1]
        if short in ("tuple", "frozenset", "immutabledict", "union", "merge_with", "safe_merge", "from_execution_options"):
            return "immutable"
        if short in ("list", "dict", "set", "OrderedDict", "defaultdict"):
            return "mutable"
        r = ctx.index.resolve(module, nm) if "()" not in nm else None
        if isinstance(r, ClassInfo) and _is_options_class(ctx, r):
            return "immutable"
        return "unknown"
    if isinstance(expr, (ast.Name, ast.Attribute)):
        d = dotted(expr) or ""
        if d.rsplit(".", 1)[-1] in ("EMPTY_DICT", "EMPTY_SET", "immutabledict"):
            return "immutable"
        r = ctx.index.resolve(module, d) if d and "()" not in d else None
        if isinstance(r, ClassInfo) and _is_options_class(ctx, r):
            return "immutable"
        if isinstance(r, tuple) and r[0] == "classvalue":
            owner, nm = r[1], r[2]
            return _classify_value(ctx, owner.assigns[nm][-1], owner.module, owner)
        if isinstance(r, tuple) and r[0] == "value":
            m2, nm = r[1], r[2]
            return _classify_value(ctx, m2.assigns[nm][-1], m2, None)
        return "unknown"
    if isinstance(expr, ast.IfExp):
        a, b = _classify_value(ctx, expr.body, module, cls), _classify_value(ctx, expr.orelse, module, cls)
        if "mutable" in (a, b):
            return "mutable"
        return a if a == b else "unknown"
    return "unknown"


def _is_options_class(ctx, c: ClassInfo) -> bool:
    """Options subclasses: `+` builds a new object (checked: Options.__add__ never stores into self)."""
    return any(k.name == "Options" and k.module.relpath == "sql/base.py" for k in ctx.index.mro(c))


def _attr_bindings(ctx, cls: ClassInfo, attr: str):
    """All expressions bound to `attr` at class level or as `self.attr = expr` in the class family."""
    out = []
    fam = set(ctx.index.mro(cls)) | set(ctx.index.subclasses(cls))
    for k in ctx.index.mro(cls):
        fam |= set(ctx.index.subclasses(k)) if k.name not in ("object",) and k.module.relpath.startswith(("sql/", "orm/")) and attr in k.assigns else set()
    for k in fam:
        for v in k.assigns.get(attr, []):
            out.append((k, v))
        for m in k.methods.values():
            for st in walk_stmts(m.node.body):
                if isinstance(st, ast.Assign):
                    for t in st.targets:
                        if isinstance(t, ast.Attribute) and t.attr == attr and isinstance(t.value, ast.Name) and t.value.id == "self":
                            out.append((k, st.value))
    return out


@R.rule("C03-R1", floor=60, template="T-FRESH",
        desc="@_generative methods / clone-then-modify functions mutate in place only freshly rebound "
             "containers; `self.attr += v` only on attributes holding immutable values")
def r1(ctx):
    gen_names = _generative_names(ctx)
    memo = _memoized_attr_names(ctx)
    ctx.require(len(gen_names) >= 60, f"only {len(gen_names)} @_generative method names found")
    inplace_gen = ctx.index.cls("sql/base.py::InPlaceGenerative")
    opt = ctx.index.cls("sql/base.py::Options")
    # Options.__add__ must build a new object
    addf = ctx.index.resolve_method(opt, "__add__")
    ctx.require(addf is not None, "Options.__add__ missing")
    stores = [d for d, e, st in attr_stores(addf.node) if d.split(".")[0] == "self"]
    ctx.check(not stores, addf.key, f"Options.__add__ stores into self ({stores}): `opts += x` would mutate shared options",
              "builds a new Options object", addf.loc)
    n_methods = 0
    for f in sorted(ctx.index.all_functions(), key=lambda x: x.key):
        is_gen = any(d.split(".")[-1] == "_generative" for d in f.decorators)
        if not is_gen:
            continue
        if f.cls is not None and inplace_gen in ctx.index.mro(f.cls):
            ctx.ok(f.key, "InPlaceGenerative: documented in-place API (Result)", nontrivial=False)
            continue
        n_methods += 1
        an = _analysis(ctx, f, gen_names, {"self": F, "self.__dict__": F})
        bad = False
        for nid, kind, root, d, node in an.mutation_sinks():
            if root != "self":
                continue
            loc = f"{f.module.path}:{getattr(node, 'lineno', f.node.lineno)}"
            if kind == "inplace":
                path = ".".join(d.split(".")[:2])
                st = an.state_at(nid, path) if path != "self.__dict__" else an.state_at(nid, "self")
                if st != F:
                    bad = True
                    ctx.violation(f"{f.key}:{path}",
                                  f"in-place mutation `{unparse(node)[:80]}` of {path}, which is still shared with the "
                                  f"original statement (not rebound to a fresh copy on every path: state {st})", loc)
            elif kind == "attr-store" and isinstance(node, ast.AugAssign):
                attr = d.split(".")[1]
                binds = _attr_bindings(ctx, f.cls, attr) if f.cls is not None else []
                kinds = [(_classify_value(ctx, v, k.module, k), k, v) for k, v in binds]
                mut = [(k, v) for c, k, v in kinds if c == "mutable"]
                imm = [1 for c, k, v in kinds if c == "immutable"]
                if mut:
                    bad = True
                    k, v = mut[0]
                    ctx.violation(f"{f.key}:{d}+=",
                                  f"`{unparse(node)[:70]}`: {d} can hold a mutable value (`{unparse(v)[:50]}` in {k.key}); "
                                  f"`+=` then extends the container shared with the original statement", loc)
                elif not imm:
                    ctx.error(f"{f.key}: cannot classify the value held by {d} (no class-level default or assignment understood)")
        if not bad:
            ctx.ok(f.key, "copy-on-write respected")
    ctx.require(n_methods >= 90, f"only {n_methods} @_generative methods analysed")
    # hand-written clone-then-modify
    for f in sorted(ctx.index.all_functions(), key=lambda x: x.key):
        if not f.module.relpath.startswith(("sql/", "orm/")) or any(d.split(".")[-1] == "_generative" for d in f.decorators):
            continue
        clones = {n for n, v, st in name_stores(f.node)
                  if isinstance(v, ast.Call) and (call_name(v) or "").rsplit(".", 1)[-1] in ("_clone", "_generate")}
        if not clones:
            continue
        an = _analysis(ctx, f, gen_names, {p: S for p in f.params})
        bad = False
        seen_sink = False
        for nid, kind, root, d, node in an.mutation_sinks():
            if root not in clones or kind != "inplace":
                continue
            seen_sink = True
            path = ".".join(d.split(".")[:2])
            attr = d.split(".")[1]
            if attr == "__dict__":
                st = an.state_at(nid, root)
            elif attr in memo and an.state_at(nid, root) == F:
                st = F  # memoized attribute: _clone() drops memoized keys, first access on the copy builds a new value
            else:
                st = an.state_at(nid, path)
            if st != F:
                bad = True
                ctx.violation(f"{f.key}:{path}",
                              f"in-place mutation `{unparse(node)[:80]}` of {path} on a shallow clone: the container is "
                              f"shared with the original (state {st})", f"{f.module.path}:{node.lineno}")
        if seen_sink and not bad:
            ctx.ok(f.key, "mutates only fresh parts of its clone")


@R.rule("C03-R2", floor=4, template="T-FLOW",
        desc="_generate()/_clone() give the copy its own __dict__; the _generative decorator runs the method "
             "on the copy and returns the copy")
def r2(ctx):
    for key in ("sql/base.py::Generative._generate", "sql/elements.py::ClauseElement._clone"):
        f = ctx.func(key)
        stores = [(d, st) for d, e, st in attr_stores(f.node) if d.endswith(".__dict__")]
        ctx.require(stores, f"{key} no longer assigns __dict__ of the copy")
        good = True
        for d, st in stores:
            v = st.value
            txt = unparse(v)
            fresh = isinstance(v, ast.DictComp) or (isinstance(v, ast.Call) and (call_name(v) or "").endswith(".copy")) or \
                (isinstance(v, ast.Call) and call_name(v) == "dict")
            if not (fresh and "self.__dict__" in txt):
                good = False
        ctx.check(good, key, "the copy's __dict__ is not a fresh copy of self.__dict__ (attribute stores on the copy "
                             "would write through to the original)", "__dict__ copied", f.loc)
    # decorator
    m = ctx.index.module("sql/base.py")
    outer = ctx.func("sql/base.py::_generative")
    inner = [n for n in ast.walk(outer.node) if isinstance(n, ast.FunctionDef) and n is not outer.node]
    ctx.require(inner, "_generative has no inner wrapper")
    w = inner[0]
    g = ctx.cfg(w)
    gens = g.find_calls("_generate")
    fncalls = [n.id for n in g.nodes if n.stmt is not None and isinstance(n.stmt, ast.stmt) and any(
        isinstance(c.func, ast.Name) and c.func.id == "fn" for c in calls_in(n.stmt))]
    ctx.require(gens and fncalls, "_generative wrapper: no self._generate() / fn(...) call found")
    rebinds = [n for n in gens if isinstance(g.nodes[n].stmt, ast.Assign) and unparse(g.nodes[n].stmt.targets[0]) == "self"]
    w1 = g.always_preceded(fncalls[0], rebinds) if rebinds else ["no `self = self._generate()`"]
    call = [c for c in calls_in(g.nodes[fncalls[0]].stmt) if isinstance(c.func, ast.Name) and c.func.id == "fn"][0]
    passes_self = call.args and unparse(call.args[0]) == "self"
    rets = [r for r in returns_of(w) if r.value is not None]
    ret_self = rets and all(unparse(r.value) == "self" for r in rets)
    ctx.check(w1 is None and passes_self and ret_self, "sql/base.py::_generative",
              "the decorator does not (copy, call fn on the copy, return the copy)", "copy -> fn(copy) -> return copy",
              outer.loc, w1)
    ctx.ok("sql/base.py::_generative:wrapper-cfg", f"{len(g.nodes)} nodes", nontrivial=False)


@R.rule("C03-R3", floor=40, template="T-FRESH",
        desc="compiler / CompileState methods store into or mutate an element only after rebinding it to a "
             "clone or a newly constructed element on every path")
def r3(ctx):
    gen_names = _generative_names(ctx)
    memo = _memoized_attr_names(ctx)
    comp = ctx.index.cls("sql/compiler.py::Compiled")
    cs = ctx.index.cls("sql/base.py::CompileState")
    classes = [comp] + ctx.index.subclasses(comp) + [cs] + ctx.index.subclasses(cs)
    ctx.require(len(classes) >= 30, f"only {len(classes)} compiler/compile-state classes found")
    nsinks = 0
    for c in sorted(classes, key=lambda x: x.key):
        for name, f in sorted(c.methods.items()):
            # cheap pre-filter: does the function store to / mutate anything not rooted at self/cls?
            txt_roots = {d.split(".")[0] for d, e, st in attr_stores(f.node)}
            from ..astutil import mutating_calls, subscript_stores
            txt_roots |= {r.split(".")[0] for r, m_, cc in mutating_calls(f.node) if "." in r}
            txt_roots |= {d.split(".")[0] for d, e, st in subscript_stores(f.node) if "." in d}
            txt_roots -= {"self", "cls"}
            if not txt_roots:
                continue
            an = _analysis(ctx, f, gen_names, {p: S for p in f.params if p not in ("self", "cls")})
            per_target: Dict[str, List] = {}
            for nid, kind, root, d, node in an.mutation_sinks():
                if root in ("self", "cls") or root in SCRATCH_ROOTS:
                    continue
                if kind == "attr-store":
                    st = an.state_at(nid, root)
                    tgt = ".".join(d.split(".")[:2])
                else:
                    path = ".".join(d.split(".")[:2])
                    attr = d.split(".")[1]
                    if attr == "__dict__" or (attr in memo and an.state_at(nid, root) == F):
                        st = an.state_at(nid, root)
                    else:
                        st = an.state_at(nid, path)
                    tgt = path
                per_target.setdefault(tgt, []).append((st, node, kind))
            for tgt, items in sorted(per_target.items()):
                nsinks += len(items)
                key = f"{f.key}:{tgt}"
                worst = max(items, key=lambda x: {F: 0, U: 1, S: 2}[x[0]])
                st, node, kind = worst
                loc = f"{f.module.path}:{getattr(node, 'lineno', f.node.lineno)}"
                if st == S and _correlated_guard_fresh(ctx, f, gen_names, tgt, items, memo):
                    ctx.ok(key, "fresh under the re-tested guard that also guards the clone (correlated branches)")
                elif st == F:
                    ctx.ok(key, f"{len(items)} store(s)/mutation(s), all on a fresh object")
                elif key in R3_EXCEPTIONS:
                    ctx.ok(key, "exception: " + R3_EXCEPTIONS[key], nontrivial=False)
                elif st == U:
                    ctx.error(f"{key}: cannot decide whether `{tgt.split('.')[0]}` is a fresh object at `{unparse(node)[:70]}` ({loc})")
                else:
                    ctx.violation(key,
                                  f"`{unparse(node)[:80]}` {'stores into' if kind == 'attr-store' else 'mutates'} {tgt}, "
                                  f"which can still be the caller's statement element on some path (not rebound to a "
                                  f"clone/new element): compiling would modify the statement", loc)
    ctx.note(f"{nsinks} stores/mutations on non-self objects examined")


def _correlated_guard_fresh(ctx, f, gen_names, tgt, items, memo) -> bool:
    """Path-sensitivity for the idiom
           if C: v = v._clone()
           ...
           if C: v.attr = ...
    Re-run the analysis assuming the sink's enclosing test(s) hold wherever the same test is evaluated.
    Sound only if the truth of C is stable between the tests: every rebinding of a variable mentioned in C
    inside the function must be derived from the variable itself (`v = v._clone()`) or precede all tests."""
    from ..astutil import lexical_guards, names_in
    pm = f.module.parents()
    root = tgt.split(".")[0]
    for st, node, kind in items:
        if st == F:
            continue
        guards = [t for t, pol in lexical_guards(pm, node, stop=f.node) if pol and root in names_in(t)]
        if not guards:
            return False
        texts = {unparse(t) for t in guards}
        # stability of the guard
        mentioned = set()
        for t in guards:
            mentioned |= names_in(t)
        first_test_line = min(
            (n.stmt.lineno for n in ctx.cfg(f).nodes if n.kind == "test" and unparse(n.stmt.test) in texts), default=0)
        for n, v, s_ in name_stores(f.node):
            if n in mentioned and s_.lineno >= first_test_line:
                if v is None or not (isinstance(v, ast.Call) and isinstance(v.func, ast.Attribute)
                                     and isinstance(v.func.value, ast.Name) and v.func.value.id == n):
                    return False
        an2 = _analysis(ctx, f, gen_names, {p: S for p in f.params if p not in ("self", "cls")}, assume_true=texts)
        ok = False
        for nid, kind2, root2, d2, node2 in an2.mutation_sinks():
            if node2 is node:
                name = root2 if kind2 == "attr-store" else ".".join(d2.split(".")[:2])
                ok = an2.state_at(nid, name) == F
        if not ok:
            return False
    return True


R4_FUNCS = [
    "sql/compiler.py::SQLCompiler._truncated_identifier",
    "sql/compiler.py::IdentifierPreparer._truncate_and_render_maxlen_name",
    "sql/compiler.py::SQLCompiler._process_numeric",
    "sql/compiler.py::SQLCompiler._process_positional",
    "sql/compiler.py::SQLCompiler._truncate_bindparam",
    "sql/compiler.py::SQLCompiler._anonymize",
    "sql/_util_cy.py::prefix_anon_map.__missing__",
]
NONDET_CALLS = {"hash", "id", "random", "randint", "choice", "shuffle", "uuid4", "uuid1", "time", "monotonic",
                "perf_counter", "urandom", "getrandbits", "token_hex", "now", "utcnow"}


@R.rule("C03-R4", floor=8, template="T-FLOW",
        desc="name-/order-producing functions of compilation call no hash()/id()/random/uuid/time source and do "
             "not iterate sets")
def r4(ctx):
    funcs = []
    for k in R4_FUNCS:
        try:
            funcs.append(ctx.func(k))
        except Exception:
            # located by name if it moved between classes of the same module
            rel, _, qual = k.partition("::")
            nm = qual.rsplit(".", 1)[-1]
            cands = [f for f in ctx.index.all_functions(ctx.index.module(rel)) if f.name == nm]
            ctx.require(cands, f"anchor {k} not found")
            funcs.append(cands[0])
    nm = ctx.index.module("sql/naming.py")
    funcs += list(ctx.index.all_functions(nm))
    for f in funcs:
        ctx.functions_analysed.add(f.key)
        bad = []
        for c in calls_in(f.node, into_nested=True):
            n = (call_name(c) or "")
            short = n.rsplit(".", 1)[-1]
            if short in NONDET_CALLS and (n == short or n.split(".")[0] in ("random", "uuid", "time", "os", "secrets", "datetime")):
                bad.append(f"{n}() at line {c.lineno}")
        setvars = {n for n, v, st in name_stores(f.node)
                   if isinstance(v, (ast.Set, ast.SetComp)) or (isinstance(v, ast.Call) and call_name(v) in ("set", "frozenset"))}
        for n in walk_local(f.node, into_nested=True):
            if isinstance(n, (ast.For, ast.comprehension)):
                it = n.iter
                if (isinstance(it, ast.Name) and it.id in setvars) or isinstance(it, (ast.Set, ast.SetComp)) or \
                        (isinstance(it, ast.Call) and call_name(it) in ("set", "frozenset")):
                    bad.append(f"iteration over a set `{unparse(it)[:40]}`")
        ctx.check(not bad, f.key, f"non-deterministic source in a name/order producing function: {bad}",
                  "no hash/id/random/time, no set iteration", f.loc)


# ---------------------------------------------------------------------- self-test battery
Q = "orm/query.py"
R.mutant("add-columns-no-copy", Q, sub("        self._raw_columns = list(self._raw_columns)\n\n        self._raw_columns.extend(", "        self._raw_columns.extend("), "C03-R1")
R.mutant("where-criteria-list-default", "sql/selectable.py", sub("    _where_criteria: Tuple[ColumnElement[Any], ...] = ()\n", "    _where_criteria: Tuple[ColumnElement[Any], ...] = []\n", count=1), "C03-R1")
R.mutant("generate-shares-dict", "sql/base.py", sub("            s.__dict__ = self.__dict__.copy()\n        return s", "            s.__dict__ = self.__dict__\n        return s"), "C03-R2")
R.mutant("decorator-runs-on-original", "sql/base.py", sub("        self = self._generate()\n        x = fn(self, *args, **kw)\n        assert x is self, \"generative methods must return self\"\n        return self",
                                                          "        copy = self._generate()\n        x = fn(self, *args, **kw)\n        return x"), "C03-R2")
R.mutant("contains-no-clone", "sql/compiler.py", sub("    def visit_contains_op_binary(self, binary, operator, **kw):\n        binary = binary._clone()\n", "    def visit_contains_op_binary(self, binary, operator, **kw):\n"), "C03-R3")
R.mutant("not-ilike-no-clone", "sql/compiler.py", sub("        if operator is operators.not_ilike_op:\n            binary = binary._clone()\n", "        if operator is operators.not_ilike_op:\n"), "C03-R3")
R.mutant("truncate-uses-hash", "sql/compiler.py", sub("util.md5_hex(name)[-4:]", "hex(hash(name))[-4:]"), "C03-R4")
R.mutant("benign-contains-rename", "sql/compiler.py", sub("    def visit_contains_op_binary(self, binary, operator, **kw):\n        binary = binary._clone()\n        percent = self._like_percent_literal\n        binary.right = percent.concat(binary.right).concat(percent)\n        return self.visit_like_op_binary(binary, operator, **kw)",
                                                          "    def visit_contains_op_binary(self, binary, operator, **kw):\n        pct = self._like_percent_literal\n        binary = binary._clone()\n        binary.right = pct.concat(binary.right).concat(pct)\n        return self.visit_like_op_binary(binary, operator, **kw)"), None)
R.mutant("benign-add-columns-copy-via-helper", Q, sub("        self._raw_columns = list(self._raw_columns)\n\n        self._raw_columns.extend(", "        cols = self._raw_columns\n        self._raw_columns = list(cols)\n\n        self._raw_columns.extend("), None)
