"""C03 -- Statement objects are immutable values; compilation is deterministic (copy-on-write discipline)."""

from __future__ import annotations

import ast
from typing import Dict, List, Optional, Set

from ..astutil import (
    call_name, calls_in, dotted, name_stores, unparse, walk_local, walk_stmts, returns_of, attr_stores,
)
from ..fresh import F, S, U, FreshAnalysis, join
from ..index import ClassInfo, FuncInfo
from ..report import Registry, sub, chain

R = Registry(
    "C03",
    title="Statement objects are immutable values; compilation is deterministic",
    decides=(
        "copy-on-write discipline: every @_generative method (and every hand-written clone-then-modify "
        "function) mutates in place only containers it has rebound to a fresh copy -- directly, through a local "
        "alias of (an element of) self.attr, or inside the non-generative self.helper() methods it calls on the "
        "copy (depth 2) -- and uses `+=` only on attributes that hold immutable values under every binding, "
        "including the container kind that the copy-internals traversal (_CopyInternalsTraversal.visit_<dp> via "
        "_traverse_internals) rebinds on clones; only memoisations registered in _memoized_keys count as dropped "
        "by a shallow copy (util.memoized_property values survive and are shared, and must not be computed from "
        "attributes a generative method of the class rebinds unless that method drops them); the same discipline "
        "holds in functions the copy is handed to as an argument (module functions, classmethods); "
        "_generate()/_clone() never "
        "share __dict__ with the original, skip _memoized_keys, and the decorator operates on the copy; "
        "compiler and CompileState methods store into / mutate an "
        "element only after rebinding it to a clone or a newly constructed element on every path; the "
        "name-producing functions of compilation use no hash()/id()/random/time source and no set iteration."
    ),
    not_decided=(
        "pickling/deepcopy equality of statements, thread-level atomicity of memoisation, deep freshness of nested "
        "containers (an element of a copied container is treated as shared), HasShallowCopy/_shallow_copy_to "
        "copies (ORM Load options), mutation through helpers reached other than as self.helper() / helper(self) "
        "(e.g. `self.method.non_generative(self, ...)`, callables held in variables), legacy Query paths "
        "outside the decorator family, determinism of user-supplied type/compile hooks."
    ),
)

# construct key -> reason (confirmed by reading / executing)
R3_EXCEPTIONS = {
    "orm/context.py::_ORMSelectCompileState._create_orm_context:statement._compile_options":
        "idempotent in-place upgrade of the default (Core) compile-options object to the ORM options class via "
        "safe_merge(); cache key and rendered SQL are unchanged (executed: key before == key after)",
}
# variables that are compiler-owned scratch state, not statement elements
SCRATCH_ROOTS = {
    "from_linter": "FromLinter is per-compilation scratch state created by the compiler",
    "lateral_from_linter": "FromLinter is per-compilation scratch state created by the compiler",
    "compiler": "the compiler object of this compilation",
    "kw": "keyword dict of this call", "kwargs": "keyword dict of this call",
}
ELEMENT_CTOR_METHODS = {
    # methods that always build a new element (not decorated @_generative)
    "subquery", "alias", "select", "scalar_subquery", "label", "cte", "exists", "lateral", "as_scalar",
    "join", "outerjoin", "concat", "_rconcat", "traverse", "over", "filter", "within_group", "self_group",
    "_anonymous_fromclause", "corresponding_column", "_annotate", "_deannotate", "set_label_style",
    "add_columns", "with_only_columns", "options", "safe_merge", "union", "merge_with",
}


def _generative_names(ctx) -> Set[str]:
    out = set()
    for f in ctx.index.all_functions():
        if any(d.split(".")[-1] == "_generative" for d in f.decorators):
            out.add(f.name)
    return out


def _drops_on_copy(dec: str) -> bool:
    """Memoisation decorators that register the key in `_memoized_keys`, which _generate()/_clone() skip
    (HasMemoized.memoized_attribute / HasMemoized.memoized_instancemethod and the typing alias
    HasMemoized_ro_memoized_attribute; the registration itself is verified by C03-R2).  Plain
    `util.memoized_property` / `util.ro_memoized_property` / `util.memoized_instancemethod` store into __dict__
    without registering: such a value SURVIVES the shallow copy and is shared by original and copy."""
    last = dec.split(".")[-1]
    return dec.startswith("HasMemoized.") and last in ("memoized_attribute", "memoized_instancemethod") \
        or last == "HasMemoized_ro_memoized_attribute"


def _memoized_attr_names(ctx) -> Set[str]:
    """Attribute names whose memoised value is dropped by every shallow copy -- under *every* definition of
    that name (a name that is memoised in a surviving way anywhere is not in the set)."""
    drop, survive = set(), set()
    for f in ctx.index.all_functions():
        for d in f.decorators:
            if "memoized" in d and "non_memoized" not in d:
                (drop if _drops_on_copy(d) else survive).add(f.name)
    return drop - survive


def _surviving_memo_names(ctx) -> Set[str]:
    out = set()
    for f in ctx.index.all_functions():
        for d in f.decorators:
            if "memoized" in d and "non_memoized" not in d and not _drops_on_copy(d):
                out.add(f.name)
    return out


def _returns_param_or_fresh(ctx, f: FuncInfo, gen_names, depth=0) -> Optional[Set[int]]:
    """If every `return` of f yields either a fresh object or (a reassigned copy of) one of its own
    parameters, return the positional indexes (excluding self/cls) of those parameters; else None."""
    params = [p for p in f.params if p not in ("self", "cls")]
    idx = set()
    rets = returns_of(f.node)
    if not rets:
        return None
    an = _analysis(ctx, f, gen_names, {p: "P:" + p for p in params}, depth + 1)
    for r in rets:
        if r.value is None:
            return None
        if isinstance(r.value, ast.Name):
            nm = r.value.id
            nodes = an.cfg.nodes_for(r)
            for nid in nodes:
                st = an.pre.get(nid, {}).get(nm, S)
                if st == F:
                    continue
                if nm in params:
                    idx.add(params.index(nm))
                else:
                    return None
        else:
            if an.state(r.value, an.pre.get(an.cfg.nodes_for(r)[0], {})) != F:
                return None
    return idx


class _Tagged(FreshAnalysis):
    pass


def _analysis(ctx, f: FuncInfo, gen_names, entry_env, depth=0, assume_true=()) -> FreshAnalysis:
    g = ctx.cfg(f)
    mod = f.module
    # states "P:<name>" are not used by the lattice; map them to S
    env = {k: (S if str(v).startswith("P:") else v) for k, v in entry_env.items()}

    def fresh_call(call: ast.Call, state_of):
        nm = call_name(call) or ""
        short = nm.rsplit(".", 1)[-1]
        if short in gen_names or short in ELEMENT_CTOR_METHODS:
            return F
        # constructor of a class of the package / well-known element factory functions
        if isinstance(call.func, (ast.Name, ast.Attribute)) and "()" not in nm:
            r = ctx.index.resolve(mod, nm)
            if isinstance(r, ClassInfo):
                return F
            if isinstance(r, FuncInfo) and r.cls is None and short in ("select", "literal_column", "text", "label", "and_", "or_", "not_", "cast", "column", "table", "bindparam", "null", "true", "false"):
                return F
        # self.helper(..., v, ...) returning v-or-fresh
        if depth < 2 and isinstance(call.func, ast.Attribute) and isinstance(call.func.value, ast.Name) and call.func.value.id in ("self", "cls") and f.cls is not None:
            tgt = ctx.index.resolve_method(f.cls, short)
            if tgt is not None and tgt.node is not f.node:
                idx = _returns_param_or_fresh(ctx, tgt, gen_names, depth + 1)
                if idx is not None:
                    tparams = [p for p in tgt.params if p not in ("self", "cls")]
                    st = F
                    for i in idx:
                        arg = None
                        if i < len(call.args):
                            arg = call.args[i]
                        else:
                            for k in call.keywords:
                                if k.arg == tparams[i]:
                                    arg = k.value
                        if arg is None:
                            return U
                        st = join(st, state_of(arg))
                    return st
        return None

    return FreshAnalysis(g, env, fresh_call=fresh_call, assume_true=assume_true)


# ---------------------------------------------------------------------- value classification for `+=`
def _classify_value(ctx, expr, module, cls) -> str:
    """'immutable' | 'mutable' | 'unknown' for an expression bound to an attribute."""
    if isinstance(expr, ast.Tuple):
        return "immutable"
    if isinstance(expr, ast.Constant):
        return "immutable"
    if isinstance(expr, (ast.List, ast.Dict, ast.Set, ast.ListComp, ast.DictComp, ast.SetComp)):
        return "mutable"
    if isinstance(expr, ast.BinOp) and isinstance(expr.op, ast.Add):
        # the result of `a + b` has the type of a.__add__: decided by the left operand
        a = _classify_value(ctx, expr.left, module, cls)
        if a != "unknown":
            return a
        return _classify_value(ctx, expr.right, module, cls)
    if isinstance(expr, ast.Call):
        nm = call_name(expr) or ""
        short = nm.rsplit(".", 1)[-1]
        if short in ("tuple", "frozenset", "immutabledict", "union", "merge_with", "safe_merge", "from_execution_options"):
            return "immutable"
        if short in ("list", "dict", "set", "OrderedDict", "defaultdict"):
            return "mutable"
        r = ctx.index.resolve(module, nm) if "()" not in nm else None
        if isinstance(r, ClassInfo) and _is_options_class(ctx, r):
            return "immutable"
        return "unknown"
    if isinstance(expr, (ast.Name, ast.Attribute)):
        d = dotted(expr) or ""
        if d.rsplit(".", 1)[-1] in ("EMPTY_DICT", "EMPTY_SET", "immutabledict"):
            return "immutable"
        r = ctx.index.resolve(module, d) if d and "()" not in d else None
        if isinstance(r, ClassInfo) and _is_options_class(ctx, r):
            return "immutable"
        if isinstance(r, tuple) and r[0] == "classvalue":
            owner, nm = r[1], r[2]
            return _classify_value(ctx, owner.assigns[nm][-1], owner.module, owner)
        if isinstance(r, tuple) and r[0] == "value":
            m2, nm = r[1], r[2]
            return _classify_value(ctx, m2.assigns[nm][-1], m2, None)
        return "unknown"
    if isinstance(expr, ast.IfExp):
        a, b = _classify_value(ctx, expr.body, module, cls), _classify_value(ctx, expr.orelse, module, cls)
        if "mutable" in (a, b):
            return "mutable"
        return a if a == b else "unknown"
    return "unknown"


def _is_options_class(ctx, c: ClassInfo) -> bool:
    """Options subclasses: `+` builds a new object (checked: Options.__add__ never stores into self)."""
    return any(k.name == "Options" and k.module.relpath == "sql/base.py" for k in ctx.index.mro(c))


def _copy_internals_bindings(ctx, k: ClassInfo, attr: str):
    """Values bound to `attr` by HasCopyInternals._copy_internals(): for a row (attr, InternalTraversal.dp_X) of
    the class's own _traverse_internals the result of _CopyInternalsTraversal.visit_X(...) is setattr()ed on the
    clone (cloned_traverse / replacement_traverse / _deep_annotate).  Returns [(owner class, returned expr)]."""
    from ..evalx import Evaluator, Sym
    if "_traverse_internals" not in k.assigns:
        return []
    store = ctx.__dict__.setdefault("_c03_cache", {})  # per analysis run (a self-test mutant gets a new Ctx)
    if "ev" not in store:
        store["ev"] = Evaluator(ctx.index, symbolic_classes={"InternalTraversal"})
    ev = store["ev"]
    cache = store.setdefault("rows", {})
    if k.key not in cache:
        try:
            cache[k.key] = ev.eval(k.assigns["_traverse_internals"][-1], k.module, k)
        except Exception:
            cache[k.key] = None
    rows = cache[k.key]
    if not isinstance(rows, (list, tuple)):
        return []
    cit = ctx.index.cls("sql/traversals.py::_CopyInternalsTraversal")
    # an overriding _copy_internals that delegates with omit_attrs=(..., attr, ...) binds attr itself
    # (its own `self.attr = ...` statements are collected by _attr_bindings)
    ci = ctx.index.resolve_method(k, "_copy_internals")
    if ci is not None:
        delegations = [c for c in calls_in(ci.node) if (call_name(c) or "").endswith("._copy_internals")]
        omitted = [any(kw.arg == "omit_attrs" and isinstance(kw.value, (ast.Tuple, ast.List))
                       and any(isinstance(e, ast.Constant) and e.value == attr for e in kw.value.elts) for kw in c.keywords)
                   for c in delegations]
        if delegations and all(omitted):
            return []
    out = []
    for row in rows:
        if isinstance(row, tuple) and len(row) >= 2 and row[0] == attr and isinstance(row[1], Sym) and row[1].short.startswith("dp_"):
            m = ctx.index.resolve_method(cit, "visit_" + row[1].short[3:])
            hops = 0
            while m is not None and hops < 3:
                hops += 1
                nxt = None
                for r in returns_of(m.node):
                    v = r.value
                    if isinstance(v, ast.Call) and isinstance(v.func, ast.Attribute) and isinstance(v.func.value, ast.Name) \
                            and v.func.value.id == "self" and v.func.attr.startswith("visit_"):
                        nxt = ctx.index.resolve_method(cit, v.func.attr)
                    elif v is not None:
                        out.append((cit, v))
                m = nxt
    return out


def _attr_bindings(ctx, cls: ClassInfo, attr: str):
    """All expressions bound to `attr` at class level, as `self.attr = expr` in the class family, or by the
    copy-internals traversal of the family's _traverse_internals."""
    out = []
    fam = set(ctx.index.mro(cls)) | set(ctx.index.subclasses(cls))
    for k in ctx.index.mro(cls):
        fam |= set(ctx.index.subclasses(k)) if k.name not in ("object",) and k.module.relpath.startswith(("sql/", "orm/")) and attr in k.assigns else set()
    for k in fam:
        for v in k.assigns.get(attr, []):
            out.append((k, v))
        out.extend(_copy_internals_bindings(ctx, k, attr))
        for m in k.methods.values():
            for st in walk_stmts(m.node.body):
                if isinstance(st, ast.Assign):
                    for t in st.targets:
                        if isinstance(t, ast.Attribute) and t.attr == attr and isinstance(t.value, ast.Name) and t.value.id == "self":
                            out.append((k, st.value))
    return out


def _self_root_attr(e: ast.AST, recv: str = "self"):
    """('self.attr', exact) for an expression `self.attr`, `self.attr[k]`, `self.attr.x[k]...`; None otherwise.
    exact = the expression is the attribute itself (not an element / sub-object of it).  `recv` is the name that
    holds the shallow copy in the function at hand (a parameter, in a function the copy was handed to)."""
    exact = True
    while True:
        if isinstance(e, ast.Attribute) and isinstance(e.value, ast.Name) and e.value.id == recv:
            return "self." + e.attr, exact
        if isinstance(e, ast.Subscript):
            e, exact = e.value, False
        elif isinstance(e, ast.Attribute):
            e, exact = e.value, False
        else:
            return None


def _identity_leaves(e: ast.AST):
    """The sub-expressions one of which *is* (same object) the value of `e`: operands of `a or b` / `a and b`,
    both arms of a conditional expression, the value of a walrus, the argument of typing.cast()."""
    if isinstance(e, ast.BoolOp):
        return [x for v in e.values for x in _identity_leaves(v)]
    if isinstance(e, ast.IfExp):
        return _identity_leaves(e.body) + _identity_leaves(e.orelse)
    if isinstance(e, ast.NamedExpr):
        return _identity_leaves(e.value)
    if isinstance(e, ast.Call) and (call_name(e) or "").rsplit(".", 1)[-1] == "cast" and len(e.args) == 2 and not e.keywords:
        return _identity_leaves(e.args[1])
    return [e]


def _alias_sinks(an: FreshAnalysis, fn: ast.AST, recv: str = "self"):
    """In-place mutations through a local name that may hold (an element of) `self.attr`:
           d = self.attr[k]; d[x] = v     /     lst = self.attr; lst.append(v)     /
           opts = self.attr or {}; opts.update(...)     /     a = self.attr; b = a if c else {}; b[k] = v
    The name is resolved at the mutation through its reaching definitions (plain assignments, chains of local
    aliases, `or`/`and`/conditional expressions/walrus/cast()), so neither the name nor the number of bindings
    matters.  The state is that of `self.attr` where the alias was taken (fresh if the attribute had been rebound
    to a new container before); an element / sub-object of the attribute is shared in any case.
    Yields (cfg node id, 'self.attr', state, ast node)."""
    from ..astutil import MUTATING_METHODS, own_exprs
    from ._helpers_rob_c2 import ReachingDefs
    rd = None
    g = an.cfg

    def holds(name, at, seen):
        """[(path, exact, cfg node of the binding)] of the self-rooted values `name` may hold at node `at`"""
        out = []
        for d in rd.at(at, name):
            if d.id in seen:
                continue
            seen.add(d.id)
            if d.kind != "assign" or d.path or d.value is None:
                continue
            for leaf in _identity_leaves(d.value):
                if isinstance(leaf, ast.Name):
                    if leaf.id != recv:
                        out.extend(holds(leaf.id, d.node, seen))
                    continue
                r = _self_root_attr(leaf, recv)
                if r is not None:
                    out.append((r[0], r[1], d.node))
        return out

    for node in g.nodes:
        st = node.stmt
        if st is None or not isinstance(st, ast.stmt) or node.kind not in ("stmt", "test", "for", "with_enter"):
            continue
        hits = []
        if node.kind == "stmt":
            tgts = list(st.targets) if isinstance(st, (ast.Assign, ast.Delete)) else \
                [st.target] if isinstance(st, (ast.AugAssign, ast.AnnAssign)) else []
            for t in tgts:
                for e in ast.walk(t):
                    if isinstance(e, ast.Subscript) and isinstance(e.value, ast.Name) and e.value.id != recv \
                            and isinstance(e.ctx, (ast.Store, ast.Del)):
                        hits.append((e.value.id, st))
        for part in own_exprs(st):
            for c in ast.walk(part):
                if isinstance(c, ast.Call) and isinstance(c.func, ast.Attribute) and c.func.attr in MUTATING_METHODS \
                        and isinstance(c.func.value, ast.Name) and c.func.value.id != recv:
                    hits.append((c.func.value.id, c))
        for nm, hit in hits:
            if rd is None:
                rd = ReachingDefs(g, fn)
            for path, exact, bnode in holds(nm, node.id, set()):
                # an element / sub-object of the attribute is shared even when the attribute was shallow-copied
                state = an.state_at(bnode, path) if exact else S
                yield node.id, path, state, hit


def _receiver_param(tgt: FuncInfo, call: ast.Call, recv: str) -> Optional[str]:
    """The parameter of `tgt` that receives the object named `recv` in `call(..., recv, ...)` (module function,
    `Class.classmethod(recv)`, `Class.staticmethod(recv)`, unbound `Class.method(recv)`); None if it is not passed
    as a plain argument."""
    params = list(tgt.params)
    if tgt.cls is not None and any(d.split(".")[-1] == "classmethod" for d in tgt.decorators):
        params = params[1:]
    a = tgt.node.args
    npos = len(a.posonlyargs) + len(a.args) - (len(tgt.params) - len(params))
    for i, arg in enumerate(call.args):
        if isinstance(arg, ast.Starred):
            break
        if isinstance(arg, ast.Name) and arg.id == recv:
            return params[i] if i < npos else None
    for kw in call.keywords:
        if kw.arg is not None and isinstance(kw.value, ast.Name) and kw.value.id == recv and kw.arg in params:
            return kw.arg
    return None


def _helper_mutations(ctx, f: FuncInfo, an: FreshAnalysis, gen_names, depth, seen, chain=(), recv="self", recv_cls=None):
    """In-place mutations of `self.<attr>` performed by the non-generative functions that the (generative)
    function `f` runs on its shallow copy, followed to depth 2:
      * helper methods invoked on the copy, `self.helper(...)`;
      * functions the copy is handed to as an argument -- a module-level function, `Class.classmethod(self)`,
        `Class.staticmethod(self)`, an unbound `Class.method(self)` -- where the copy is a parameter.
    The callee works on the same shallow copy: attributes the caller has rebound to a fresh value before the call
    are fresh in the callee.  `recv` is the name under which the copy is known in `f` (`self`, or the parameter
    that received it), `recv_cls` the class of the generative method the copy was made in.
    Yields (path 'self.attr', state, ast node, chain of callee keys, loc)."""
    recv_cls = recv_cls if recv_cls is not None else f.cls
    if recv_cls is None or depth > 2:
        return
    from ..astutil import mutating_calls, subscript_stores, own_exprs
    for node in an.cfg.nodes:
        st = node.stmt
        if st is None or not isinstance(st, ast.stmt) or node.kind not in ("stmt", "test", "for", "with_enter"):
            continue
        for part in own_exprs(st):
            for c in ast.walk(part):
                if not isinstance(c, ast.Call):
                    continue
                tgt, r2 = None, None
                if isinstance(c.func, ast.Attribute) and isinstance(c.func.value, ast.Name) and c.func.value.id == recv:
                    # recv.helper(...)
                    tgt = ctx.index.resolve_method(f.cls if recv == "self" and f.cls is not None else recv_cls, c.func.attr)
                    if tgt is None or any(d.split(".")[-1] in ("_generative", "classmethod", "staticmethod") for d in tgt.decorators):
                        continue
                    r2 = tgt.params[0] if tgt.params else None
                elif any(isinstance(a_, ast.Name) and a_.id == recv for a_ in list(c.args) + [k.value for k in c.keywords]):
                    # callee(..., recv, ...)
                    nm = call_name(c) or ""
                    if not nm or "()" in nm or nm.split(".")[0] in ("self", "cls", recv):
                        continue
                    try:
                        tgt = ctx.index.resolve(f.module, nm)
                    except Exception:
                        tgt = None
                    if not isinstance(tgt, FuncInfo) or any(d.split(".")[-1] == "_generative" for d in tgt.decorators):
                        continue
                    r2 = _receiver_param(tgt, c, recv)
                if tgt is None or r2 is None or tgt.node is f.node or tgt.key in seen or tgt.type_only:
                    continue
                # cheap pre-filter: anything that could be an in-place mutation or a further call on / with the copy?
                interesting = bool(mutating_calls(tgt.node)) or bool(subscript_stores(tgt.node)) or any(
                    isinstance(x, ast.Delete) for x in walk_local(tgt.node)) or any(
                    isinstance(x, ast.Call) and (
                        (isinstance(x.func, ast.Attribute) and isinstance(x.func.value, ast.Name) and x.func.value.id == r2)
                        or any(isinstance(a_, ast.Name) and a_.id == r2 for a_ in list(x.args) + [k.value for k in x.keywords]))
                    for x in walk_local(tgt.node)) or any(
                    isinstance(x, ast.AugAssign) and isinstance(x.target, ast.Attribute) and isinstance(x.target.value, ast.Name)
                    and x.target.value.id == r2 for x in walk_local(tgt.node))
                if not interesting:
                    continue
                seen = seen | {tgt.key}
                pre = an.pre.get(node.id, {})
                entry = {p: S for p in tgt.params}
                entry.update({r2 + k[len(recv):]: v for k, v in pre.items() if k.startswith(recv + ".")})
                entry[r2] = pre.get(recv, S)
                entry[r2 + ".__dict__"] = pre.get(recv, S)
                an2 = _analysis(ctx, tgt, gen_names, entry)
                ctx.functions_analysed.add(tgt.key)
                ch = chain + (tgt.key,)
                for nid, kind, root, d, n2 in an2.mutation_sinks():
                    if root != r2 or kind != "inplace":
                        continue
                    lpath = ".".join(d.split(".")[:2])
                    state = an2.state_at(nid, lpath) if lpath != r2 + ".__dict__" else an2.state_at(nid, r2)
                    yield "self." + lpath.split(".", 1)[1], state, n2, ch, f"{tgt.module.path}:{getattr(n2, 'lineno', tgt.node.lineno)}"
                for nid, kind, root, d, n2 in an2.mutation_sinks():
                    if root == r2 and kind == "attr-store" and isinstance(n2, ast.AugAssign) and d.count(".") == 1 \
                            and an2.state_at(nid, d) != F:
                        yield "self." + d.split(".", 1)[1], "AUG", n2, ch, f"{tgt.module.path}:{n2.lineno}"
                for nid, path, state, n2 in _alias_sinks(an2, tgt.node, r2):
                    yield path, state, n2, ch, f"{tgt.module.path}:{getattr(n2, 'lineno', tgt.node.lineno)}"
                yield from _helper_mutations(ctx, tgt, an2, gen_names, depth + 1, seen, ch, r2, recv_cls)


@R.rule("C03-R1", floor=60, template="T-FRESH",
        desc="@_generative methods / clone-then-modify functions mutate in place only freshly rebound "
             "containers; `self.attr += v` only on attributes holding immutable values")
def r1(ctx):
    gen_names = _generative_names(ctx)
    memo = _memoized_attr_names(ctx)
    surviving = _surviving_memo_names(ctx)
    ctx.require(len(gen_names) >= 60, f"only {len(gen_names)} @_generative method names found")
    inplace_gen = ctx.index.cls("sql/base.py::InPlaceGenerative")
    opt = ctx.index.cls("sql/base.py::Options")
    # Options.__add__ must build a new object
    addf = ctx.index.resolve_method(opt, "__add__")
    ctx.require(addf is not None, "Options.__add__ missing")
    stores = [d for d, e, st in attr_stores(addf.node) if d.split(".")[0] == "self"]
    ctx.check(not stores, addf.key, f"Options.__add__ stores into self ({stores}): `opts += x` would mutate shared options",
              "builds a new Options object", addf.loc)
    n_methods = 0
    aug_reported: Set[str] = set()
    for f in sorted(ctx.index.all_functions(), key=lambda x: x.key):
        is_gen = any(d.split(".")[-1] == "_generative" for d in f.decorators)
        if not is_gen:
            continue
        if f.cls is not None and inplace_gen in ctx.index.mro(f.cls):
            ctx.ok(f.key, "InPlaceGenerative: documented in-place API (Result)", nontrivial=False)
            continue
        n_methods += 1
        an = _analysis(ctx, f, gen_names, {"self": F, "self.__dict__": F})
        bad = False
        for nid, kind, root, d, node in an.mutation_sinks():
            if root != "self":
                continue
            loc = f"{f.module.path}:{getattr(node, 'lineno', f.node.lineno)}"
            if kind == "inplace":
                path = ".".join(d.split(".")[:2])
                st = an.state_at(nid, path) if path != "self.__dict__" else an.state_at(nid, "self")
                if st != F:
                    bad = True
                    ctx.violation(f"{f.key}:{path}",
                                  f"in-place mutation `{unparse(node)[:80]}` of {path}, which is still shared with the "
                                  f"original statement (not rebound to a fresh copy on every path: state {st})", loc)
            elif kind == "attr-store" and isinstance(node, ast.AugAssign):
                attr = d.split(".")[1]
                binds = _attr_bindings(ctx, f.cls, attr) if f.cls is not None else []
                kinds = [(_classify_value(ctx, v, k.module, k), k, v) for k, v in binds]
                mut = [(k, v) for c, k, v in kinds if c == "mutable"]
                imm = [1 for c, k, v in kinds if c == "immutable"]
                if mut and f"{f.key}:{d}+=" in aug_reported:
                    pass
                elif mut:
                    bad = True
                    aug_reported.add(f"{f.key}:{d}+=")
                    k, v = mut[0]
                    ctx.violation(f"{f.key}:{d}+=",
                                  f"`{unparse(node)[:70]}`: {d} can hold a mutable value (`{unparse(v)[:50]}` in {k.key}); "
                                  f"`+=` then extends the container shared with the original statement", loc)
                elif not imm:
                    ctx.error(f"{f.key}: cannot classify the value held by {d} (no class-level default or assignment understood)")
        # in-place mutation through a local alias of self.attr / of one of its elements
        for nid, path, st, node in _alias_sinks(an, f.node):
            if st != F:
                bad = True
                ctx.violation(f"{f.key}:{path}",
                              f"in-place mutation `{unparse(node)[:80]}` through a local alias of (an element of) {path}, "
                              f"which is still shared with the original statement (state {st})",
                              f"{f.module.path}:{getattr(node, 'lineno', f.node.lineno)}")
        # ... and inside the non-generative helpers it calls on the copy
        reported = set()
        for path, st, node, chain, loc in _helper_mutations(ctx, f, an, gen_names, 1, frozenset({f.key})):
            if st == F or (path, chain) in reported:
                continue
            if st == "AUG":
                # `self.attr += v` inside a helper: same judgement as in the generative method itself
                attr = path.split(".")[1]
                kinds = [(_classify_value(ctx, v, k.module, k), k, v) for k, v in _attr_bindings(ctx, f.cls, attr)]
                mut = [(k, v) for c, k, v in kinds if c == "mutable"]
                if mut and f"{f.key}:{path}+=" not in aug_reported:
                    bad = True
                    aug_reported.add(f"{f.key}:{path}+=")
                    k, v = mut[0]
                    ctx.violation(f"{f.key}:{path}+=",
                                  f"helper {' -> '.join(x.split('::')[1] for x in chain)}(): `{unparse(node)[:70]}`: {path} can hold a "
                                  f"mutable value (`{unparse(v)[:50]}` in {k.key}); `+=` then extends the container shared "
                                  f"with the original statement", loc, [f.key] + list(chain))
                continue
            reported.add((path, chain))
            bad = True
            attr = path.split(".", 1)[1]
            why = (f"{path} is memoised by a decorator that does not register in _memoized_keys, so the value computed "
                   f"on the original survives _generate() and is the same object on the copy") if attr in surviving else \
                f"{path} is not rebound to a fresh copy before the call (state {st})"
            ctx.violation(f"{f.key}:{path}",
                          f"helper {' -> '.join(k.split('::')[1] for k in chain)}() called on the copy mutates {path} in place "
                          f"(`{unparse(node)[:70]}`): {why}; the original statement and everything derived from it change",
                          loc, [f.key] + list(chain))
        if not bad:
            ctx.ok(f.key, "copy-on-write respected")
    ctx.require(n_methods >= 90, f"only {n_methods} @_generative methods analysed")
    # hand-written clone-then-modify
    for f in sorted(ctx.index.all_functions(), key=lambda x: x.key):
        if not f.module.relpath.startswith(("sql/", "orm/")) or any(d.split(".")[-1] == "_generative" for d in f.decorators):
            continue
        clones = {n for n, v, st in name_stores(f.node)
                  if isinstance(v, ast.Call) and (call_name(v) or "").rsplit(".", 1)[-1] in ("_clone", "_generate")}
        if not clones:
            continue
        an = _analysis(ctx, f, gen_names, {p: S for p in f.params})
        bad = False
        seen_sink = False
        for nid, kind, root, d, node in an.mutation_sinks():
            if root not in clones or kind != "inplace":
                continue
            seen_sink = True
            path = ".".join(d.split(".")[:2])
            attr = d.split(".")[1]
            if attr == "__dict__":
                st = an.state_at(nid, root)
            elif attr in memo and an.state_at(nid, root) == F:
                st = F  # memoized attribute: _clone() drops memoized keys, first access on the copy builds a new value
            else:
                st = an.state_at(nid, path)
            if st != F:
                bad = True
                ctx.violation(f"{f.key}:{path}",
                              f"in-place mutation `{unparse(node)[:80]}` of {path} on a shallow clone: the container is "
                              f"shared with the original (state {st})", f"{f.module.path}:{node.lineno}")
        if seen_sink and not bad:
            ctx.ok(f.key, "mutates only fresh parts of its clone")


COPY_FUNCTIONS = ("sql/base.py::Generative._generate", "sql/elements.py::ClauseElement._clone")
MEMO_KEYS = frozenset({"self._memoized_keys"})
SELF_DICT = "self.__dict__"


def _copy_function_facts(ctx, key, returns_mode=False):
    """Reads one shallow-copy function (`_generate` / `_clone`) without relying on local names or statement shapes.

    The places where the copy gets its attribute dictionary are the statements `X.__dict__ = V` and
    `X.__dict__.update(V)`.  Two facts are established for them:

    fresh     -- the fresh-copy typestate (sqlastatic.fresh) says V is a new dict on every path that reaches the
                 statement (a `.copy()`, `dict(...)`, a dict display / comprehension, or a local that holds one),
                 resp. X is a new object for the `.update` form; V is computed from `self.__dict__`.
    filtered  -- on every path on which `self._memoized_keys` is non-empty (branches that are taken only when it
                 is empty are cut: three-valued evaluation of the tests), the dict that reaches the statement has
                 no memoised key: it is defined by a comprehension / dict(generator) whose key variable is tested
                 `not in KEYS` (or iterates `keys - KEYS`), or it starts empty and is filled only under the branch
                 outcome `k not in KEYS`, or a loop `for k in KEYS: D.pop(k, ...)` / `del D[k]` lies on every
                 path from the definition to the function's exit.
    A value produced by a same-module helper called on self (`X.__dict__ = self._state_copy()`) is judged by
    running the same analysis on the helper with its `return` statements as the sites (one level).
    Returns (function, sites, fresh_problems, filter_problems)."""
    from ._helpers_rob_c2 import Scope, ReachingDefs, truth, conj_atoms, _flatten_with_path
    from ..astutil import lexical_guards, own_exprs
    f = ctx.func(key) if isinstance(key, str) else key
    sc = Scope(ctx, f)
    g = sc.g
    helper_memo: Dict[str, tuple] = {}

    def helper_facts(call, at):
        """facts of the helper `self.<helper>(...)` called by `call`, or None"""
        if returns_mode or at is None or not (isinstance(call, ast.Call) and isinstance(call.func, ast.Attribute)
                                               and sc.is_self(call.func.value, at)):
            return None
        tgt = sc.resolve_callee(call, at)
        if tgt is None:
            return None
        if tgt.key not in helper_memo:
            helper_memo[tgt.key] = _copy_function_facts(ctx, tgt, returns_mode=True)
        return helper_memo[tgt.key]

    def fresh_call(call, state_of):
        hf = helper_facts(call, sc.node_of(call))
        if hf is not None and hf[1] and not hf[2]:
            return F
        return None

    an = FreshAnalysis(g, {p: S for p in f.params}, fresh_call=fresh_call)

    def is_keys(e, at):
        if isinstance(e, ast.Call) and (call_name(e) or "") in ("set", "frozenset", "tuple", "list", "sorted") and len(e.args) == 1:
            e = e.args[0]
        return isinstance(e, (ast.Name, ast.Attribute)) and at is not None and sc.deps(e, at, must=True) == MEMO_KEYS

    tcache: Dict[int, Optional[bool]] = {}

    def nonempty_edges(a, b_, lab):
        """edges that can be taken when self._memoized_keys is non-empty (no exceptional edges)"""
        if lab == "exc":
            return False
        nd = g.nodes[a]
        if nd.kind == "test" and lab in ("true", "false"):
            if a not in tcache:
                tcache[a] = truth(nd.stmt.test, lambda e: is_keys(e, a), True)
            t = tcache[a]
            if (t is True and lab == "false") or (t is False and lab == "true"):
                return False
        return True

    rd2 = ReachingDefs(g, f.node, edge_ok=nonempty_edges)

    # ---- where the copy receives its dictionary
    sites = []  # (cfg node, X name, value expr, 'store' | 'update', ast node)
    for nd in g.nodes:
        st = nd.stmt
        if st is None or not isinstance(st, ast.stmt) or nd.kind not in ("stmt", "test", "for", "with_enter") or nd.copy:
            continue
        if nd.kind == "stmt" and isinstance(st, (ast.Assign, ast.AnnAssign)) and getattr(st, "value", None) is not None:
            tgts = st.targets if isinstance(st, ast.Assign) else [st.target]
            for t in tgts:
                if isinstance(t, ast.Attribute) and t.attr == "__dict__" and isinstance(t.value, ast.Name):
                    sites.append((nd.id, t.value.id, st.value, "store", st))
        for part in own_exprs(st):
            for c in ast.walk(part):
                if isinstance(c, ast.Call) and isinstance(c.func, ast.Attribute) and c.func.attr == "update" and len(c.args) == 1 \
                        and isinstance(c.func.value, ast.Attribute) and c.func.value.attr == "__dict__" \
                        and isinstance(c.func.value.value, ast.Name):
                    sites.append((nd.id, c.func.value.value.id, c.args[0], "update", c))
    sites = [x for x in sites if SELF_DICT in sc.deps(x[2], x[0]) or an.state_at(x[0], x[1]) != S]
    if returns_mode:
        sites = [(nid, None, r.value, "return", r) for r in returns_of(f.node) if r.value is not None
                 for nid in g.nodes_for(r)[:1]]
    fresh_bad, filter_bad = [], []
    if not sites:
        return f, sites, fresh_bad, filter_bad

    # ---- fresh
    for nid, x, v, how, node in sites:
        pre = an.pre.get(nid)
        if pre is None:
            continue
        if how in ("store", "return"):
            st_ = an.state(v, pre)
            if st_ != F:
                fresh_bad.append(f"`{unparse(node)[:70]}` (line {node.lineno}): the value is not a new dict on every path (state {st_})")
        else:
            st_ = join(an.state_at(nid, x), pre.get(x + ".__dict__", F))
            if st_ != F:
                fresh_bad.append(f"`{unparse(node)[:70]}` (line {node.lineno}): {x} is not a newly created object here (state {st_})")

    # ---- filtered
    def filtered_expr(e, at):
        comp, keyexpr = None, None
        if isinstance(e, ast.DictComp):
            comp, keyexpr = e, e.key
        elif isinstance(e, ast.Call) and (call_name(e) or "") == "dict" and len(e.args) == 1 and not e.keywords \
                and isinstance(e.args[0], (ast.GeneratorExp, ast.ListComp)) and isinstance(e.args[0].elt, ast.Tuple) \
                and len(e.args[0].elt.elts) == 2:
            comp, keyexpr = e.args[0], e.args[0].elt.elts[0]
        if comp is None or not isinstance(keyexpr, ast.Name):
            return False
        k = keyexpr.id
        for gen in comp.generators:
            if any(isinstance(leaf, ast.Name) and leaf.id == k for leaf, _ in _flatten_with_path(gen.target)):
                it = gen.iter
                if isinstance(it, ast.BinOp) and isinstance(it.op, ast.Sub) and is_keys(it.right, at):
                    return True
                if isinstance(it, ast.Call) and isinstance(it.func, ast.Attribute) and it.func.attr == "difference" \
                        and len(it.args) == 1 and is_keys(it.args[0], at):
                    return True
            for c in gen.ifs:
                for a_, pol in conj_atoms(c, True):
                    if pol is False and isinstance(a_, ast.Compare) and len(a_.ops) == 1 and isinstance(a_.ops[0], ast.In) \
                            and isinstance(a_.left, ast.Name) and a_.left.id == k and is_keys(a_.comparators[0], at):
                        return True
        return False

    def guarded_fills(e, names):
        """`D = {}` ... `D[k] = v` only under the branch outcome `k not in KEYS`."""
        empty = (isinstance(e, ast.Dict) and not e.keys) or (isinstance(e, ast.Call) and (call_name(e) or "") == "dict"
                                                              and not e.args and not e.keywords)
        if not empty:
            return False
        n_ok = 0
        for nd in g.nodes:
            st = nd.stmt
            if nd.kind != "stmt" or not isinstance(st, ast.stmt) or not rd2.reachable(nd.id):
                continue
            for part in own_exprs(st):
                for c in ast.walk(part):
                    if isinstance(c, ast.Call) and isinstance(c.func, ast.Attribute) and isinstance(c.func.value, ast.Name) \
                            and c.func.value.id in names and c.func.attr in ("update", "setdefault", "__setitem__"):
                        return False
            if not isinstance(st, ast.Assign):
                continue
            for t in st.targets:
                if isinstance(t, ast.Subscript) and isinstance(t.value, ast.Name) and t.value.id in names:
                    if not isinstance(t.slice, ast.Name):
                        return False
                    ok = False
                    for test, pol in g.edge_guards(nd.id):
                        for a_, p_ in conj_atoms(test, pol):
                            if p_ is False and isinstance(a_, ast.Compare) and len(a_.ops) == 1 and isinstance(a_.ops[0], ast.In) \
                                    and isinstance(a_.left, ast.Name) and a_.left.id == t.slice.id and is_keys(a_.comparators[0], nd.id):
                                ok = True
                    if not ok:
                        return False
                    n_ok += 1
        return n_ok > 0

    pm = f.module.parents()

    def removal_loops(dict_names):
        out = []
        for nd in g.nodes:
            if nd.kind != "for" or not isinstance(nd.stmt.target, ast.Name) or not is_keys(nd.stmt.iter, nd.id):
                continue
            kv = nd.stmt.target.id
            for x in walk_stmts(nd.stmt.body):
                hit = None
                if isinstance(x, ast.Expr) and isinstance(x.value, ast.Call) and isinstance(x.value.func, ast.Attribute) \
                        and x.value.func.attr in ("pop", "__delitem__") and x.value.args and isinstance(x.value.args[0], ast.Name) \
                        and x.value.args[0].id == kv and (dotted(x.value.func.value) or "") in dict_names:
                    hit = x
                elif isinstance(x, ast.Delete):
                    for t in x.targets:
                        if isinstance(t, ast.Subscript) and isinstance(t.slice, ast.Name) and t.slice.id == kv \
                                and (dotted(t.value) or "") in dict_names:
                            hit = x
                if hit is None:
                    continue
                # the removal may only be guarded by `k in D`
                plain = True
                for test, pol in lexical_guards(pm, hit, stop=nd.stmt):
                    for a_, p_ in conj_atoms(test, pol):
                        if not (p_ is True and isinstance(a_, ast.Compare) and len(a_.ops) == 1 and isinstance(a_.ops[0], ast.In)
                                and isinstance(a_.left, ast.Name) and a_.left.id == kv and (dotted(a_.comparators[0]) or "") in dict_names):
                            plain = False
                if plain:
                    out.append(nd.id)
        return out

    n_reach = 0
    for nid, x, v, how, node in sites:
        if not rd2.reachable(nid):
            continue  # only executed when there is nothing memoised
        n_reach += 1
        names = sc.alias_names(v, nid, rd2) if isinstance(v, ast.Name) else set()
        dict_names = set(names) | ({x + ".__dict__"} if x else set())
        leaves = sc.origins(v, nid, rd2) if isinstance(v, ast.Name) else [("expr", v, nid)]
        loops = removal_loops(dict_names)
        for kind, e, dn in leaves:
            if kind == "expr" and (filtered_expr(e, dn) or guarded_fills(e, names)):
                continue
            hf = helper_facts(e, dn) if kind == "expr" else None
            if hf is not None and hf[1] and not hf[3]:
                continue  # built by a helper all of whose returns are filtered
            w = g.must_pass([dn], [g.exit], loops, edge_ok=nonempty_edges) if loops else ["no filter"]
            if w is not None:
                what = unparse(e)[:60] if kind == "expr" else f"{e.name} ({e.kind})"
                filter_bad.append(f"`{what}` (line {g.nodes[dn].lineno}) reaches `{unparse(node)[:50]}` with the memoised keys in it")
    if not n_reach:
        filter_bad.append("no statement gives the copy its __dict__ when self._memoized_keys is non-empty")
    return f, sites, fresh_bad, filter_bad


def _generate_call_of(wsc, e, at):
    """`P._generate()` where P is a parameter of the wrapper (through aliases) -> atoms of P, else None."""
    if isinstance(e, ast.Call) and isinstance(e.func, ast.Attribute) and e.func.attr == "_generate" and not e.args:
        return wsc.param_atoms(e.func.value, at)
    return None


@R.rule("C03-R2", floor=8, template="T-FLOW",
        desc="_generate()/_clone() give the copy its own __dict__; the _generative decorator runs the method "
             "on the copy and returns the copy")
def r2(ctx):
    from ._helpers_rob_c2 import Scope
    facts = {}
    for key in COPY_FUNCTIONS:
        f, sites, fresh_bad, filter_bad = facts[key] = _copy_function_facts(ctx, key)
        ctx.require(sites, f"{key} no longer assigns __dict__ of the copy (X.__dict__ = V / X.__dict__.update(V) with V "
                           f"computed from self.__dict__)")
        ctx.check(not fresh_bad, key, "the copy's __dict__ is not a fresh copy of self.__dict__ (attribute stores on the copy "
                                      "would write through to the original): " + "; ".join(fresh_bad), "__dict__ copied", f.loc)
    # memoisations that are meant not to travel with the copy: registered in _memoized_keys by the HasMemoized
    # decorators, and skipped by both copy functions (R1/R3 rely on this for `memoized_attribute` names)
    hm = ctx.index.cls("util/langhelpers.py::HasMemoized")
    ctx.require("memoized_attribute" in hm.nested and "memoized_instancemethod" in hm.methods,
                "HasMemoized.memoized_attribute / memoized_instancemethod not found")
    for fn_ in (hm.nested["memoized_attribute"].methods.get("__get__"), hm.methods["memoized_instancemethod"]):
        ctx.require(fn_ is not None, "HasMemoized.memoized_attribute.__get__ not found")
        def registers(node, depth=0):
            """stores into <obj>._memoized_keys, directly or through a HasMemoized method called on the object
            (`obj._set_memoized_attribute(name, value)`)"""
            for n in ast.walk(node):
                if isinstance(n, (ast.AugAssign, ast.Assign)) and any(
                        (dotted(t) or "").endswith("._memoized_keys") for t in ([n.target] if isinstance(n, ast.AugAssign) else n.targets)):
                    return True
                if depth < 1 and isinstance(n, ast.Call) and isinstance(n.func, ast.Attribute) and n.func.attr in hm.methods \
                        and hm.methods[n.func.attr].node is not node and registers(hm.methods[n.func.attr].node, depth + 1):
                    return True
            return False
        reg = registers(fn_.node)
        ctx.check(bool(reg), fn_.key + ":registers-key",
                  "the memoised value is stored in __dict__ without registering its name in _memoized_keys: it would be "
                  "carried over (shared) by _generate()/_clone()", "registers the key in _memoized_keys", fn_.loc)
    for key in COPY_FUNCTIONS:
        f, sites, fresh_bad, filter_bad = facts[key]
        ctx.check(not filter_bad, key + ":skips-memoized", "the copy keeps the memoised values named in _memoized_keys (computed for "
                                                           "the original, stale and shared on the copy): " + "; ".join(filter_bad),
                  "memoised keys are not copied", f.loc)
    # decorator: on every path the wrapped function receives, as its receiver, the result of <receiver>._generate()
    # -- never the object the wrapper was called on -- and the wrapper returns that copy (or what the function,
    # which is required to return its receiver, returned)
    outer = ctx.func("sql/base.py::_generative")
    inner = [n for n in ast.walk(outer.node) if isinstance(n, ast.FunctionDef) and n is not outer.node]
    ctx.require(inner, "_generative has no inner wrapper")
    # the wrapper is the nested function that calls the decorated function (its own first parameter under
    # util.decorator, or the enclosing function's parameter as a closure variable)
    w = wsc = g = None
    fncalls, gens = [], []
    for cand in inner:
        csc = Scope(ctx, cand, module=outer.module)
        callables = set(outer.params) | set(csc.params)
        cf = []
        for n in csc.local_walk():
            if isinstance(n, ast.Call) and isinstance(n.func, ast.Name) and n.func.id in callables and csc.node_of(n) is not None:
                at = csc.node_of(n)
                pa = csc.param_atoms(n.func, at)
                if pa is not None or not csc.rd.at(at, n.func.id):
                    cf.append((n, at))
        cg = [n for n in csc.local_walk() if isinstance(n, ast.Call) and csc.node_of(n) is not None
              and _generate_call_of(csc, n, csc.node_of(n)) is not None]
        if cf and (w is None or (cg and not gens)):
            w, wsc, g, fncalls, gens = cand, csc, csc.g, cf, cg
    ctx.require(w is not None and fncalls, "_generative wrapper: no nested function calls the decorated function fn(...)")
    problems = []
    copies = set()
    for c, at in fncalls:
        if not c.args or isinstance(c.args[0], ast.Starred):
            problems.append(f"`{unparse(c)[:50]}` is not given a receiver")
            continue
        for kind, e, dn in wsc.origins(c.args[0], at):
            if kind == "expr" and _generate_call_of(wsc, e, dn) is not None:
                copies.add(id(e))
            else:
                what = unparse(e)[:40] if kind == "expr" else f"the wrapper's own argument `{e.name}`"
                problems.append(f"`{unparse(c)[:50]}` runs the method on {what}, not on a copy made by _generate()")
    rets = [r for r in returns_of(w) if r.value is not None]
    ret_nodes = [n_ for r in rets for n_ in g.nodes_for(r)]
    if not rets or g.witness([g.entry], [g.exit], avoid=ret_nodes, edge_ok=lambda a, b_, lab: lab != "exc") is not None:
        problems.append("a path through the wrapper does not return the copy")
    fn_ids = {id(c) for c, _ in fncalls}
    for r in rets:
        at = wsc.node_of(r.value)
        for kind, e, dn in wsc.origins(r.value, at):
            if kind == "expr" and (id(e) in copies or id(e) in fn_ids):
                continue
            what = unparse(e)[:40] if kind == "expr" else f"the wrapper's own argument `{e.name}`"
            problems.append(f"`{unparse(r)[:40]}` returns {what}, not the copy the method ran on")
    ctx.check(not problems, "sql/base.py::_generative",
              "the decorator does not (copy, call fn on the copy, return the copy): " + "; ".join(problems),
              "copy -> fn(copy) -> return copy", outer.loc)
    ctx.ok("sql/base.py::_generative:wrapper-cfg", f"{len(g.nodes)} nodes", nontrivial=False)


@R.rule("C03-R3", floor=40, template="T-FRESH",
        desc="compiler / CompileState methods store into or mutate an element only after rebinding it to a "
             "clone or a newly constructed element on every path")
def r3(ctx):
    gen_names = _generative_names(ctx)
    memo = _memoized_attr_names(ctx)
    comp = ctx.index.cls("sql/compiler.py::Compiled")
    cs = ctx.index.cls("sql/base.py::CompileState")
    classes = [comp] + ctx.index.subclasses(comp) + [cs] + ctx.index.subclasses(cs)
    ctx.require(len(classes) >= 30, f"only {len(classes)} compiler/compile-state classes found")
    nsinks = 0
    for c in sorted(classes, key=lambda x: x.key):
        for name, f in sorted(c.methods.items()):
            # cheap pre-filter: does the function store to / mutate anything not rooted at self/cls?
            txt_roots = {d.split(".")[0] for d, e, st in attr_stores(f.node)}
            from ..astutil import mutating_calls, subscript_stores
            txt_roots |= {r.split(".")[0] for r, m_, cc in mutating_calls(f.node) if "." in r}
            txt_roots |= {d.split(".")[0] for d, e, st in subscript_stores(f.node) if "." in d}
            txt_roots -= {"self", "cls"}
            if not txt_roots:
                continue
            an = _analysis(ctx, f, gen_names, {p: S for p in f.params if p not in ("self", "cls")})
            per_target: Dict[str, List] = {}
            for nid, kind, root, d, node in an.mutation_sinks():
                if root in ("self", "cls") or root in SCRATCH_ROOTS:
                    continue
                if kind == "attr-store":
                    st = an.state_at(nid, root)
                    tgt = ".".join(d.split(".")[:2])
                else:
                    path = ".".join(d.split(".")[:2])
                    attr = d.split(".")[1]
                    if attr == "__dict__" or (attr in memo and an.state_at(nid, root) == F):
                        st = an.state_at(nid, root)
                    else:
                        st = an.state_at(nid, path)
                    tgt = path
                per_target.setdefault(tgt, []).append((st, node, kind))
            for tgt, items in sorted(per_target.items()):
                nsinks += len(items)
                key = f"{f.key}:{tgt}"
                worst = max(items, key=lambda x: {F: 0, U: 1, S: 2}[x[0]])
                st, node, kind = worst
                loc = f"{f.module.path}:{getattr(node, 'lineno', f.node.lineno)}"
                if st == S and _correlated_guard_fresh(ctx, f, gen_names, tgt, items, memo):
                    ctx.ok(key, "fresh under the re-tested guard that also guards the clone (correlated branches)")
                elif st == F:
                    ctx.ok(key, f"{len(items)} store(s)/mutation(s), all on a fresh object")
                elif key in R3_EXCEPTIONS:
                    ctx.ok(key, "exception: " + R3_EXCEPTIONS[key], nontrivial=False)
                elif st == U:
                    ctx.error(f"{key}: cannot decide whether `{tgt.split('.')[0]}` is a fresh object at `{unparse(node)[:70]}` ({loc})")
                else:
                    ctx.violation(key,
                                  f"`{unparse(node)[:80]}` {'stores into' if kind == 'attr-store' else 'mutates'} {tgt}, "
                                  f"which can still be the caller's statement element on some path (not rebound to a "
                                  f"clone/new element): compiling would modify the statement", loc)
    ctx.note(f"{nsinks} stores/mutations on non-self objects examined")


def _correlated_guard_fresh(ctx, f, gen_names, tgt, items, memo) -> bool:
    """Path-sensitivity for the idiom
           if C: v = v._clone()
           ...
           if C: v.attr = ...
    Re-run the analysis assuming the sink's enclosing test(s) hold wherever the same test is evaluated.
    Sound only if the truth of C is stable between the tests: every rebinding of a variable mentioned in C
    inside the function must be derived from the variable itself (`v = v._clone()`) or precede all tests."""
    from ..astutil import lexical_guards, names_in
    pm = f.module.parents()
    root = tgt.split(".")[0]
    for st, node, kind in items:
        if st == F:
            continue
        guards = [t for t, pol in lexical_guards(pm, node, stop=f.node) if pol and root in names_in(t)]
        if not guards:
            return False
        texts = {unparse(t) for t in guards}
        # stability of the guard
        mentioned = set()
        for t in guards:
            mentioned |= names_in(t)
        first_test_line = min(
            (n.stmt.lineno for n in ctx.cfg(f).nodes if n.kind == "test" and unparse(n.stmt.test) in texts), default=0)
        for n, v, s_ in name_stores(f.node):
            if n in mentioned and s_.lineno >= first_test_line:
                if v is None or not (isinstance(v, ast.Call) and isinstance(v.func, ast.Attribute)
                                     and isinstance(v.func.value, ast.Name) and v.func.value.id == n):
                    return False
        an2 = _analysis(ctx, f, gen_names, {p: S for p in f.params if p not in ("self", "cls")}, assume_true=texts)
        ok = False
        for nid, kind2, root2, d2, node2 in an2.mutation_sinks():
            if node2 is node:
                name = root2 if kind2 == "attr-store" else ".".join(d2.split(".")[:2])
                ok = an2.state_at(nid, name) == F
        if not ok:
            return False
    return True


R4_FUNCS = [
    "sql/compiler.py::SQLCompiler._truncated_identifier",
    "sql/compiler.py::IdentifierPreparer._truncate_and_render_maxlen_name",
    "sql/compiler.py::SQLCompiler._process_numeric",
    "sql/compiler.py::SQLCompiler._process_positional",
    "sql/compiler.py::SQLCompiler._truncate_bindparam",
    "sql/compiler.py::SQLCompiler._anonymize",
    "sql/_util_cy.py::prefix_anon_map.__missing__",
]
NONDET_CALLS = {"hash", "id", "random", "randint", "choice", "shuffle", "uuid4", "uuid1", "time", "monotonic",
                "perf_counter", "urandom", "getrandbits", "token_hex", "now", "utcnow"}


@R.rule("C03-R4", floor=8, template="T-FLOW",
        desc="name-/order-producing functions of compilation call no hash()/id()/random/uuid/time source and do "
             "not iterate sets")
def r4(ctx):
    funcs = []
    for k in R4_FUNCS:
        try:
            funcs.append(ctx.func(k))
        except Exception:
            # located by name if it moved between classes of the same module
            rel, _, qual = k.partition("::")
            nm = qual.rsplit(".", 1)[-1]
            cands = [f for f in ctx.index.all_functions(ctx.index.module(rel)) if f.name == nm]
            ctx.require(cands, f"anchor {k} not found")
            funcs.append(cands[0])
    nm = ctx.index.module("sql/naming.py")
    funcs += list(ctx.index.all_functions(nm))
    for f in funcs:
        ctx.functions_analysed.add(f.key)
        bad = []
        for c in calls_in(f.node, into_nested=True):
            n = (call_name(c) or "")
            short = n.rsplit(".", 1)[-1]
            if short in NONDET_CALLS and (n == short or n.split(".")[0] in ("random", "uuid", "time", "os", "secrets", "datetime")):
                bad.append(f"{n}() at line {c.lineno}")
        setvars = {n for n, v, st in name_stores(f.node)
                   if isinstance(v, (ast.Set, ast.SetComp)) or (isinstance(v, ast.Call) and call_name(v) in ("set", "frozenset"))}
        for n in walk_local(f.node, into_nested=True):
            if isinstance(n, (ast.For, ast.comprehension)):
                it = n.iter
                if (isinstance(it, ast.Name) and it.id in setvars) or isinstance(it, (ast.Set, ast.SetComp)) or \
                        (isinstance(it, ast.Call) and call_name(it) in ("set", "frozenset")):
                    bad.append(f"iteration over a set `{unparse(it)[:40]}`")
        ctx.check(not bad, f.key, f"non-deterministic source in a name/order producing function: {bad}",
                  "no hash/id/random/time, no set iteration", f.loc)


# ---------------------------------------------------------------------- C03-R5: memoisations that survive the copy
def _is_generative(fn: FuncInfo) -> bool:
    return any(d.split(".")[-1] == "_generative" for d in fn.decorators)


def _survives_copy(fn: FuncInfo) -> bool:
    return any("memoized" in d and "non_memoized" not in d and not _drops_on_copy(d) for d in fn.decorators)


_FALSY_CONSTANTS = (None, False, 0, "", b"")


def _constant_falsy(e) -> bool:
    if isinstance(e, ast.Constant):
        return any(e.value is c or (type(e.value) is type(c) and e.value == c) for c in _FALSY_CONSTANTS)
    return isinstance(e, (ast.Tuple, ast.List, ast.Dict, ast.Set)) and not (e.keys if isinstance(e, ast.Dict) else e.elts)


def _memo_reads(ctx, fn: FuncInfo, cls: ClassInfo, depth=0, seen=None) -> Set[str]:
    """Attributes of the receiver that the value of the memoised function `fn` is computed from: every
    `<receiver>.<name>` it loads, followed (depth 3) through the properties / methods that <name> resolves to on
    the concrete class `cls` (the receiver is the function's first parameter, whatever it is called)."""
    seen = seen if seen is not None else set()
    out: Set[str] = set()
    if not fn.params or fn.key in seen:
        return out
    seen.add(fn.key)
    recv = fn.params[0]
    for n in walk_local(fn.node, into_nested=True):
        if isinstance(n, ast.Attribute) and isinstance(n.value, ast.Name) and n.value.id == recv and isinstance(n.ctx, ast.Load):
            out.add(n.attr)
            t = ctx.index.resolve_method(cls, n.attr)
            if t is not None and depth < 3 and not _is_generative(t):
                out |= _memo_reads(ctx, t, cls, depth + 1, seen)
    return out


def _copy_writes(ctx, fn: FuncInfo, cls: ClassInfo, recv=None, depth=0, seen=None):
    """What a (generative) function does to the attributes of the copy it runs on, followed (depth 2) into the
    helper methods it invokes on the copy and the functions it hands the copy to.
    -> (writes: attr -> [value expr | None], dropped: names removed from / stored over in the copy's __dict__)."""
    seen = seen if seen is not None else set()
    writes: Dict[str, List] = {}
    dropped: Set[str] = set()
    recv = recv if recv is not None else (fn.params[0] if fn.params else None)
    if recv is None or fn.key in seen:
        return writes, dropped
    seen.add(fn.key)

    def const_strings(e):
        """string constants an expression can be: a literal, or a loop variable over a literal tuple/list"""
        if isinstance(e, ast.Constant) and isinstance(e.value, str):
            return {e.value}
        if isinstance(e, ast.Name):
            out = set()
            for x in walk_local(fn.node):
                if isinstance(x, (ast.For, ast.comprehension)) and isinstance(x.target, ast.Name) and x.target.id == e.id \
                        and isinstance(x.iter, (ast.Tuple, ast.List)):
                    out |= {c.value for c in x.iter.elts if isinstance(c, ast.Constant) and isinstance(c.value, str)}
            return out
        return set()

    def is_recv_dict(e):
        return isinstance(e, ast.Attribute) and e.attr == "__dict__" and isinstance(e.value, ast.Name) and e.value.id == recv

    for n in walk_local(fn.node):
        if isinstance(n, (ast.Assign, ast.AnnAssign, ast.AugAssign, ast.Delete)):
            tgts = n.targets if isinstance(n, (ast.Assign, ast.Delete)) else [n.target]
            val = getattr(n, "value", None) if isinstance(n, (ast.Assign, ast.AnnAssign)) else None
            if isinstance(n, ast.AnnAssign) and n.value is None:
                continue
            for t in tgts:
                leaves = t.elts if isinstance(t, (ast.Tuple, ast.List)) else [t]
                for leaf in leaves:
                    if isinstance(leaf, ast.Attribute) and isinstance(leaf.value, ast.Name) and leaf.value.id == recv:
                        if isinstance(n, ast.Delete):
                            dropped.add(leaf.attr)
                        else:
                            writes.setdefault(leaf.attr, []).append(val if leaf is t else None)
                            if not isinstance(n, ast.AugAssign):
                                dropped.add(leaf.attr)  # a plain store replaces whatever was memoised under the name
                    elif isinstance(leaf, ast.Subscript) and is_recv_dict(leaf.value):
                        dropped |= const_strings(leaf.slice)
        if not isinstance(n, ast.Call):
            continue
        if isinstance(n.func, ast.Attribute) and n.func.attr in ("pop", "__delitem__") and is_recv_dict(n.func.value) and n.args:
            dropped |= const_strings(n.args[0])
            continue
        tgt = r2 = None
        if isinstance(n.func, ast.Attribute) and isinstance(n.func.value, ast.Name) and n.func.value.id == recv:
            tgt = ctx.index.resolve_method(cls, n.func.attr)
            if tgt is not None and any(d.split(".")[-1] in ("classmethod", "staticmethod") for d in tgt.decorators):
                tgt = None
            r2 = tgt.params[0] if tgt is not None and tgt.params else None
        elif any(isinstance(a_, ast.Name) and a_.id == recv for a_ in list(n.args) + [k.value for k in n.keywords]):
            nm = call_name(n) or ""
            if nm and "()" not in nm and nm.split(".")[0] not in ("self", "cls", recv):
                try:
                    tgt = ctx.index.resolve(fn.module, nm)
                except Exception:
                    tgt = None
                if isinstance(tgt, FuncInfo):
                    r2 = _receiver_param(tgt, n, recv)
                else:
                    tgt = None
        if tgt is None or r2 is None or depth >= 2 or _is_generative(tgt) or tgt.type_only:
            continue
        w2, d2 = _copy_writes(ctx, tgt, cls, r2, depth + 1, seen)
        for k, v in w2.items():
            writes.setdefault(k, []).extend(v)
        dropped |= d2
    return writes, dropped


def _memo_readers_guarded(ctx, memo_name: str, attr: str, exclude: FuncInfo) -> Optional[str]:
    """Every load `<x>.<memo_name>` in sql/ and orm/ is executed only under a branch outcome that says `<x>.<attr>`
    is truthy (CFG-dominating outcome, early returns included, or the short-circuit / conditional expression it sits
    in).  Returns None if so, else a description of the first unguarded reader."""
    from ._helpers_rob_c2 import conj_atoms
    from ._helpers_rob_c3 import pure_alias_bindings, substitute
    from ..astutil import lexical_guards
    n_readers = 0
    for f in ctx.index.all_functions():
        if not f.module.relpath.startswith(("sql/", "orm/", "ext/", "engine/")) or f.node is exclude.node:
            continue
        loads = [n for n in walk_local(f.node, into_nested=True)
                 if isinstance(n, ast.Attribute) and n.attr == memo_name and isinstance(n.ctx, ast.Load)]
        if not loads:
            continue
        g = ctx.cfg(f)
        pm = f.module.parents()
        node_of = {}
        from ..astutil import own_exprs
        for nd in g.nodes:
            if nd.stmt is not None and isinstance(nd.stmt, ast.stmt) and nd.kind not in ("with_exit", "join"):
                for part in own_exprs(nd.stmt):
                    for x in ast.walk(part):
                        node_of.setdefault(id(x), nd.id)
        aliases = pure_alias_bindings(f.node)
        for ld in loads:
            n_readers += 1
            base = unparse(substitute(ld.value, aliases))
            guards = list(lexical_guards(pm, ld, stop=f.node))
            if id(ld) in node_of:
                guards += g.edge_guards(node_of[id(ld)])
            ok = False
            for test, pol in guards:
                for a_, p_ in conj_atoms(substitute(test, aliases), pol):
                    if p_ is True and isinstance(a_, ast.Attribute) and a_.attr == attr and unparse(a_.value) == base:
                        ok = True
            if not ok:
                return f"{f.key} line {ld.lineno} reads `{unparse(ld)}` without testing `{base}.{attr}`"
    return None if n_readers else "no reader found"


@R.rule("C03-R5", floor=15, template="T-FLOW",
        desc="a memoisation that survives _generate() (util.memoized_property & co., not registered in _memoized_keys) "
             "on a Generative class is not computed from an attribute that one of the class's generative methods "
             "rebinds without dropping the memoised value")
def r5(ctx):
    gcls = ctx.index.cls("sql/base.py::Generative")
    fam = [c for c in ctx.index.all_classes() if gcls in ctx.index.mro(c)]
    ctx.require(len(fam) >= 40, f"only {len(fam)} Generative classes found")
    # premise: the plain memoising descriptor stores into the instance __dict__ and registers nothing
    mp = ctx.index.cls("util/langhelpers.py::_memoized_property")
    get = mp.methods.get("__get__")
    if get is None:
        for n in ast.walk(mp.node):
            if isinstance(n, ast.FunctionDef) and n.name == "__get__":
                get = n
    ctx.require(get is not None, "util.langhelpers._memoized_property.__get__ not found")
    gnode = get.node if isinstance(get, FuncInfo) else get
    stores_dict = any(isinstance(n, ast.Subscript) and isinstance(n.ctx, ast.Store) and isinstance(n.value, ast.Attribute)
                      and n.value.attr == "__dict__" for n in ast.walk(gnode))
    registers = any(isinstance(n, ast.Attribute) and n.attr == "_memoized_keys" for n in ast.walk(gnode))
    ctx.require(stores_dict and not registers,
                "util.memoized_property no longer stores its value in the instance __dict__ without registering it in "
                "_memoized_keys: the premise of C03-R5 (and of _drops_on_copy) has changed")
    ctx.ok("util/langhelpers.py::_memoized_property.__get__:survives-copy",
           "value kept in obj.__dict__, not registered in _memoized_keys", nontrivial=False)
    pairs: Dict[tuple, tuple] = {}
    memos: Dict[str, tuple] = {}
    wcache: Dict[tuple, tuple] = {}
    n_gen = 0
    for c in sorted(fam, key=lambda x: x.key):
        names: Set[str] = set()
        for k in ctx.index.mro(c):
            names |= set(k.methods)
        ms, gs = [], []
        for nm in sorted(names):
            t = ctx.index.resolve_method(c, nm)
            if t is None or t.type_only:
                continue
            if _survives_copy(t):
                ms.append(t)
            elif _is_generative(t):
                gs.append(t)
        n_gen += len(gs)
        for m_ in ms:
            rd = _memo_reads(ctx, m_, c)
            rec = memos.setdefault(m_.key, (m_, set(), set()))
            rec[1].update(rd)
            rec[2].add(c.key)
            for g_ in gs:
                if (g_.key, c.key) not in wcache:
                    wcache[(g_.key, c.key)] = _copy_writes(ctx, g_, c)
                writes, dropped = wcache[(g_.key, c.key)]
                if m_.name in dropped:
                    continue
                inter = sorted(set(writes) & rd)
                if inter:
                    pairs.setdefault((g_.key, m_.key), (g_, m_, inter, writes, []))[4].append(c)
    ctx.require(len(memos) >= 15, f"only {len(memos)} surviving memoisations found on Generative classes")
    ctx.require(n_gen >= 200, f"only {n_gen} (class, generative method) combinations examined")
    bad_memos = set()
    for (gk, mk), (g_, m_, inter, writes, classes) in sorted(pairs.items()):
        key = f"{gk}:stale-memo:{m_.name}"
        # unobservable staleness: the method only ever empties the attribute and every reader of the memoised value
        # first tests that the attribute is non-empty
        why_dead = []
        for a_ in inter:
            vals = writes[a_]
            if all(v is not None and _constant_falsy(v) for v in vals):
                un = _memo_readers_guarded(ctx, m_.name, a_, m_)
                if un is None:
                    why_dead.append(f"{a_} is only reset to an empty value and every reader of .{m_.name} first tests .{a_}")
                    continue
            why_dead = None
            break
        if why_dead:
            ctx.ok(key, "stale value is never read: " + "; ".join(why_dead))
            continue
        bad_memos.add(mk)
        ctx.violation(key,
                      f"{g_.qualname}() rebinds {', '.join('self.' + a for a in inter)} on the copy, but `{m_.qualname}` is memoised by "
                      f"`{[d for d in m_.decorators if 'memoized' in d][0]}` (value kept in __dict__, not registered in "
                      f"_memoized_keys, so _generate() carries it over) and is computed from "
                      f"{'that attribute' if len(inter) == 1 else 'those attributes'}: once the memoised value exists on the "
                      f"original, the statement returned by {g_.name}() keeps reporting the original's value (classes: "
                      f"{', '.join(sorted(c.name for c in classes))[:120]}); {g_.name}() does not drop the name from __dict__",
                      g_.loc, [g_.key, m_.key])
    for mk, (m_, rd, classes) in sorted(memos.items()):
        if mk not in bad_memos:
            ctx.ok(mk + ":survives-copy", f"on {len(classes)} Generative class(es): no generative method rebinds what it is computed "
                                          f"from ({len(rd)} attribute(s) read) without dropping it")


# ---------------------------------------------------------------------- self-test battery
Q = "orm/query.py"
R.mutant("add-columns-no-copy", Q, sub("        self._raw_columns = list(self._raw_columns)\n\n        self._raw_columns.extend(", "        self._raw_columns.extend("), "C03-R1")
R.mutant("where-criteria-list-default", "sql/selectable.py", sub("    _where_criteria: Tuple[ColumnElement[Any], ...] = ()\n", "    _where_criteria: Tuple[ColumnElement[Any], ...] = []\n", count=1), "C03-R1")
R.mutant("generate-shares-dict", "sql/base.py", sub("            s.__dict__ = self.__dict__.copy()\n        return s", "            s.__dict__ = self.__dict__\n        return s"), "C03-R2")
R.mutant("decorator-runs-on-original", "sql/base.py", sub("        self = self._generate()\n        x = fn(self, *args, **kw)\n        assert x is self, \"generative methods must return self\"\n        return self",
                                                          "        copy = self._generate()\n        x = fn(self, *args, **kw)\n        return x"), "C03-R2")
R.mutant("contains-no-clone", "sql/compiler.py", sub("    def visit_contains_op_binary(self, binary, operator, **kw):\n        binary = binary._clone()\n", "    def visit_contains_op_binary(self, binary, operator, **kw):\n"), "C03-R3")
R.mutant("not-ilike-no-clone", "sql/compiler.py", sub("        if operator is operators.not_ilike_op:\n            binary = binary._clone()\n", "        if operator is operators.not_ilike_op:\n"), "C03-R3")
R.mutant("truncate-uses-hash", "sql/compiler.py", sub("util.md5_hex(name)[-4:]", "hex(hash(name))[-4:]"), "C03-R4")
R.mutant("benign-contains-rename", "sql/compiler.py", sub("    def visit_contains_op_binary(self, binary, operator, **kw):\n        binary = binary._clone()\n        percent = self._like_percent_literal\n        binary.right = percent.concat(binary.right).concat(percent)\n        return self.visit_like_op_binary(binary, operator, **kw)",
                                                          "    def visit_contains_op_binary(self, binary, operator, **kw):\n        pct = self._like_percent_literal\n        binary = binary._clone()\n        binary.right = pct.concat(binary.right).concat(pct)\n        return self.visit_like_op_binary(binary, operator, **kw)"), None)
R.mutant("benign-add-columns-copy-via-helper", Q, sub("        self._raw_columns = list(self._raw_columns)\n\n        self._raw_columns.extend(", "        cols = self._raw_columns\n        self._raw_columns = list(cols)\n\n        self._raw_columns.extend("), None)
# -- seeds (independent adversarial patches, see /verif/seeded/C03_*) and neighbours
C = "sql/compiler.py"
_NE_OLD = "    def visit_not_endswith_op_binary(self, binary, operator, **kw):\n        binary = binary._clone()\n"
R.mutant("seed1-not-endswith-no-clone", C, sub(_NE_OLD, "    def visit_not_endswith_op_binary(self, binary, operator, **kw):\n"), "C03-R3")
R.mutant("benign-not-endswith-clone-via-helper", C, sub(
    _NE_OLD,
    "    def _like_private_copy(self, binary):\n        return binary._clone()\n\n"
    "    def visit_not_endswith_op_binary(self, binary, operator, **kw):\n        binary = self._like_private_copy(binary)\n"), None)
SEL = "sql/selectable.py"
_SLS_OLD = "            self = self._generate()\n            select_0 = self.selects[0].set_label_style(style)\n            self.selects = [select_0] + self.selects[1:]\n"
R.mutant("seed2-compound-set-label-style-in-place", SEL, sub(
    _SLS_OLD, "            self = self._generate()\n            self.selects[0] = self.selects[0].set_label_style(style)\n"), "C03-R1")
R.mutant("benign-compound-set-label-style-copy-then-store", SEL, sub(
    _SLS_OLD,
    "            self = self._generate()\n            new_selects = list(self.selects)\n"
    "            new_selects[0] = new_selects[0].set_label_style(style)\n            self.selects = new_selects\n"), None)
# helper-following / memoisation that survives the copy / copy-internals container kinds
R.mutant("with-hint-helper-updates-in-place", SEL, sub(
    "            self._hints = self._hints.union(\n                {\n                    (\n                        coercions.expect(roles.FromClauseRole, selectable),\n                        dialect_name,\n                    ): text\n                }\n            )\n        return self\n\n\nclass FromClause(",
    "            self._hints.update(\n                {\n                    (\n                        coercions.expect(roles.FromClauseRole, selectable),\n                        dialect_name,\n                    ): text\n                }\n            )\n        return self\n\n\nclass FromClause("), "C03-R1")
R.mutant("cloned-set-memo-survives-clone", "sql/elements.py", sub(
    "    @HasMemoized.memoized_attribute\n    def _cloned_set(self):", "    @util.memoized_property\n    def _cloned_set(self):"), "C03-R1")
R.mutant("copy-internals-tuple-visitor-returns-list", "sql/traversals.py", sub(
    "    def visit_clauseelement_tuple(\n        self, attrname, parent, element, clone=_clone, **kw\n    ):\n        return tuple([clone(clause, **kw) for clause in element])",
    "    def visit_clauseelement_tuple(\n        self, attrname, parent, element, clone=_clone, **kw\n    ):\n        return [clone(clause, **kw) for clause in element]"), "C03-R1")
R.mutant("memoized-attribute-does-not-register", "util/langhelpers.py", sub(
    "            obj.__dict__[self.__name__] = result = self.fget(obj)\n            obj._memoized_keys |= {self.__name__}\n",
    "            obj.__dict__[self.__name__] = result = self.fget(obj)\n"), "C03-R2")
R.mutant("generate-keeps-memoized", "sql/base.py", sub(
    "                k: v for k, v in self.__dict__.copy().items() if k not in skip\n            }\n        else:\n            s.__dict__ = self.__dict__.copy()\n        return s",
    "                k: v for k, v in self.__dict__.copy().items()\n            }\n        else:\n            s.__dict__ = self.__dict__.copy()\n        return s"), "C03-R2")
R.mutant("benign-select-from-obj-omitted-and-rebound", SEL, sub(
    "        self._from_obj = tuple(existing_from_obj) + tuple(add_froms)\n",
    "        from_objs = tuple(existing_from_obj) + tuple(add_froms)\n        self._from_obj = from_objs\n"), None)

# ---- robustification round (rob-C2): C03-R2 reads _generate()/_clone()/the decorator through the fresh-copy
# typestate, reaching definitions and the paths on which _memoized_keys is non-empty -- not through local names,
# the if/else shape or the comprehension idiom
B = "sql/base.py"
E = "sql/elements.py"
_GEN_OLD = ("        skip = self._memoized_keys\n        cls = self.__class__\n        s = cls.__new__(cls)\n        if skip:\n"
            "            # ensure this iteration remains atomic\n            s.__dict__ = {\n"
            "                k: v for k, v in self.__dict__.copy().items() if k not in skip\n            }\n"
            "        else:\n            s.__dict__ = self.__dict__.copy()\n        return s\n\n\nclass InPlaceGenerative(")
_GEN_TAIL = "\n\n\nclass InPlaceGenerative("
_CLONE_OLD = ("        skip = self._memoized_keys\n        c = self.__class__.__new__(self.__class__)\n\n        if skip:\n"
              "            # ensure this iteration remains atomic\n            c.__dict__ = {\n"
              "                k: v for k, v in self.__dict__.copy().items() if k not in skip\n            }\n"
              "        else:\n            c.__dict__ = self.__dict__.copy()\n\n        # this is a marker")
_DEC_OLD = ("        self = self._generate()\n        x = fn(self, *args, **kw)\n"
            "        assert x is self, \"generative methods must return self\"\n        return self\n")
R.mutant("clone-shares-dict", E, sub("            c.__dict__ = self.__dict__.copy()\n\n        # this is a marker",
                                      "            c.__dict__ = self.__dict__\n\n        # this is a marker"), "C03-R2")
R.mutant("clone-keeps-memoized", E, sub(
    "            c.__dict__ = {\n                k: v for k, v in self.__dict__.copy().items() if k not in skip\n            }\n",
    "            c.__dict__ = {\n                k: v for k, v in self.__dict__.copy().items()\n            }\n"), "C03-R2")
R.mutant("clone-filter-inverted", E, sub(
    "            c.__dict__ = {\n                k: v for k, v in self.__dict__.copy().items() if k not in skip\n            }\n",
    "            c.__dict__ = {\n                k: v for k, v in self.__dict__.copy().items() if k in skip\n            }\n"), "C03-R2")
R.mutant("generate-hoisted-alias-shared-in-else", B, sub(
    _GEN_OLD,
    "        skip = self._memoized_keys\n        cls = self.__class__\n        s = cls.__new__(cls)\n        state = self.__dict__\n        if skip:\n"
    "            s.__dict__ = {k: v for k, v in state.copy().items() if k not in skip}\n"
    "        else:\n            s.__dict__ = state\n        return s" + _GEN_TAIL), "C03-R2")
R.mutant("clone-pop-loop-on-the-original", E, sub(
    _CLONE_OLD,
    "        skip = self._memoized_keys\n        c = self.__class__.__new__(self.__class__)\n\n        copied = self.__dict__.copy()\n"
    "        for memoized_key in skip:\n            self.__dict__.pop(memoized_key, None)\n        c.__dict__ = copied\n\n        # this is a marker"), "C03-R2")
R.mutant("clone-pop-loop-only-when-nothing-memoized", E, sub(
    _CLONE_OLD,
    "        skip = self._memoized_keys\n        c = self.__class__.__new__(self.__class__)\n\n        copied = self.__dict__.copy()\n"
    "        if not skip:\n            for memoized_key in skip:\n                copied.pop(memoized_key, None)\n        c.__dict__ = copied\n\n        # this is a marker"), "C03-R2")
R.mutant("clone-pop-loop-partial-filter", E, sub(
    _CLONE_OLD,
    "        skip = self._memoized_keys\n        c = self.__class__.__new__(self.__class__)\n\n        copied = self.__dict__.copy()\n"
    "        for memoized_key in skip:\n            if memoized_key.startswith(\"_\"):\n                copied.pop(memoized_key, None)\n        c.__dict__ = copied\n\n        # this is a marker"), "C03-R2")
R.mutant("decorator-returns-the-original", B, sub(
    _DEC_OLD, "        generated = self._generate()\n        x = fn(generated, *args, **kw)\n        assert x is generated\n        return self\n"), "C03-R2")
R.mutant("decorator-copies-only-sometimes", B, sub(
    _DEC_OLD, "        if args or kw:\n            self = self._generate()\n        x = fn(self, *args, **kw)\n        assert x is self\n        return self\n"), "C03-R2")
R.mutant("benign-r2-decorator-renamed-locals", B, sub(
    _DEC_OLD, "        generated = self._generate()\n        result = fn(generated, *args, **kw)\n"
              "        assert result is generated, \"generative methods must return self\"\n        return generated\n"), None)
R.mutant("benign-r2-decorator-alias-and-returns-result", B, sub(
    _DEC_OLD, "        original = self\n        duplicate = original._generate()\n        target = duplicate\n        out = fn(target, *args, **kw)\n"
              "        assert out is duplicate, \"generative methods must return self\"\n        return out\n"), None)
R.mutant("benign-r2-generate-hoisted-copy-inverted-branches", B, sub(
    _GEN_OLD,
    "        memoized_keys = self._memoized_keys\n        cls = self.__class__\n        new_obj = cls.__new__(cls)\n"
    "        state = self.__dict__.copy()\n        if not memoized_keys:\n            new_obj.__dict__ = state\n        else:\n"
    "            new_obj.__dict__ = {\n                k: v for k, v in state.items() if k not in memoized_keys\n            }\n"
    "        return new_obj" + _GEN_TAIL), None)
R.mutant("benign-r2-generate-early-return-len-test-dict-generator", B, sub(
    _GEN_OLD,
    "        cls = self.__class__\n        s = cls.__new__(cls)\n        if len(self._memoized_keys) == 0:\n"
    "            s.__dict__ = dict(self.__dict__)\n            return s\n        keys = self._memoized_keys\n"
    "        s.__dict__ = dict(\n            (k, v) for k, v in self.__dict__.copy().items() if not (k in keys)\n        )\n"
    "        return s" + _GEN_TAIL), None)
R.mutant("benign-r2-generate-loop-built-with-continue", B, sub(
    _GEN_OLD,
    "        skip = self._memoized_keys\n        cls = self.__class__\n        s = cls.__new__(cls)\n        state = {}\n"
    "        for k, v in self.__dict__.copy().items():\n            if k in skip:\n                continue\n            state[k] = v\n"
    "        s.__dict__ = state\n        return s" + _GEN_TAIL), None)
R.mutant("benign-r2-generate-update-then-pop", B, sub(
    _GEN_OLD,
    "        cls = self.__class__\n        s = cls.__new__(cls)\n        s.__dict__.update(self.__dict__)\n"
    "        for k in self._memoized_keys:\n            if k in s.__dict__:\n                del s.__dict__[k]\n"
    "        return s" + _GEN_TAIL), None)
R.mutant("benign-r2-clone-copy-then-pop-loop", E, sub(
    _CLONE_OLD,
    "        skip = self._memoized_keys\n        cls = self.__class__\n        c = cls.__new__(cls)\n\n        copied_dict = self.__dict__.copy()\n"
    "        if skip:\n            for memoized_key in skip:\n                copied_dict.pop(memoized_key, None)\n        c.__dict__ = copied_dict\n\n        # this is a marker"), None)
R.mutant("benign-r2-clone-key-set-difference", E, sub(
    _CLONE_OLD,
    "        skip = self._memoized_keys\n        c = self.__class__.__new__(self.__class__)\n\n        snapshot = self.__dict__.copy()\n"
    "        c.__dict__ = {k: snapshot[k] for k in snapshot.keys() - skip}\n\n        # this is a marker"), None)
R.mutant("benign-r2-memoized-attribute-registers-through-helper", "util/langhelpers.py", sub(
    "            obj.__dict__[self.__name__] = result = self.fget(obj)\n            obj._memoized_keys |= {self.__name__}\n",
    "            result = self.fget(obj)\n            obj._set_memoized_attribute(self.__name__, result)\n"), None)
R.mutant("memoized-instancemethod-does-not-register", "util/langhelpers.py", sub(
    "            self.__dict__[fn.__name__] = memo\n            self._memoized_keys |= {fn.__name__}\n",
    "            self.__dict__[fn.__name__] = memo\n"), "C03-R2")
R.mutant("set-memoized-attribute-helper-does-not-register", "util/langhelpers.py", chain(
    sub("            obj.__dict__[self.__name__] = result = self.fget(obj)\n            obj._memoized_keys |= {self.__name__}\n",
        "            result = self.fget(obj)\n            obj._set_memoized_attribute(self.__name__, result)\n"),
    sub("        self.__dict__[key] = value\n        self._memoized_keys |= {key}\n", "        self.__dict__[key] = value\n")), "C03-R2")
R.mutant("benign-r2-generate-state-built-by-helper", B, sub(
    _GEN_OLD,
    "        cls = self.__class__\n        s = cls.__new__(cls)\n        s.__dict__ = self._state_without_memoized()\n        return s\n\n"
    "    def _state_without_memoized(self):\n        skip = self._memoized_keys\n        state = self.__dict__.copy()\n        if not skip:\n            return state\n"
    "        return {k: v for k, v in state.items() if k not in skip}" + _GEN_TAIL), None)
R.mutant("generate-state-helper-returns-shared-dict", B, sub(
    _GEN_OLD,
    "        cls = self.__class__\n        s = cls.__new__(cls)\n        s.__dict__ = self._state_without_memoized()\n        return s\n\n"
    "    def _state_without_memoized(self):\n        skip = self._memoized_keys\n        state = self.__dict__\n        if not skip:\n            return state\n"
    "        return {k: v for k, v in state.items() if k not in skip}" + _GEN_TAIL), "C03-R2")
R.mutant("generate-state-helper-does-not-filter", B, sub(
    _GEN_OLD,
    "        cls = self.__class__\n        s = cls.__new__(cls)\n        s.__dict__ = self._state_without_memoized()\n        return s\n\n"
    "    def _state_without_memoized(self):\n        state = self.__dict__.copy()\n        return state" + _GEN_TAIL), "C03-R2")
_DECW_OLD = ('    @util.decorator\n    def _generative(\n        fn: _Fn, self: _SelfGenerativeType, *args: Any, **kw: Any\n    ) -> _SelfGenerativeType:\n'
             '        """Mark a method as generative."""\n\n' + _DEC_OLD + '\n    decorated = _generative(fn)\n')
R.mutant("benign-r2-decorator-closure-style-wrapper", B, sub(
    _DECW_OLD,
    '    def _log(msg: str) -> None:\n        pass\n\n'
    '    def _generative_wrapper(self: Any, *args: Any, **kw: Any) -> Any:\n        new = self._generate()\n        got = fn(new, *args, **kw)\n'
    '        assert got is new, "generative methods must return self"\n        return new\n\n'
    '    decorated = util.decorator(lambda fn_, *a, **k: _generative_wrapper(*a, **k))(fn)\n'), None)
R.mutant("decorator-closure-style-runs-on-original", B, sub(
    _DECW_OLD,
    '    def _generative_wrapper(self: Any, *args: Any, **kw: Any) -> Any:\n        new = self._generate()\n        fn(self, *args, **kw)\n        return new\n\n'
    '    decorated = util.decorator(lambda fn_, *a, **k: _generative_wrapper(*a, **k))(fn)\n'), "C03-R2")

# ---- round-2 seeds (str2-c).  Before the change both were silent: (1) the alias detector only knew names bound once
# by a bare `self.attr[...]` expression, (2) `+=` / in-place sinks were only looked for in the generative method and
# in `self.helper()` methods, not in functions the copy is handed to.
_FETCH_OLD = ("            self._fetch_clause_options = {\n                \"with_ties\": with_ties,\n"
              "                \"percent\": percent,\n            }\n        return self\n")
R.mutant("seed3-fetch-options-updated-through-or-alias", SEL, sub(
    _FETCH_OLD,
    "            fetch_options = self._fetch_clause_options or {}\n"
    "            fetch_options.update(with_ties=with_ties, percent=percent)\n"
    "            self._fetch_clause_options = fetch_options\n        return self\n"), "C03-R1")
R.mutant("fetch-options-item-store-through-alias-chain-and-ternary", SEL, sub(
    _FETCH_OLD,
    "            current = self._fetch_clause_options\n"
    "            merged = current if current is not None else {}\n"
    "            merged[\"with_ties\"] = with_ties\n"
    "            merged[\"percent\"] = percent\n"
    "            self._fetch_clause_options = merged\n        return self\n"), "C03-R1")
R.mutant("fetch-options-updated-in-a-helper-method", SEL, sub(
    _FETCH_OLD,
    "            self._merge_fetch_options(with_ties, percent)\n        return self\n\n"
    "    def _merge_fetch_options(self, with_ties, percent):\n"
    "        opts = self._fetch_clause_options or {}\n"
    "        opts.update(with_ties=with_ties, percent=percent)\n"
    "        self._fetch_clause_options = opts\n"), "C03-R1")
R.mutant("benign-fetch-options-copied-then-updated", SEL, sub(
    _FETCH_OLD,
    "            fetch_options = dict(self._fetch_clause_options or {})\n"
    "            fetch_options.update(with_ties=with_ties, percent=percent)\n"
    "            self._fetch_clause_options = fetch_options\n        return self\n"), None)
R.mutant("benign-fetch-options-rebound-before-alias-is-taken", SEL, sub(
    _FETCH_OLD,
    "            previous = self._fetch_clause_options\n"
    "            self._fetch_clause_options = dict(previous) if previous else {}\n"
    "            target = self._fetch_clause_options\n"
    "            target[\"with_ties\"] = with_ties\n"
    "            target[\"percent\"] = percent\n        return self\n"), None)
R.mutant("benign-fetch-options-fresh-dict-on-both-arms", SEL, sub(
    _FETCH_OLD,
    "            previous = self._fetch_clause_options\n"
    "            merged = {**previous} if previous is not None else {}\n"
    "            merged.update(with_ties=with_ties, percent=percent)\n"
    "            self._fetch_clause_options = merged\n        return self\n"), None)
TRV = "sql/traversals.py"
_ME_OLD = ("    def visit_memoized_select_entities(self, attrname, parent, element, **kw):\n"
           "        return self.visit_clauseelement_tuple(attrname, parent, element, **kw)\n")
R.mutant("seed4-memoized-select-entities-copied-as-list", TRV, sub(
    _ME_OLD,
    "    def visit_memoized_select_entities(self, attrname, parent, element, **kw):\n"
    "        return self.visit_clauseelement_list(attrname, parent, element, **kw)\n"), "C03-R1")
R.mutant("benign-memoized-select-entities-list-visitor-wrapped-in-tuple", TRV, sub(
    _ME_OLD,
    "    def visit_memoized_select_entities(self, attrname, parent, element, **kw):\n"
    "        return tuple(self.visit_clauseelement_list(attrname, parent, element, **kw))\n"), None)
_GFS_OLD = ("            select_stmt._memoized_select_entities += (self,)\n"
            "            select_stmt._raw_columns = []\n")
R.mutant("benign-generate-for-statement-rebinds-with-plus", SEL, sub(
    _GFS_OLD,
    "            memoized = select_stmt._memoized_select_entities\n"
    "            select_stmt._memoized_select_entities = memoized + (self,)\n"
    "            select_stmt._raw_columns = []\n"), None)
R.mutant("generate-for-statement-clears-shared-columns-list", SEL, sub(
    _GFS_OLD,
    "            select_stmt._memoized_select_entities += (self,)\n"
    "            select_stmt._raw_columns.clear()\n"), "C03-R1")
R.mutant("generate-for-statement-as-module-function-appends-to-alias", SEL, chain(
    sub("        # then memoize the FROMs etc.\n        _MemoizedSelectEntities._generate_for_statement(self)\n",
        "        # then memoize the FROMs etc.\n        _memoize_select_entities(self)\n"),
    sub("class _MemoizedSelectEntities(\n",
        "def _memoize_select_entities(stmt):\n"
        "    if stmt._setup_joins or stmt._with_options:\n"
        "        memo = _MemoizedSelectEntities()\n"
        "        memo._raw_columns = stmt._raw_columns\n"
        "        memo._setup_joins = stmt._setup_joins\n"
        "        memo._with_options = stmt._with_options\n"
        "        stmt._memoized_select_entities += (memo,)\n"
        "        columns = stmt._raw_columns\n"
        "        del columns[:]\n"
        "        stmt._setup_joins = stmt._with_options = ()\n\n\n"
        "class _MemoizedSelectEntities(\n", count=1)), "C03-R1")
R.mutant("benign-generate-for-statement-as-module-function", SEL, chain(
    sub("        # then memoize the FROMs etc.\n        _MemoizedSelectEntities._generate_for_statement(self)\n",
        "        # then memoize the FROMs etc.\n        _memoize_select_entities(self)\n"),
    sub("class _MemoizedSelectEntities(\n",
        "def _memoize_select_entities(stmt):\n"
        "    if stmt._setup_joins or stmt._with_options:\n"
        "        memo = _MemoizedSelectEntities()\n"
        "        memo._raw_columns = stmt._raw_columns\n"
        "        memo._setup_joins = stmt._setup_joins\n"
        "        memo._with_options = stmt._with_options\n"
        "        stmt._memoized_select_entities = stmt._memoized_select_entities + (memo,)\n"
        "        stmt._raw_columns = []\n"
        "        stmt._setup_joins = stmt._with_options = ()\n\n\n"
        "class _MemoizedSelectEntities(\n", count=1)), None)
# ---- C03-R5 (memoisations that survive the copy)
DML = "sql/dml.py"
R.mutant("query-join-keeps-last-joined-entity-memo", Q, sub(
    "        self.__dict__.pop(\"_last_joined_entity\", None)\n        return self\n", "        return self\n"), "C03-R5")
R.mutant("filter-by-zero-reads-memo-without-testing-setup-joins", Q, sub(
    "        if self._setup_joins:\n            _last_joined_entity = self._last_joined_entity\n"
    "            if _last_joined_entity is not None:\n                return _last_joined_entity\n",
    "        _last_joined_entity = self._last_joined_entity\n"
    "        if _last_joined_entity is not None:\n            return _last_joined_entity\n"), "C03-R5")
R.mutant("benign-r5-query-join-drops-memo-with-del", Q, sub(
    "        self.__dict__.pop(\"_last_joined_entity\", None)\n        return self\n",
    "        if \"_last_joined_entity\" in self.__dict__:\n            del self.__dict__[\"_last_joined_entity\"]\n        return self\n"), None)
R.mutant("benign-r5-filter-by-zero-guard-through-alias-and-early-exit", Q, sub(
    "        if self._setup_joins:\n            _last_joined_entity = self._last_joined_entity\n"
    "            if _last_joined_entity is not None:\n                return _last_joined_entity\n",
    "        query = self\n        joins = query._setup_joins\n"
    "        last = query._last_joined_entity if joins else None\n"
    "        if last is not None:\n            return last\n"), None)
R.mutant("benign-r5-dml-memos-registered-in-memoized-keys", DML, chain(
    sub("from .. import util\n", "from .. import util\nfrom ..util import HasMemoized_ro_memoized_attribute\n", count=1),
    sub("    @util.ro_memoized_property\n    def _all_selected_columns(self)", "    @HasMemoized_ro_memoized_attribute\n    def _all_selected_columns(self)"),
    sub("    @util.ro_memoized_property\n    def exported_columns(\n", "    @HasMemoized_ro_memoized_attribute\n    def exported_columns(\n")), None)
R.mutant("dml-return-defaults-memo-survives", DML, sub(
    "    @util.ro_memoized_property\n    def exported_columns(\n",
    "    @util.memoized_property\n    def _return_defaults_names(self):\n"
    "        return [c.key for c in self._return_defaults_columns]\n\n"
    "    @util.ro_memoized_property\n    def exported_columns(\n"), "C03-R5")
