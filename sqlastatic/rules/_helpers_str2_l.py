"""Helpers of the round-2 strengthening pass for C27 / C28 (str2-l).

* `pure_helper_value`  -- `self.h(a)` / `h(a)` whose body is a single `return <expr>`: the expression with the
                          parameters replaced by the arguments (one level; anything else -> None).
* `ancestry_kind`      -- what part of a class's ancestry an iterable expression denotes: 'all' (the linearised
                          ancestry: `T.__mro__`, `T.mro()`, `inspect.getmro(T)`, possibly without its head / without
                          `object`), 'direct' (`T.__bases__`, `(T.__base__,)`, a bounded prefix of the MRO), or None.
* `SlotStores`         -- two-level insertions `M[a][b] = c` into module-level registry maps, read after alias
                          resolution, with the *provenance* of the inner mapping that is written to: the registry's own
                          slot object (`M[a]`, `M.setdefault(a, ..)`) or a possibly detached default
                          (`M.get(a, {})`, `M.get(a) or {}`, a fresh display that is not stored back).
"""

from __future__ import annotations

import ast
import copy
from typing import Dict, List, Optional, Tuple

from ..astutil import call_name, dotted, name_stores, unparse, walk_local
from ..cfg import no_exc

_WRAPPERS = ("list", "tuple", "reversed", "iter")


def _subst(e: ast.expr, env: Dict[str, ast.expr]) -> ast.expr:
    class T(ast.NodeTransformer):
        def visit_Name(self, n):
            if isinstance(n.ctx, ast.Load) and n.id in env:
                return copy.deepcopy(env[n.id])
            return n
    return T().visit(copy.deepcopy(e))


def pure_helper_value(ctx, f, call: ast.Call) -> Optional[ast.expr]:
    """value of a call to a one-expression helper (`def h(self, t): return t.__mro__[1:]`), or None"""
    nm = call_name(call) or ""
    h = None
    skip = 0
    if nm.startswith(("self.", "cls.")) and nm.count(".") == 1 and f.cls is not None:
        h = ctx.index.resolve_method(f.cls, nm.split(".")[1])
        skip = 1
        if h is not None and "staticmethod" in " ".join(h.decorators):
            skip = 0
    elif "." not in nm and nm:
        r = ctx.index.resolve(f.module, nm)
        h = r if hasattr(r, "params") and hasattr(r, "node") and getattr(r, "cls", None) is None else None
    if h is None or h.node.args.vararg or h.node.args.kwarg or isinstance(h.node, ast.AsyncFunctionDef):
        return None
    body = [s for s in h.node.body
            if not (isinstance(s, ast.Expr) and isinstance(s.value, ast.Constant) and isinstance(s.value.value, str))]
    if len(body) != 1 or not isinstance(body[0], ast.Return) or body[0].value is None:
        return None
    if any(isinstance(a, ast.Starred) for a in call.args):
        return None
    params = h.params[skip:]
    env = dict(zip(params, call.args))
    for k in call.keywords:
        if k.arg is None:
            return None
        env[k.arg] = k.value
    if set(params) - set(env):
        return None
    ctx.functions_analysed.add(h.key)
    return _subst(body[0].value, env)


def _is_minus_one(e) -> bool:
    return isinstance(e, ast.UnaryOp) and isinstance(e.op, ast.USub) and isinstance(e.operand, ast.Constant) and e.operand.value == 1


def ancestry_kind(e: ast.expr, tgt: str, resolve_call=None, depth: int = 0) -> Optional[str]:
    """'all' | 'direct' | None for an iterable of classes derived from the class held in the name `tgt`."""
    if e is None or depth > 4:
        return None
    if isinstance(e, ast.Call):
        nm = call_name(e) or ""
        last = nm.split(".")[-1]
        if last in _WRAPPERS and len(e.args) == 1 and not e.keywords and "." not in nm:
            return ancestry_kind(e.args[0], tgt, resolve_call, depth + 1)
        if nm == f"{tgt}.mro" and not e.args:
            return "all"
        if last in ("getmro", "mro") and len(e.args) == 1 and dotted(e.args[0]) == tgt and nm in ("inspect.getmro", "getmro", "type.mro"):
            return "all"
        if resolve_call is not None:
            v = resolve_call(e)
            if v is not None:
                return ancestry_kind(v, tgt, resolve_call, depth + 1)
        return None
    if isinstance(e, ast.Subscript):
        inner = ancestry_kind(e.value, tgt, resolve_call, depth + 1)
        if inner is None:
            return None
        s = e.slice
        if isinstance(s, ast.Slice):
            if s.step is not None:
                return None
            if s.upper is None or _is_minus_one(s.upper):    # drops the head / drops `object`: still every ancestor
                return inner
            return "direct"                                  # a bounded prefix of the ancestry
        return None
    if isinstance(e, ast.Attribute):
        if dotted(e.value) != tgt:
            return None
        if e.attr == "__mro__":
            return "all"
        if e.attr == "__bases__":
            return "direct"
        return None
    if isinstance(e, (ast.Tuple, ast.List)):
        if e.elts and all(isinstance(x, ast.Attribute) and dotted(x.value) == tgt and x.attr == "__base__" for x in e.elts):
            return "direct"
        return None
    return None


# ---------------------------------------------------------------------- registry slot insertions
def _fresh_container(e) -> bool:
    if isinstance(e, (ast.Dict, ast.List, ast.Set)):
        return True
    if isinstance(e, ast.Call):
        nm = (call_name(e) or "").split(".")[-1]
        return nm in ("dict", "OrderedDict", "defaultdict", "WeakKeyDictionary") and not e.args
    return False


def slot_origin(e: ast.expr, maps) -> Optional[Tuple[str, str, str, str]]:
    """(kind, map, key text, spelled as) for an expression that denotes the inner mapping `M[key]` of a registry
    map: kind 'live' = the object stored in the registry (reading a missing key of a defaultdict creates and stores
    it; a plain dict raises), 'detached' = possibly a throw-away default that the registry does not hold."""
    if isinstance(e, ast.Subscript) and isinstance(e.value, ast.Name) and e.value.id in maps and not isinstance(e.slice, ast.Slice):
        return ("live", e.value.id, unparse(e.slice), unparse(e))
    if isinstance(e, ast.Call) and isinstance(e.func, ast.Attribute) and isinstance(e.func.value, ast.Name) and e.func.value.id in maps:
        m = e.func.value.id
        if e.func.attr == "setdefault" and e.args:
            return ("live", m, unparse(e.args[0]), unparse(e))
        if e.func.attr == "get" and e.args:
            has_default = len(e.args) > 1 or any(k.arg == "default" for k in e.keywords)
            # without a default a missing key gives None: the store raises instead of being lost
            return ("detached" if has_default else "live", m, unparse(e.args[0]), unparse(e))
        return None
    if isinstance(e, ast.BoolOp) and isinstance(e.op, ast.Or):
        first = slot_origin(e.values[0], maps)
        if first is not None and any(_fresh_container(v) for v in e.values[1:]):
            return ("detached", first[1], first[2], unparse(e))
        return None
    if isinstance(e, ast.IfExp):
        a, b = slot_origin(e.body, maps), slot_origin(e.orelse, maps)
        for x, other in ((a, e.orelse), (b, e.body)):
            if x is not None and _fresh_container(other):
                return ("detached", x[1], x[2], unparse(e))
        if a is not None and b is not None and a[1:3] == b[1:3]:
            return ("detached" if "detached" in (a[0], b[0]) else "live", a[1], a[2], unparse(e))
        return None
    return None


class Insertion:
    __slots__ = ("stmt", "node", "map", "k1", "k2", "val", "kind", "spelled", "recv")

    def __repr__(self):
        return f"{self.map}[{self.k1}][{self.k2}] = {self.val}"


def slot_insertions(f, g, inl, maps) -> List[Insertion]:
    """Every `X[k2] = v` of the function where X denotes (after alias resolution) the inner mapping of a registry
    map.  A receiver that is a local bound in several places is followed through all of its bindings: it is 'live'
    only if each binding is the registry's own slot, or is stored back (`M[k] = X`, chained or later) on every path
    to the insertion."""
    binds: Dict[str, List[Tuple[Optional[ast.expr], ast.AST]]] = {}
    for nm, v, st in name_stores(f.node):
        binds.setdefault(nm, []).append((v, st))
    out = []
    for st in walk_local(f.node):
        if not isinstance(st, ast.Assign):
            continue
        for t in st.targets:
            if not (isinstance(t, ast.Subscript) and not isinstance(t.slice, ast.Slice)):
                continue
            recv = inl(t.value)
            org = slot_origin(recv, maps)
            if org is None and isinstance(t.value, ast.Name) and t.value.id not in inl.env and t.value.id in binds:
                org = _multi_bound_origin(f, g, inl, maps, t.value.id, binds[t.value.id], st)
            if org is None:
                continue
            nodes = g.nodes_for(st)
            if not nodes:
                continue
            i = Insertion()
            i.stmt, i.node, i.kind, i.map, i.k1, i.spelled = st, nodes[0], org[0], org[1], org[2], org[3]
            i.k2, i.val, i.recv = inl.text(t.slice), inl.text(st.value), unparse(t.value)
            out.append(i)
    return out


def _links(f, g, maps, name):
    """statements that store the local `name` into a registry map: `M[k] = name` (also as a chained target)"""
    out = []
    for st in walk_local(f.node):
        if isinstance(st, ast.Assign):
            into = [t for t in st.targets if isinstance(t, ast.Subscript) and isinstance(t.value, ast.Name) and t.value.id in maps]
            if not into:
                continue
            chained = any(isinstance(t, ast.Name) and t.id == name for t in st.targets)
            if chained or (isinstance(st.value, ast.Name) and st.value.id == name):
                out.append((st, into[0]))
    return out


def _multi_bound_origin(f, g, inl, maps, name, bs, use_stmt):
    links = _links(f, g, maps, name)
    link_nodes = [n for st, _ in links for n in g.nodes_for(st)]
    use_nodes = g.nodes_for(use_stmt)
    origins = []
    for v, st in bs:
        if v is None:
            return None
        if isinstance(v, ast.Constant) and v.value is None:
            continue                                     # a store into None raises: nothing is lost silently
        chained = [t for lst, t in links if lst is st]
        if chained:                                      # x = M[k] = {}
            origins.append(("live", chained[0].value.id, inl.text(chained[0].slice), unparse(chained[0])))
            continue
        org = slot_origin(inl(v), maps)
        if org is None:
            if not (_fresh_container(v) and links):
                return None
            # a fresh mapping is the registry's only once it was stored there
            org = ("detached", links[0][1].value.id, inl.text(links[0][1].slice), unparse(v))
        if org[0] == "detached":
            reaches = any(g.witness([b], use_nodes, avoid=link_nodes, edge_ok=no_exc) is not None for b in g.nodes_for(st))
            if not reaches:
                org = ("live",) + tuple(org[1:])
        origins.append(tuple(org))
    if not origins:
        return None
    bad = [o for o in origins if o[0] == "detached"]
    return bad[0] if bad else origins[0]


# ---------------------------------------------------------------------- branch tests evaluated in a small model
class _Unknown:
    def __repr__(self):
        return "UNKNOWN"


UNKNOWN = _Unknown()


class Raises(Exception):
    """evaluating the expression in the model raises (attribute of None, ...)"""


def eval_model(e: ast.expr, leaf):
    """Value of the side-effect free test `e` when `leaf(expr)` gives the value of the sub-expressions the model
    knows (a Python value), UNKNOWN for those it does not, or raises `Raises`.  not / and / or short-circuit as in
    Python, with UNKNOWN propagated three-valued; comparisons is / is not / == / != / < / <= / > / >=."""
    v = leaf(e)
    if v is not NotImplemented:
        return v
    if isinstance(e, ast.Constant):
        return e.value
    if isinstance(e, ast.UnaryOp) and isinstance(e.op, ast.Not):
        x = eval_model(e.operand, leaf)
        return UNKNOWN if x is UNKNOWN else (not x)
    if isinstance(e, ast.BoolOp):
        is_and = isinstance(e.op, ast.And)
        unknown = False
        last = None
        for sub_ in e.values:
            try:
                x = eval_model(sub_, leaf)
            except Raises:
                if unknown:          # whether this operand is evaluated at all is not known
                    return UNKNOWN
                raise
            if x is UNKNOWN:
                unknown = True
                continue
            if bool(x) != is_and:    # decisive operand: false in `and`, true in `or`
                return x if not unknown else (not is_and)
            last = x
        return UNKNOWN if unknown else last
    if isinstance(e, ast.IfExp):
        t = eval_model(e.test, leaf)
        if t is UNKNOWN:
            return UNKNOWN
        return eval_model(e.body if t else e.orelse, leaf)
    if isinstance(e, ast.Compare) and len(e.ops) == 1:
        a, b = eval_model(e.left, leaf), eval_model(e.comparators[0], leaf)
        if a is UNKNOWN or b is UNKNOWN:
            return UNKNOWN
        op = e.ops[0]
        try:
            if isinstance(op, ast.Is):
                return a is b
            if isinstance(op, ast.IsNot):
                return a is not b
            if isinstance(op, ast.Eq):
                return a == b
            if isinstance(op, ast.NotEq):
                return a != b
            if isinstance(op, ast.Lt):
                return a < b
            if isinstance(op, ast.LtE):
                return a <= b
            if isinstance(op, ast.Gt):
                return a > b
            if isinstance(op, ast.GtE):
                return a >= b
        except TypeError:
            raise Raises(unparse(e))
    return UNKNOWN


def model_cut(g, leaf):
    """branch edges (node, label, succ) that the model excludes: the outcome the test does not have; both outcomes
    of a test whose evaluation raises"""
    from ._helpers_rules_c import outcome
    out = []
    for n in g.nodes:
        if n.kind != "test":
            continue
        try:
            v = eval_model(n.stmt.test, leaf)
        except Raises:
            v = Raises
        for b, lab0 in g.succ[n.id]:
            lab = outcome(g, n.id, lab0)
            if lab is None:
                continue
            if v is Raises or (v is not UNKNOWN and bool(v) != (lab == "true")):
                out.append((n.id, lab0, b))
    return out
