"""C25 -- The pool never hands one connection to two holders and respects its limits (lock discipline)."""

from __future__ import annotations

import ast

from ..astutil import (
    attr_stores, call_name, calls_in, dotted, enclosing_withs, func_defaults, guard_atoms, lexical_guards, name_stores,
    names_in, own_exprs, test_atoms, unparse, walk_local,
)
from ..cfg import no_exc
from ..report import Registry, sub, chain
from ._helpers_rules_c import (
    attr_store_sites, both, call_nodes, calls_ending, cut_edges, must_pass, quiet, rcfg, test_edges,
    PathSense, is_logging_call as _is_log, outcome as _outcome, own_calls as _own_calls,
)
from ._helpers_rob_a import helper_callers, normal_form, transitive_owners

# attributes other threads change at any time: a local computed from them is a snapshot, never an alias
VOLATILE = ("self._overflow", "self.queue")


def _nf(ctx, f, *keep, alias="all", inline=True, temps=False):
    """Function (key or FuncInfo) in refactoring-robust normal form: extracted helpers inlined, single-assignment
    locals resolved unless they snapshot shared mutable state (see _helpers_rob_a)."""
    if isinstance(f, str):
        f = ctx.func(f)
    return normal_form(ctx, f, keep=keep, alias=alias, inline=inline, volatile=VOLATILE, temps=temps)

R = Registry(
    "C25",
    title="The pool never hands one connection to two holders and respects its limits",
    decides=(
        "lock discipline of the pool bookkeeping: QueuePool._overflow is written only under "
        "_overflow_lock (or when no limit is enforced) and the limit test and increment share one lock "
        "region; the overflow counter is released on every failing connection creation / overflowing "
        "return; util.queue.Queue touches its deque only under its (single) lock, waits in predicate "
        "loops and notifies the opposite condition after every put/get; every Pool subclass implements "
        "both halves of the checkout protocol; fairy_ref has a closed set of writers and check-in refuses "
        "a second check-in; the gc finalizer acts on a record only after comparing the record's fairy_ref "
        "with the weakref it was called with; _create_connection() only behind a taken overflow slot; the "
        "limit comparisons of QueuePool agree on the cut point; checkout blocks iff at the limit and times "
        "out only after blocking; the deque is appended/popped only after a fresh not-full/not-empty outcome; every "
        "exceptional exit of a function of pool/base.py that holds a record and hands it back on its way also hands it "
        "back (no slot is lost when a finaliser, listener, reset or reconnect raises or is cancelled: C25-R7)."
    ),
    not_decided=(
        "absence of races for all thread schedules (model checking); the unlocked read of _overflow in "
        "QueuePool._do_get; AsyncAdaptedQueue (delegates to asyncio.Queue)."
    ),
)

IMPL = "pool/impl.py"
POOL = "pool/base.py"
QUEUE = "util/queue.py"

# C25-R1: writers of QueuePool._overflow that need no lock, with the reason
OVERFLOW_UNLOCKED_OK = {
    f"{IMPL}::QueuePool.__init__": "constructor: the pool is not shared yet",
    f"{IMPL}::QueuePool.dispose": "dispose(): by contract no concurrent users; counter re-based after draining the queue",
}


def _lock_withs(pm, node, stop, lock):
    return [w for w in enclosing_withs(pm, node)
            if any(dotted(i.context_expr) == lock for i in w.items)]


@R.rule("C25-R1", floor=8, template="T-GUARD/T-PATH",
        desc="every write of QueuePool._overflow is under _overflow_lock, or on a branch where "
             "_max_overflow == -1, or in __init__/dispose; in _inc_overflow the limit test and the "
             "increment share one lock region, and the method answers true exactly on the paths that incremented")
def r1(ctx):
    ix = ctx.index
    qp = ix.cls(f"{IMPL}::QueuePool")
    sites = attr_store_sites(ix, "_overflow")
    ctx.require(sites, "no store to `_overflow` found in the package")
    per_owner = {}
    for owner, d, st, m in sites:
        per_owner.setdefault(owner, []).append((d, st, m))
    for owner in sorted(per_owner):
        for i, (d, st, m) in enumerate(per_owner[owner]):
            kind = "aug" if isinstance(st, ast.AugAssign) else "set"
            key = f"{owner}:_overflow:{kind}" + (f"#{i}" if sum(1 for x in per_owner[owner] if isinstance(x[1], type(st))) > 1 else "")
            loc = f"{m.path}:{st.lineno}"
            cls_name = owner.split("::")[1].split(".")[0]
            cls = m.classes.get(cls_name)
            if not (cls is not None and (cls is qp or ix.is_subclass(cls, qp)) and d == "self._overflow"):
                ctx.violation(key, f"`{unparse(st)}` writes a pool's overflow counter from outside QueuePool (no lock can be held)", loc)
                continue
            if owner in OVERFLOW_UNLOCKED_OK:
                ctx.ok(key, "unlocked by contract: " + OVERFLOW_UNLOCKED_OK[owner], nontrivial=False)
                continue
            how = _write_protected(ctx, ix.func(owner), st, 2)
            if how is not None and len(how) > 1:
                # a write extracted into a private helper: one obligation per place the helper is called from
                for j, h in enumerate(how):
                    ctx.ok(f"{key}@call#{j}", h)
                continue
            ctx.check(how is not None, key,
                      f"`{unparse(st)}` changes the overflow counter outside `with self._overflow_lock` "
                      f"while a limit is enforced (lost update / limit overrun under concurrency)",
                      (how or [""])[0], loc)
    # check-then-act atomicity in _inc_overflow.  Every increment that can run while a limit is
    # enforced must be dominated (on the CFG: nested `if`, early return, either style) by a branch
    # outcome that establishes `_overflow < _max_overflow`, and that test must be evaluated inside the
    # very `with self._overflow_lock` statement that holds the increment.  A second, unlocked copy of
    # the test (fast path) is harmless and ignored; a test that lives only outside the region is not.
    f = _nf(ctx, f"{IMPL}::QueuePool._inc_overflow")
    pm = f.pm
    g = ctx.cfg(f)
    incs = [st for d, t, st in attr_stores(f.node) if d == "self._overflow" and isinstance(st, ast.AugAssign)]
    ctx.require(incs, "_inc_overflow does not increment self._overflow")
    problems, limited = [], 0
    for st in incs:
        ctx.require(isinstance(st.op, ast.Add) and isinstance(st.value, ast.Constant) and st.value.value == 1,
                    f"_inc_overflow changes the counter by `{unparse(st)}`; only `+= 1` is understood")
        doms = None
        for n in g.nodes_for(st):
            here = [(id(t), t, p) for t, p in g.edge_guards(n)]
            doms = here if doms is None else [x for x in doms if x[0] in {y[0] for y in here}]
        guards = [(t, p) for _, t, p in (doms or [])]
        if ("self._max_overflow == -1", True) in guard_atoms(guards):
            continue  # unlimited pool: nothing to keep below
        limited += 1
        ws = _lock_withs(pm, st, f.node, "self._overflow_lock")
        region = ws[0] if ws else None   # innermost lock statement around the increment
        facts = []                        # (kind, compare expr, site node) over all dominating outcomes
        for t, pol in guards:
            facts.extend(_limit_facts(ctx, f, pm, t, pol, t))
        strict_in = [x for x in facts if x[0] == "lt" and region is not None and _inside(pm, x[2], region)]
        if strict_in:
            continue
        strict_out = [x for x in facts if x[0] == "lt"]
        weak = [x for x in facts if x[0] == "le"]
        if strict_out:
            problems.append(
                f"the limit test `{unparse(strict_out[-1][1])}` (line {strict_out[-1][2].lineno}) is evaluated outside the "
                f"`with self._overflow_lock` region that holds `{unparse(st)}` (line {st.lineno}): two threads that "
                f"both see one free slot both increment (check-then-act, limit overrun)")
        elif weak:
            problems.append(
                f"limit test `{unparse(weak[-1][1])}` (line {weak[-1][2].lineno}) lets `{unparse(st)}` run when "
                f"_overflow == _max_overflow (off by one: the counter ends above the limit)")
        else:
            problems.append(f"`{unparse(st)}` (line {st.lineno}) is not dominated by any comparison of _overflow with _max_overflow")
    ctx.require(limited >= 1, "_inc_overflow has no increment on the limited (`_max_overflow != -1`) path")
    ctx.check(not problems, f.key + ":check-then-act", "; ".join(problems),
              "`_overflow < _max_overflow` decided and `+= 1` executed in one `with self._overflow_lock` region", f.loc)
    # the answer of _inc_overflow() is the caller's licence to open a connection: truthy exactly on the
    # paths that took a slot
    incn = [n for st in incs for n in g.nodes_for(st)]
    after_inc = g.reachable(incn, edge_ok=no_exc)
    rets = [n for n in g.nodes if n.kind == "stmt" and isinstance(n.stmt, ast.Return)]
    ctx.require(rets, "_inc_overflow has no return statement")
    bad = []
    w = g.witness([g.entry], [g.exit], avoid=[n.id for n in rets], edge_ok=no_exc)
    if w is not None and any(x in incn for x in w):
        bad.append("a path that increments falls off the end (returns None): the slot is taken but the caller is told 'no'")
    for n in rets:
        v = n.stmt.value
        if v is None or isinstance(v, ast.Constant):
            if v is not None and bool(v.value):
                if g.always_preceded(n.id, incn, edge_ok=no_exc) is not None:
                    bad.append(f"line {n.stmt.lineno}: `{unparse(n.stmt)}` is reachable without `_overflow += 1`: the caller opens a "
                               f"connection the counter does not know about")
            elif n.id in after_inc:
                bad.append(f"line {n.stmt.lineno}: `{unparse(n.stmt)}` after `_overflow += 1`: the slot is taken but the caller is "
                           f"told 'no' (nobody will ever release it)")
            continue
        flag = v.id if isinstance(v, ast.Name) and _single_local(f.node, v.id) is not None else None
        ctx.require(flag is not None, f"_inc_overflow returns `{unparse(v)}`; only constants and a single-assignment flag are understood")
        no = test_edges(g, lambda t, p, flag=flag: t == flag and p is False)
        if any((flag, True) not in guard_atoms(g.edge_guards(i)) for i in incn if ("self._max_overflow == -1", True) not in guard_atoms(g.edge_guards(i))):
            bad.append(f"line {n.stmt.lineno}: returns `{flag}` but an increment is not conditional on `{flag}`")
        if g.witness([g.entry], [n.id], avoid=incn, edge_ok=both(no_exc, cut_edges(no))) is not None:
            bad.append(f"line {n.stmt.lineno}: returns `{flag}` on a path that neither increments nor knows `{flag}` to be false")
    ctx.check(not bad, f.key + ":answer-matches-increment", "; ".join(bad),
              "returns true exactly on the paths that incremented", f.loc)


def _write_protected(ctx, f0, node, depth):
    """Why the statement / call `node` of function f0 cannot race on the overflow counter: it sits in a
    `with self._overflow_lock` region, or is dominated by `_max_overflow == -1` (no limit to keep), or f0 is a
    private helper every call of which (from QueuePool itself) is so protected.  Answers the list of reasons (one
    per protected place: the write itself, or each call site of the helper), None = unprotected."""
    f = _nf(ctx, f0, inline=False)
    g = ctx.cfg(f)
    copies = f.copies(node)
    ctx.require(copies, f"{f.key}: lost track of `{unparse(node)[:60]}` in the normal form")
    how = set()
    for c in copies:
        st = c
        while not isinstance(st, ast.stmt):
            st = f.pm[st]
        if _lock_withs(f.pm, st, None, "self._overflow_lock"):
            how.add("inside `with self._overflow_lock`")
            continue
        nodes = g.nodes_for(st)
        if nodes and all(("self._max_overflow == -1", True) in guard_atoms(g.edge_guards(n)) for n in nodes):
            how.add("no lock needed: dominated by `_max_overflow == -1`")
            continue
        how.add(None)
    if None not in how:
        return ["; ".join(sorted(how))]
    if depth <= 0:
        return None
    callers = helper_callers(ctx.index, f0)
    if not callers:
        return None
    name, why = f0.name, []
    for ck in callers:
        if ck == f0.key:
            continue
        cf = ctx.index.func(ck)
        ctx.functions_analysed.add(cf.key)
        for c in calls_in(cf.node):
            if isinstance(c.func, ast.Attribute) and c.func.attr == name:
                r = _write_protected(ctx, cf, c, depth - 1)
                if r is None:
                    return None
                why.extend(f"in the private helper {name}, called from {cf.qualname}: {x}" for x in r)
    return why or None


def _anc(pm, node):
    cur = pm.get(node)
    while cur is not None:
        yield cur
        cur = pm.get(cur)


def _inside(pm, node, region) -> bool:
    return any(a is region for a in _anc(pm, node))


def _single_local(fn, name):
    """(value, statement) of the only binding of local `name` in fn, else None."""
    hits = [(v, st) for nm, v, st in name_stores(fn) if nm == name]
    if len(hits) == 1 and hits[0][0] is not None and name not in {a.arg for a in fn.args.posonlyargs + fn.args.args + fn.args.kwonlyargs}:
        return hits[0]
    return None


def _conj(test, pol):
    """Conjunctive atoms (expr, polarity) of a branch outcome, as AST (cf. astutil.test_atoms)."""
    if isinstance(test, ast.UnaryOp) and isinstance(test.op, ast.Not):
        return _conj(test.operand, not pol)
    if isinstance(test, ast.BoolOp) and ((isinstance(test.op, ast.And) and pol) or (isinstance(test.op, ast.Or) and not pol)):
        out = []
        for v in test.values:
            out.extend(_conj(v, pol))
        return out
    return [(test, pol)]


def _dnf(test, pol, fn=None, depth=0):
    """Branch outcome as a disjunction of conjunctions: [[(expr, polarity), ...], ...].  The false edge of
    `a and b` is [[(a, False)], [(b, False)]]; boolean single-assignment locals of `fn` are expanded.
    Capped at 16 disjuncts (AnalysisError beyond: not an idiom we understand)."""
    if isinstance(test, ast.UnaryOp) and isinstance(test.op, ast.Not):
        return _dnf(test.operand, not pol, fn, depth)
    if isinstance(test, ast.BoolOp):
        parts = [_dnf(v, pol, fn, depth) for v in test.values]
        if isinstance(test.op, ast.And) == pol:      # conjunction of the parts
            out = [[]]
            for d in parts:
                out = [a + b for a in out for b in d]
                if len(out) > 16:
                    from ..errors import AnalysisError
                    raise AnalysisError(f"condition `{unparse(test)[:80]}` is too branchy to reason about")
            return out
        return [c for d in parts for c in d]        # disjunction of the parts
    if isinstance(test, ast.Name) and fn is not None and depth < 2:
        loc = _single_local(fn, test.id)
        if loc is not None and isinstance(loc[0], (ast.Compare, ast.BoolOp, ast.UnaryOp)):
            return _dnf(loc[0], pol, fn, depth + 1)
    return [[(test, pol)]]


def _edges_establishing(g, fn, fact, known=None):
    """(full, partial): branch edges [(test node, label, succ)] on which `fact(expr, polarity)` holds in
    every disjunct of the outcome / in some disjuncts only (the latter would need path-sensitive
    reasoning; see _unguarded).  `known` = {atom text: bool}: alternatives of an outcome that contradict it
    are not possible (`not block and empty()` false, with block known false, leaves `not empty()`)."""
    out, part = [], []
    known = known or {}
    for n in g.nodes:
        if n.kind != "test":
            continue
        for b, lab0 in g.succ[n.id]:
            lab = _outcome(g, n.id, lab0)
            if lab is None:
                continue
            d = _dnf(n.stmt.test, lab == "true", fn)
            if known:
                d = [c for c in d if not any(unparse(a) in known and known[unparse(a)] is not p for a, p in c)]
                if not d:
                    out.append((n.id, lab0, b))     # impossible outcome under `known`
                    continue
            hits = [any(fact(a, p) for a, p in c) for c in d]
            if all(hits):
                out.append((n.id, lab0, b))
            elif any(hits):
                part.append((n.id, lab0, b))
    return out, part


def _unguarded(ctx, g, starts, targets, edges, what, base_ok=None):
    """Witness path (node ids) from `starts` to `targets` that takes no establishing edge, or None.
    If such a path exists only because some outcome establishes the fact on some of its alternatives
    (`if a and <fact>` false edge), the idiom is not understood: AnalysisError, never a verdict."""
    full, part = edges
    w = g.witness(starts, targets, edge_ok=both(base_ok, cut_edges(full)))
    if w is not None and part and g.witness(starts, targets, edge_ok=both(base_ok, cut_edges(full + part))) is None:
        n = g.nodes[part[0][0]]
        ctx.require(False, f"line {n.stmt.lineno}: an outcome of `{unparse(n.stmt.test)[:80]}` establishes {what} on some "
                           f"alternatives only and a path depends on it; not understood")
    return w


_OVF, _MAX = "self._overflow", "self._max_overflow"


def _limit_facts(ctx, f, pm, test, pol, site, depth=0):
    """What a branch outcome says about `_overflow` vs `_max_overflow`:
    [("lt" | "le" | "ge" | "gt", compare expr, node where the comparison is evaluated)], the relation
    `_overflow <kind> _max_overflow` that holds on that outcome (mirrored / negated forms normalised).  Followed through one single-assignment local (`ok = <cmp>` ... `if ok:` -- the site
    is the assignment) and one argument-less `self.m()` whose body is a single `return <expr>` (the site
    is the call).  A comparison of the two attributes in any other shape is an unknown idiom."""
    out = []
    for a, p in _conj(test, pol):
        if isinstance(a, ast.Name) and depth < 2:
            loc = _single_local(f.node, a.id)
            if loc is not None:
                out.extend(_limit_facts(ctx, f, pm, loc[0], p, loc[1], depth + 1))
            continue
        if isinstance(a, ast.Call) and not a.args and not a.keywords and (call_name(a) or "").startswith("self.") \
                and (call_name(a) or "").count(".") == 1 and depth < 2 and f.cls is not None:
            h = ctx.index.resolve_method(f.cls, call_name(a)[5:])
            body = [s for s in h.node.body if not (isinstance(s, ast.Expr) and isinstance(s.value, ast.Constant))] if h else []
            if len(body) == 1 and isinstance(body[0], ast.Return) and body[0].value is not None:
                ctx.functions_analysed.add(h.key)
                for kind, cmp_, _s in _limit_facts(ctx, h, h.module.parents(), body[0].value, p, a, depth + 1):
                    out.append((kind, cmp_, site if depth else a))
            continue
        attrs = {dotted(x) for x in ast.walk(a) if isinstance(x, ast.Attribute)}
        if not {_OVF, _MAX} <= attrs or isinstance(a, ast.BoolOp):
            continue   # (a disjunctive outcome says nothing definite about the counter)
        ctx.require(isinstance(a, ast.Compare) and len(a.ops) == 1
                    and {dotted(a.left), dotted(a.comparators[0])} == {_OVF, _MAX}
                    and isinstance(a.ops[0], (ast.Lt, ast.LtE, ast.Gt, ast.GtE)),
                    f"{f.key}: `{unparse(a)}` relates _overflow and _max_overflow in a shape that is not understood")
        op = type(a.ops[0])
        if dotted(a.left) == _MAX:   # mirror: max > ovf  ==  ovf < max
            op = {ast.Lt: ast.Gt, ast.Gt: ast.Lt, ast.LtE: ast.GtE, ast.GtE: ast.LtE}[op]
        if not p:                     # negate
            op = {ast.Lt: ast.GtE, ast.GtE: ast.Lt, ast.LtE: ast.Gt, ast.Gt: ast.LtE}[op]
        kind = {ast.Lt: "lt", ast.LtE: "le", ast.GtE: "ge", ast.Gt: "gt"}[op]
        out.append((kind, a, site if depth else a))
    return out


# ---------------------------------------------------------------------- C25-R2 (shared with C26-R5)
_DO_GET_KEEP = ("_inc_overflow", "_dec_overflow", "_create_connection", "_do_get", "get")


def overflow_pairing(ctx):
    f = _nf(ctx, f"{IMPL}::QueuePool._do_get", *_DO_GET_KEEP, alias="dotted", temps=True)
    # strict: `except Exception` does not stop CancelledError / KeyboardInterrupt / GreenletExit, and a
    # cancelled asyncio checkout inside creator() is an everyday event for AsyncAdaptedQueuePool
    g = rcfg(ctx, f, strict_exc=True)
    dec = calls_ending(g, "_dec_overflow")
    got = test_edges(g, lambda t, p: t == "self._inc_overflow()" and p is True)
    ctx.require(got, "no `if self._inc_overflow():` branch in QueuePool._do_get")
    region = g.reachable([b for _, _, b in got])
    create = [n for n in calls_ending(g, "_create_connection") if n in region]
    ctx.require(calls_ending(g, "_create_connection"), "QueuePool._do_get never calls _create_connection()")
    if not create:
        ctx.violation(f.key + ":create-failure",
                      "the branch taken after a successful _inc_overflow() never calls _create_connection(): the overflow "
                      "slot is taken and no connection is opened for it (the pool shrinks by one for ever)", f.loc)
    w = None
    for n in create:
        w = g.must_pass([n], [g.raise_exit], dec, edge_ok=quiet(g), start_edge_ok=lambda a, b, lab: lab == "exc")
        if w:
            break
    if create:
        ctx.check(w is None, f.key + ":create-failure",
                  "an exception from _create_connection() leaves _do_get with the overflow slot still taken "
                  "(the pool shrinks by one connection for ever)",
                  "create failure -> _dec_overflow() -> re-raise", f.loc, w)
    # no path decrements twice / decrements on success
    succ_ret = [n.id for n in g.nodes if n.kind == "stmt" and isinstance(n.stmt, ast.Return) and n.id in create]
    fr = _nf(ctx, f"{IMPL}::QueuePool._do_return_conn", "_dec_overflow", "put", "put_nowait", "close", alias="dotted")
    gr = rcfg(ctx, fr)
    decr = calls_ending(gr, "_dec_overflow")
    full = [n.id for n in gr.nodes if n.kind == "handler" and n.stmt.type is not None
            and (dotted(n.stmt.type) or "").split(".")[-1] == "Full"]
    ctx.require(full, "no `except Full` handler in QueuePool._do_return_conn")
    put = calls_ending(gr, "put", "put_nowait")
    ctx.require(any(h in [b for b, lab in gr.succ[p] if lab == "exc"] for p in put for h in full),
                "`except Full` does not guard the queue put in _do_return_conn")
    w = gr.must_pass(full, [gr.exit, gr.raise_exit], decr, edge_ok=quiet(gr))
    ctx.check(w is None, fr.key + ":full",
              "when the queue is full the overflow connection can be discarded (or fail to close) without "
              "_dec_overflow(): the counter leaks",
              "Full -> record.close() finally _dec_overflow()", fr.loc, w)
    closes = call_nodes(gr, lambda nm, c: nm == f"{fr.params[1]}.close")
    reach = gr.reachable(full)
    ctx.check(any(c in reach for c in closes), fr.key + ":full-closes",
              "the record that does not fit into the queue is not closed (connection leak above pool_size)",
              "overflow record closed", fr.loc)


@R.rule("C25-R2", floor=17, template="T-PATH/T-GUARD/T-SIBLING",
        desc="_do_get: every exceptional exit of _create_connection() after a successful _inc_overflow() "
             "passes _dec_overflow(); _do_return_conn: on Full the record is closed and _dec_overflow() "
             "runs even if close() raises; _create_connection() only behind a successful _inc_overflow(); "
             "all _overflow/_max_overflow comparisons of QueuePool cut at `<` / `>=`; the queue get blocks "
             "iff at the limit, for self._timeout; TimeoutError only after a blocking get and while still "
             "at the limit; the put on return is non-blocking")
def r2(ctx):
    overflow_pairing(ctx)
    _checkout_limits(ctx)


def _arg_for(call, params, name):
    """expression bound to parameter `name` of a method (params include self) by a call, or None."""
    for k in call.keywords:
        if k.arg == name:
            return k.value
    pos = params.index(name) - 1 if name in params else -1
    if 0 <= pos < len(call.args) and not any(isinstance(a, ast.Starred) for a in call.args[:pos + 1]):
        return call.args[pos]
    return None


def _int_const(e):
    if isinstance(e, ast.UnaryOp) and isinstance(e.op, ast.USub) and isinstance(e.operand, ast.Constant) \
            and isinstance(e.operand.value, int) and not isinstance(e.operand.value, bool):
        return -e.operand.value
    if isinstance(e, ast.Constant) and isinstance(e.value, int) and not isinstance(e.value, bool):
        return e.value
    return None


def _limited_facts(fn, test, pol, depth=0):
    """True if the branch outcome establishes 'a limit is enforced' (_max_overflow is not -1), through
    single-assignment flag locals."""
    for a, p in _conj(test, pol):
        if isinstance(a, ast.Name) and depth < 2:
            loc = _single_local(fn, a.id)
            if loc is not None and _limited_facts(fn, loc[0], p, depth + 1):
                return True
            continue
        if isinstance(a, ast.Compare) and len(a.ops) == 1:
            l, r_ = a.left, a.comparators[0]
            k = _int_const(r_) if dotted(l) == _MAX else _int_const(l) if dotted(r_) == _MAX else None
            if k is None:
                continue
            op = type(a.ops[0])
            if dotted(l) != _MAX:
                op = {ast.Lt: ast.Gt, ast.Gt: ast.Lt, ast.LtE: ast.GtE, ast.GtE: ast.LtE}.get(op, op)
            if not p:
                op = {ast.Lt: ast.GtE, ast.GtE: ast.Lt, ast.LtE: ast.Gt, ast.Gt: ast.LtE, ast.Eq: ast.NotEq, ast.NotEq: ast.Eq}.get(op, op)
            if (op in (ast.NotEq, ast.Gt) and k == -1) or (op is ast.GtE and k == 0):
                return True
    return False


def _checkout_limits(ctx):
    """QueuePool._do_get / _do_return_conn: who may open a connection, when a checkout blocks, when it
    gives up; a returning thread never blocks.  (Not shared with C26.)"""
    ix = ctx.index
    f = _nf(ctx, f"{IMPL}::QueuePool._do_get", *_DO_GET_KEEP, alias="dotted", temps=True)
    g = rcfg(ctx, f)
    pm = f.pm
    pm_mod = f.module.parents()
    qc = ix.cls(f"{QUEUE}::QueueCommon")
    # (a) a new connection is opened only by the holder of a freshly taken overflow slot
    got = test_edges(g, lambda t, p: t == "self._inc_overflow()" and p is True)
    ctx.require(got, "no `if self._inc_overflow():` branch in QueuePool._do_get")
    create = calls_ending(g, "_create_connection")
    ctx.require(create, "QueuePool._do_get never creates a connection")
    w = g.witness([g.entry], create, edge_ok=cut_edges(got))
    ctx.check(w is None, f.key + ":create-needs-slot",
              "_create_connection() is reachable without a successful _inc_overflow(): connections are opened that "
              "the overflow counter does not know about (more than pool_size + max_overflow open)",
              "every _create_connection() is behind `if self._inc_overflow()`", f.loc, g.describe_path(w) if w else None)
    # (b) all comparisons of the counter with the limit cut at the same point as _inc_overflow (`<` / `>=`)
    qp = ix.cls(f"{IMPL}::QueuePool")
    n_cmp = 0
    for name, m in sorted(qp.methods.items()):
        sites = [c for c in walk_local(m.node) if isinstance(c, ast.Compare)
                 and {_OVF, _MAX} <= {dotted(x) for x in ast.walk(c) if isinstance(x, ast.Attribute)}]
        gm = ctx.cfg(m) if sites else None
        for i, c in enumerate(sites):
            kind = _limit_facts(ctx, m, pm_mod, c, True, c)[0][0]
            n_cmp += 1
            # the comparison means something only while a limit is enforced (the counter passes -1 on its way
            # up in an unlimited pool): dominated by, or conjoined with, a 'limited' fact
            top = c
            while isinstance(pm_mod.get(top), (ast.BoolOp, ast.UnaryOp)):
                top = pm_mod[top]
            conj_ok = any(a is c for a, p in _conj(top, True)) and _limited_facts(m.node, top, True)
            dom_ok = any(_limited_facts(m.node, t, pol) for nid in gm.nodes_containing(c) for t, pol in gm.edge_guards(nid))
            ctx.check(conj_ok or dom_ok, f"{m.key}:limit-test-only-when-limited" + (f"#{i}" if len(sites) > 1 else ""),
                      f"`{unparse(top)}` (line {c.lineno}) compares the counter with _max_overflow although no limit may be "
                      f"enforced (_max_overflow == -1): an unlimited pool is treated as full once the counter reaches -1",
                      f"`{unparse(c)}` only under `_max_overflow != -1`", f"{m.module.path}:{c.lineno}")
            ctx.check(kind in ("lt", "ge"), f"{m.key}:limit-cut" + (f"#{i}" if len(sites) > 1 else ""),
                      f"`{unparse(c)}` (line {c.lineno}) splits the counter at `_overflow {'<=' if kind == 'le' else '>'} "
                      f"_max_overflow`, the other limit tests at `<` / `>=`: with _overflow == _max_overflow one site says "
                      f"'room left' while _inc_overflow() refuses (checkout spins / never waits / never times out)",
                      f"`{unparse(c)}` agrees with `_overflow < _max_overflow`", f"{m.module.path}:{c.lineno}")
    ctx.require(n_cmp >= 2, "fewer than two comparisons of _overflow with _max_overflow in QueuePool")
    # (b') ... and all tests for "no limit" separate exactly _max_overflow == -1 from the rest
    n_un = 0
    for name, m in sorted(qp.methods.items()):
        sites = []
        for c in walk_local(m.node):
            if isinstance(c, ast.Compare) and len(c.ops) == 1:
                l, r_ = c.left, c.comparators[0]
                k = _int_const(r_) if dotted(l) == _MAX else _int_const(l) if dotted(r_) == _MAX else None
                if k is not None:
                    sites.append((c, k, dotted(l) != _MAX))
        for i, (c, k, mirrored) in enumerate(sites):
            op = type(c.ops[0])
            if mirrored:
                op = {ast.Lt: ast.Gt, ast.Gt: ast.Lt, ast.LtE: ast.GtE, ast.GtE: ast.LtE}.get(op, op)
            # the limit is -1 (none) or >= 0: which cut points separate the two?
            good = (op in (ast.Eq, ast.NotEq, ast.Gt, ast.LtE) and k == -1) or (op in (ast.GtE, ast.Lt) and k == 0)
    
            n_un += 1
            ctx.check(good, f"{m.key}:unlimited-cut" + (f"#{i}" if len(sites) > 1 else ""),
                      f"`{unparse(c)}` (line {c.lineno}) does not separate 'no limit' (_max_overflow == -1) from a real limit "
                      f"(>= 0) the way _inc_overflow/_dec_overflow do: the locked and the unlocked protocol get mixed, or an "
                      f"unlimited pool starts waiting", f"`{unparse(c)}` cuts between -1 and 0", f"{m.module.path}:{c.lineno}")
    ctx.require(n_un >= 2, "fewer than two tests of _max_overflow against the 'no limit' value in QueuePool")
    # (b'') every normal exit of _do_get hands out a record obtained from the queue, from _create_connection() or
    #       from the retry
    producers = ("self._pool.get", "self._create_connection", "self._do_get")
    bad = []
    for n in g.nodes:
        if n.kind == "stmt" and isinstance(n.stmt, ast.Return) and not n.copy:
            v = n.stmt.value
            if isinstance(v, ast.Name) and _single_local(f.node, v.id) is not None:
                v = _single_local(f.node, v.id)[0]
            if not (isinstance(v, ast.Call) and call_name(v) in producers):
                bad.append(f"line {n.stmt.lineno}: `{unparse(n.stmt)[:60]}`")
    rets = [n.id for n in g.nodes if n.kind == "stmt" and isinstance(n.stmt, ast.Return)]
    if g.witness([g.entry], [g.exit], avoid=rets, edge_ok=no_exc) is not None:
        bad.append("a path falls off the end (returns None)")
    ctx.check(not bad, f.key + ":returns-a-record",
              "; ".join(bad) + ": the checkout does not hand out the record it obtained (the connection taken from the queue / "
              "just opened is lost while the counters still count it)",
              "every return hands out pool.get() / _create_connection() / retry", f.loc)
    # (c) the checkout blocks on the queue exactly when the pool is at its limit, for self._timeout
    gets = [c for n in calls_ending(g, "get") for c in _own_calls(g.nodes[n]) if call_name(c) == "self._pool.get"]
    ctx.require(len(gets) == 1, f"QueuePool._do_get has {len(gets)} calls of self._pool.get(), expected one")
    call = gets[0]
    sig = qc.methods["get"].params
    block, tmo = _arg_for(call, sig, "block"), _arg_for(call, sig, "timeout")
    ctx.require(block is not None, "self._pool.get() is called without an explicit `block` argument")
    bfacts = {k for k, _c, _s in _limit_facts(ctx, f, pm, block, True, block)}
    tmo_d = _operand(f.node, tmo) if tmo is not None else None
    blim = _limited_facts(f.node, block, True)
    ctx.check("ge" in bfacts and blim and tmo_d == "self._timeout", f.key + ":blocks-iff-at-limit",
              (f"self._pool.get(block=`{unparse(block)}`, ...) does not depend on `_overflow >= _max_overflow`: "
               f"the checkout waits although it may open a connection, or never waits at the limit"
               if "ge" not in bfacts else
               f"self._pool.get(block=`{unparse(block)}`, ...) blocks also when no limit is enforced (_max_overflow == -1; "
               f"the counter passes -1 on its way up): an unlimited pool waits and times out"
               if not blim else
               f"self._pool.get(..., timeout=`{unparse(tmo) if tmo is not None else 'None'}`) does not wait for the pool's "
               f"configured timeout (self._timeout)"),
              "block <- `_overflow >= _max_overflow`, timeout <- self._timeout", f"{f.module.path}:{call.lineno}")
    # (d) TimeoutError only after a blocking wait, and only while still at the limit
    touts = [n.id for n in g.nodes if n.kind == "stmt" and isinstance(n.stmt, ast.Raise) and n.stmt.exc is not None
             and (dotted(n.stmt.exc.func if isinstance(n.stmt.exc, ast.Call) else n.stmt.exc) or "").endswith("TimeoutError")]
    ctx.require(touts, "QueuePool._do_get never raises TimeoutError")
    bad = []
    get_nodes = [n for n in calls_ending(g, "get") if any(c is call for c in _own_calls(g.nodes[n]))]
    after_get = g.reachable(get_nodes)

    def fresh(site):   # the comparison is evaluated after the queue get returned / timed out
        ids = g.nodes_for(site) if isinstance(site, ast.stmt) else g.nodes_containing(site)
        return any(i in after_get and i not in get_nodes for i in ids)
    for n in touts:
        guards = g.edge_guards(n)
        facts = {k for t, pol in guards for k, _c, site in _limit_facts(ctx, f, pm, t, pol, t) if fresh(site)}
        waited = isinstance(block, ast.Name) and (block.id, True) in [(unparse(a), p) for t, pol in guards for a, p in _conj(t, pol)]
        if isinstance(block, ast.Name) is False:
            waited = all(any(unparse(a) == unparse(b_) and p == bp for t, pol in guards for a, p in _conj(t, pol))
                         for b_, bp in _conj(block, True))
        if not waited:
            bad.append(f"line {g.nodes[n].stmt.lineno}: TimeoutError is raised on a path that did not block on the queue "
                       f"(`{unparse(block)}` not known true): the checkout gives up without waiting for a returned connection")
        elif not any(_limited_facts(f.node, t, pol) for t, pol in guards):
            bad.append(f"line {g.nodes[n].stmt.lineno}: TimeoutError can be raised by a pool without limit (_max_overflow == -1)")
        elif "ge" not in facts:
            bad.append(f"line {g.nodes[n].stmt.lineno}: TimeoutError is raised without re-testing `_overflow >= _max_overflow` after the wait "
                       f"(a slot freed by an invalidated connection would allow opening a new one)")
    ctx.check(not bad, f.key + ":timeout-only-after-wait", "; ".join(bad),
              "TimeoutError only after a blocking get() and while still at the limit", f.loc)
    # (e) a returning thread never blocks: the put that `except Full` guards is non-blocking
    fr = _nf(ctx, f"{IMPL}::QueuePool._do_return_conn", "_dec_overflow", "put", "put_nowait", "close", alias="dotted")
    gr = rcfg(ctx, fr)
    puts = [c for n in calls_ending(gr, "put", "put_nowait") for c in _own_calls(gr.nodes[n])
            if (call_name(c) or "").rsplit(".", 1)[-1] in ("put", "put_nowait")]
    ctx.require(puts, "no queue put in QueuePool._do_return_conn")
    bad = []
    for c in puts:
        if call_name(c).endswith("put_nowait"):
            continue
        b = _arg_for(c, qc.methods["put"].params, "block")
        if not (isinstance(b, ast.Constant) and b.value is False):
            bad.append(f"`{unparse(c)}` (line {c.lineno}) may block: with a full queue the returning thread hangs instead of "
                       f"closing the overflow connection (Full is never raised, the counter never drops)")
    ctx.check(not bad, fr.key + ":put-nonblocking", "; ".join(bad), "put(record, block=False)", fr.loc)


# ---------------------------------------------------------------------- C25-R3 / R4  (util.queue.Queue)
def _queue_facts(ctx):
    q = ctx.index.cls(f"{QUEUE}::Queue")
    init = q.methods.get("__init__")
    ctx.require(init is not None, "Queue.__init__ missing")
    locks, conds = set(), {}
    for d, t, st in attr_stores(init.node):
        if not isinstance(st, ast.Assign) or not isinstance(st.value, ast.Call):
            continue
        nm = (call_name(st.value) or "").rsplit(".", 1)[-1]
        if nm in ("RLock", "Lock"):
            locks.add(d)
        elif nm == "Condition":
            ctx.require(st.value.args and dotted(st.value.args[0]), f"Condition without an explicit lock: {unparse(st)}")
            conds[d] = dotted(st.value.args[0])
    ctx.require(len(locks) == 1, f"Queue.__init__ creates {len(locks)} locks, expected exactly one")
    lock = next(iter(locks))
    for c, l in conds.items():
        ctx.require(l == lock, f"condition {c} is built on {l}, not on the queue lock {lock}")
    # private methods that touch the deque directly
    touching = set()
    for name, m in q.methods.items():
        if name == "__init__":
            continue
        if any(isinstance(n, ast.Attribute) and dotted(n) == "self.queue" for n in walk_local(m.node)):
            touching.add(name)
    return q, lock, conds, touching


@R.rule("C25-R3", floor=7, template="T-GUARD",
        desc="Queue: every call of a deque-touching private method (and every direct use of self.queue) "
             "from a public method is inside `with` on the queue lock or one of its conditions")
def r3(ctx):
    q, lock, conds, touching = _queue_facts(ctx)
    held = {lock} | set(conds)
    private = {n for n in touching if n.startswith("_")}
    ctx.require(private, "no private deque-touching methods in Queue")
    for name, m in sorted(q.methods.items()):
        if name.startswith("_"):
            continue
        ctx.functions_analysed.add(m.key)
        # (a private helper of the public method that calls the deque-touching methods is part of it)
        m = _nf(ctx, m, *private, alias="dotted")
        pm = m.pm
        sites = {}
        for c in calls_in(m.node):
            nm = call_name(c) or ""
            if nm.startswith("self.") and nm[5:] in private:
                sites.setdefault(nm[5:], []).append(c)
        for n in walk_local(m.node):
            if isinstance(n, ast.Attribute) and dotted(n) == "self.queue":
                sites.setdefault("queue", []).append(n)
        for callee, nodes in sorted(sites.items()):
            bad = [n for n in nodes
                   if not any(dotted(i.context_expr) in held for w in enclosing_withs(pm, n) for i in w.items)]
            ctx.check(not bad, f"{m.key}:{callee}",
                      f"{len(bad)} use(s) of self.{callee} outside the queue lock (line {bad[0].lineno if bad else 0})",
                      f"{len(nodes)} use(s), all under the queue lock", m.loc)


PRED = {"put": ("_full", "Full", "_put"), "get": ("_empty", "Empty", "_get")}


@R.rule("C25-R4", floor=13, template="T-GUARD/T-PATH",
        desc="Queue.put/get: each Condition.wait() sits in a `while <predicate>()` loop under the same "
             "condition; every path from entry / from a wait to _put()/_get() leaves through a fresh "
             "`not _full()` / `not _empty()` outcome; wait() only with block=True, untimed iff timeout is None, "
             "on every turn of the loop; get() returns what _get() removed; the mutation is followed by notify() of the condition "
             "the opposite side waits on, on every normal path; timed waits raise Full/Empty when time runs out")
def r4(ctx):
    q, lock, conds, touching = _queue_facts(ctx)
    waited = {}

    def _method(name):
        pred, exc_name, mut = PRED[name]
        return _nf(ctx, ctx.method(q.key, name), pred, mut, "wait", "notify", "notify_all", alias="dotted")
    for name, (pred, exc_name, mut) in PRED.items():
        m = _method(name)
        pm = m.pm
        waits = [c for c in calls_in(m.node) if (call_name(c) or "").endswith(".wait") and (call_name(c) or "")[:-5] in conds]
        ctx.require(waits, f"Queue.{name} has no Condition.wait()")
        problems = []
        timed_ok = True
        for c in waits:
            cond = call_name(c)[:-5]
            waited.setdefault(name, set()).add(cond)
            if not any(dotted(i.context_expr) == cond for w in enclosing_withs(pm, c) for i in w.items):
                problems.append(f"line {c.lineno}: {cond}.wait() while {cond} is not the condition held by the enclosing `with`")
            loop = None
            for a in _anc(pm, c):
                if isinstance(a, (ast.While, ast.For)):
                    loop = a
                    break
                if isinstance(a, (ast.FunctionDef, ast.With)):
                    break
            if not isinstance(loop, ast.While):
                problems.append(f"line {c.lineno}: wait() is not inside a `while` loop: after a spurious or stolen wake-up the predicate is not "
                                f"re-tested and waited on again (the caller proceeds, or gives up with {exc_name} long before its timeout)")
                continue
            t = loop.test
            if not (isinstance(t, ast.Call) and call_name(t) == f"self.{pred}"):
                problems.append(f"line {c.lineno}: wait loop re-tests `{unparse(t)}`, expected `self.{pred}()`")
            if c.args or c.keywords:
                arg = c.args[0] if c.args else c.keywords[0].value
                names = names_in(arg)
                rs = [r for r in ast.walk(loop) if isinstance(r, ast.Raise) and r.exc is not None
                      and (dotted(r.exc.func if isinstance(r.exc, ast.Call) else r.exc) or "").split(".")[-1] == exc_name]
                good = False
                for r in rs:
                    for tt, pol in lexical_guards(pm, r, stop=loop):
                        if pol and names & names_in(tt) and isinstance(tt, ast.Compare) and isinstance(tt.ops[0], (ast.LtE, ast.Lt)):
                            good = True
                if not good:
                    timed_ok = False
        ctx.check(not problems, f"{m.key}:wait", "; ".join(problems), f"{len(waits)} wait(s) in `while self.{pred}()` under the held condition", m.loc)
        ctx.check(timed_ok, f"{m.key}:timeout",
                  f"a timed wait in {name}() has no `raise {exc_name}` when the remaining time is used up",
                  f"timeout -> raise {exc_name}", m.loc)
    # predicate-before-mutation: the deque is appended to only when it has room and popped only when it
    # has an item.  On every path from the entry of put()/get() -- and from every wait(), which gives
    # the lock away -- to self._put()/self._get() the last thing that happened to the predicate is the
    # outcome "not full" / "not empty" (an `if`-false edge, or leaving the `while`), whatever the
    # blocking mode.  (This subsumes the classic while->if mistake on the path level.)
    for name, (pred, exc_name, mut) in PRED.items():
        m = _method(name)
        g = ctx.cfg(m)
        muts = call_nodes(g, lambda nm, c: nm == f"self.{mut}")
        ctx.require(muts, f"Queue.{name} does not call self.{mut}()")
        clear = _edges_establishing(
            g, None,
            lambda a, p, pred=pred: isinstance(a, ast.Call) and call_name(a) == f"self.{pred}" and not a.args and p is False)
        ctx.require(clear[0] or clear[1], f"Queue.{name} never branches on `not self.{pred}()`")
        waits = call_nodes(g, lambda nm, c: nm.endswith(".wait") and nm[:-5] in conds)
        # exact case split over the blocking mode (tests that merge the mode with the predicate, `if not block and
        # self._empty(): raise`, establish the predicate on one side of the mode only)
        w = None
        for blk in ((True, False) if "block" in m.params else (None,)):
            known = {} if blk is None else {"block": blk}
            clear_k = _edges_establishing(
                g, None,
                lambda a, p, pred=pred: isinstance(a, ast.Call) and call_name(a) == f"self.{pred}" and not a.args and p is False,
                known)
            w = w or _unguarded(ctx, g, [g.entry] + waits, muts, clear_k, f"`not self.{pred}()`", no_exc)
        ctx.check(w is None, f"{m.key}:{pred[1:]}-checked-before-{mut[1:]}",
                  f"self.{mut}() is reachable without a fresh `not self.{pred}()` outcome under the lock: "
                  + ("an item is appended to a full queue (more than maxsize = pool_size idle connections)" if name == "put"
                     else "an item is taken from an empty deque (IndexError instead of Empty / waiting)"),
                  f"every path (from entry and from every wait) to self.{mut}() leaves through `not self.{pred}()`",
                  m.loc, g.describe_path(w) if w else None)
    # blocking mode: a caller that said block=False never waits; wait() without a timeout only when the
    # caller gave none, wait(t) only when it gave one; and a wait loop gives the lock away on every turn
    for name, (pred, exc_name, mut) in PRED.items():
        m = _method(name)
        g = ctx.cfg(m)
        ctx.require("block" in m.params and "timeout" in m.params, f"Queue.{name} has no block / timeout parameters")
        waits = [(n, c) for n in call_nodes(g, lambda nm, c: nm.endswith(".wait") and nm[:-5] in conds)
                 for c in _own_calls(g.nodes[n]) if (call_name(c) or "").endswith(".wait")]
        bad = []
        ps = PathSense(g)
        # exact case split over the two mode inputs (robust against any arrangement of the mode tests)
        reach = {}
        for blk in (True, False):
            for tnone in (True, False):
                facts = [("block", blk), ("block is None", False), ("timeout is None", tnone)] + ([("timeout", False)] if tnone else [])
                for n, c in waits:
                    if ps.witness([g.entry], [n], edge_ok=no_exc, init_facts=facts) is not None:
                        reach.setdefault(n, set()).add((blk, tnone))
        for n, c in waits:
            timed = bool(c.args or c.keywords)
            modes = reach.get(n, set())
            if any(not blk for blk, _ in modes):
                bad.append(f"line {c.lineno}: `{unparse(c)}` is reachable with block=False"
                           + (" (QueuePool returns connections with block=False: the returning thread would hang on a full queue)" if name == "put"
                              else " (a non-blocking checkout would wait)"))
            if any(tnone is timed for _, tnone in modes):
                bad.append(f"line {c.lineno}: `{unparse(c)}` " + ("waits for a bounded time although no timeout was given" if timed else
                           "waits without bound although the caller gave a timeout (the pool's checkout never times out)"))
            if not modes:
                bad.append(f"line {c.lineno}: `{unparse(c)}` is unreachable for every combination of block / timeout")
        if bad:
            # PathSense knows `block` and `timeout is None` only; a mode flag derived from them
            # (`nowait = not block`) is opaque to it -> unknown idiom, not a verdict
            derived = {nm for nm, v, _st in name_stores(m.node) if v is not None and names_in(v) & {"block", "timeout"}
                       and _single_local(m.node, nm) is not None}
            used = {nm for n in g.nodes if n.kind == "test" for nm in names_in(n.stmt.test)} & derived
            ctx.require(not used, f"Queue.{name}: blocking mode is decided through derived local(s) {sorted(used)}; not understood")
        ctx.check(not bad, f"{m.key}:wait-mode", "; ".join(bad), f"{len(waits)} wait(s) consistent with block / timeout", m.loc)
        loops = [n for n in g.nodes if n.kind == "test" and isinstance(n.stmt, ast.While)
                 and any(call_name(c) == f"self.{pred}" for c in calls_in(n.stmt.test))]
        ctx.require(loops, f"Queue.{name} has no `while self.{pred}()` loop")
        wn = [n for n, _ in waits]
        w = None
        for t in loops:
            body = [b for b, lab in g.succ[t.id] if lab == "true"]
            w = w or must_pass(g, body, [t.id], wn, edge_ok=no_exc)
        ctx.check(w is None, f"{m.key}:loop-waits",
                  f"a `while self.{pred}()` loop can go round without wait(): it spins while holding the queue lock, so the "
                  f"other side can never {'take an item' if name == 'put' else 'put a connection back'} (the pool stops)",
                  "every turn of the predicate loops passes wait()", m.loc, w)
    mget = _method("get")
    bad = []
    for r in [n for n in walk_local(mget.node) if isinstance(n, ast.Return)]:
        v = r.value
        if isinstance(v, ast.Name) and _single_local(mget.node, v.id) is not None:
            v = _single_local(mget.node, v.id)[0]
        if not (isinstance(v, ast.Call) and call_name(v) == "self._get"):
            bad.append(f"line {r.lineno}: `{unparse(r)}`")
    ctx.check(not bad, f"{mget.key}:returns-item", "; ".join(bad) + " does not return the item taken by self._get(): the record "
              "leaves the queue and reaches nobody", "get() returns what _get() removed", mget.loc)
    # notify pairing
    for name, (pred, exc_name, mut) in PRED.items():
        other = "get" if name == "put" else "put"
        m = _method(name)
        pm = m.pm
        g = ctx.cfg(m)
        muts = call_nodes(g, lambda nm, c: nm == f"self.{mut}")
        ctx.require(muts, f"Queue.{name} does not call self.{mut}()")
        want = waited.get(other, set())
        ctx.require(len(want) == 1, f"Queue.{other} waits on {sorted(want)}; expected a single condition")
        cond = next(iter(want))
        notes = call_nodes(g, lambda nm, c: nm in (f"{cond}.notify", f"{cond}.notify_all"))
        w = must_pass(g, muts, [g.exit], notes, edge_ok=no_exc) if notes else ["no notify at all"]
        held_ok = all(
            any(dotted(i.context_expr) in ({lock} | set(conds)) for wth in enclosing_withs(pm, c) for i in wth.items)
            for c in calls_in(m.node) if (call_name(c) or "") in (f"{cond}.notify", f"{cond}.notify_all"))
        ctx.check(w is None and held_ok, f"{m.key}:notify",
                  f"after self.{mut}() a normal path leaves {name}() without {cond}.notify() under the lock: "
                  f"a thread blocked in {other}() is never woken (lost wake-up)",
                  f"self.{mut}() -> {cond}.notify()", m.loc, w if w and w != ["no notify at all"] else None)


# ---------------------------------------------------------------------- C25-R5
def _signed_terms(e, sign=1, out=None):
    out = [] if out is None else out
    if isinstance(e, ast.BinOp) and isinstance(e.op, (ast.Add, ast.Sub)):
        _signed_terms(e.left, sign, out)
        _signed_terms(e.right, sign if isinstance(e.op, ast.Add) else -sign, out)
    else:
        out.append((sign, unparse(e)))
    return out


@R.rule("C25-R5", floor=7, template="T-SIBLING",
        desc="every Pool subclass implements both _do_get and _do_return_conn; QueuePool.checkedout() is "
             "maxsize - idle + overflow over the counters those methods maintain")
def r5(ctx):
    ix = ctx.index
    pool = ix.cls(f"{POOL}::Pool")
    subs = ix.subclasses(pool)
    ctx.require(len(subs) >= 2, "Pool has fewer than two subclasses")
    for c in subs:
        missing = []
        for m in ("_do_get", "_do_return_conn"):
            f = ix.resolve_method(c, m)
            if f is None or f.cls is pool:
                missing.append(m)
        ctx.check(not missing, c.key, f"{c.name} inherits the abstract {', '.join(missing)} from Pool (NotImplementedError at checkout/checkin)",
                  "_do_get + _do_return_conn implemented", c.loc)
    f = normal_form(ctx, ctx.func(f"{IMPL}::QueuePool.checkedout"), keep=("qsize",), temps=True)
    rets = [n for n in walk_local(f.node) if isinstance(n, ast.Return) and n.value is not None]
    ctx.require(len(rets) == 1, "QueuePool.checkedout has no single return expression")
    terms = sorted(_signed_terms(rets[0].value))
    want = sorted([(1, "self._pool.maxsize"), (-1, "self._pool.qsize()"), (1, "self._overflow")])
    ctx.check(terms == want, f.key, f"checkedout() = {unparse(rets[0].value)} is not pool size - idle + overflow",
              "maxsize - qsize() + _overflow", f.loc)


# ---------------------------------------------------------------------- C25-R6
FAIRY_REF_WRITERS = {
    f"{POOL}::_ConnectionRecord.__init__": "initial state: not checked out",
    f"{POOL}::_ConnectionRecord.checkout": "publishes the weakref of the new fairy",
    f"{POOL}::_ConnectionRecord.checkin": "marks the record as checked in",
    f"{POOL}::_ConnectionFairy.detach": "detaches the record from its fairy before returning it",
}


@R.rule("C25-R6", floor=18, template="T-OWN/T-GUARD/T-PATH",
        desc="_ConnectionRecord.fairy_ref is written only by checkout / checkin / detach / __init__; "
             "checkin refuses a second check-in before _return_conn and clears fairy_ref first; no function of "
             "pool/base.py writes a record after handing it back (_return_conn / checkin / _checkin_failed); the weakref "
             "callback hands its own weakref to the finalizer, which acts on the record on the gc path only "
             "behind `record.fairy_ref is ref` (the collected fairy still owns the record)")
def r6(ctx):
    sites = attr_store_sites(ctx.index, "fairy_ref")
    ctx.require(sites, "no store to fairy_ref found")
    seen = {}
    for owner, d, st, m in sites:
        seen.setdefault(owner, []).append((d, st, m))
    done = set()
    for owner in sorted(seen):
        d, st, m = seen[owner][0]
        if owner not in FAIRY_REF_WRITERS:
            # a private helper all of whose callers are listed writers acts for them (extracted helper)
            acts_for = transitive_owners(ctx.index, owner, FAIRY_REF_WRITERS)
            if acts_for:
                for o in acts_for:
                    if o not in seen and o not in done:
                        done.add(o)
                        ctx.ok(f"{o}:fairy_ref", FAIRY_REF_WRITERS[o] + f" (through its private helper {owner.split('::')[1]})",
                               nontrivial=False)
                continue
        ctx.check(owner in FAIRY_REF_WRITERS, f"{owner}:fairy_ref",
                  f"`{unparse(st).splitlines()[0]}` writes fairy_ref outside its owners "
                  f"({', '.join(sorted(k.split('::')[1] for k in FAIRY_REF_WRITERS))}): the checked-out state can be forged",
                  FAIRY_REF_WRITERS.get(owner, ""), f"{m.path}:{st.lineno}", nontrivial=False)
    f = _nf(ctx, f"{POOL}::_ConnectionRecord.checkin", "_return_conn")
    g = ctx.cfg(f)
    ret = calls_ending(g, "_return_conn")
    ctx.require(ret, "no _return_conn() in checkin")
    # A second check-in must be refused: with fairy_ref already None, _return_conn() is out of reach.  fairy_ref is
    # None in two situations, though: after a check-in (refuse!) and before any fairy exists (the record has just
    # been taken from the pool and get_connection() failed: it MUST go back).  Only a caller-supplied switch can
    # tell them apart; ordinary callers do not pass it, so its default has to select "refuse".  Decided by exact
    # case split over the boolean switch parameters (whatever the shape of the test: `a and b`, nested ifs, an
    # early return, a flag local): which branch edges are impossible under the assumed facts, is _return_conn()
    # still reachable?
    import itertools
    from ..astutil import func_defaults
    from ._helpers_str_l import contradicted
    defaults = func_defaults(f.node)
    sw = [p_ for p_ in f.params if p_ != "self" and isinstance(defaults.get(p_), ast.Constant) and isinstance(defaults[p_].value, bool)]
    ctx.require(len(sw) <= 4, f"checkin has {len(sw)} boolean switches; not understood")

    def returns_record(assign):
        facts = {"self.fairy_ref is None": True, "self.fairy_ref": False}
        facts.update(assign)
        r = g.reachable([g.entry], edge_ok=cut_edges(contradicted(g, facts)))
        return any(n in r for n in ret)
    cases = [dict(zip(sw, vals)) for vals in itertools.product((True, False), repeat=len(sw))]
    refusing = [a for a in cases if not returns_record(a)]
    refused = bool(refusing)
    ctx.check(refused, f.key + ":double-checkin",
              "_return_conn() is reachable although fairy_ref is already None (record checked in twice -> "
              "the same record sits in the queue twice and is handed to two holders)",
              "second check-in returns before _return_conn", f.loc)
    if refused:
        dflt = {p_: bool(defaults[p_].value) for p_ in sw}
        ctx.check(dflt in refusing, f.key + ":double-checkin-refused-by-default",
                  f"the refusal of a second check-in is switched off for ordinary callers "
                  f"({'; '.join(f'`{a}` defaults to {v!r}' for a, v in dflt.items())}): "
                  f"_finalize_fairy / fairy close call checkin() without arguments, so a record is returned twice",
                  "plain checkin() refuses when fairy_ref is None", f.loc)
        ctx.check(bool(sw) and len(refusing) < len(cases), f.key + ":pre-fairy-checkin-not-refused",
                  "check-in is refused whenever fairy_ref is None, also for a record whose fairy was never created "
                  "(checkout failed in get_connection(): fairy_ref is still None): the record is never returned, the "
                  "pool loses the slot", "a parameter distinguishes 'never had a fairy' from 'already checked in'", f.loc)
    else:
        for asp in (":double-checkin-refused-by-default", ":pre-fairy-checkin-not-refused"):
            ctx.violation(f.key + asp, "not established: checkin has no `fairy_ref is None` refusal in front of _return_conn()", f.loc)
    clears = [n for d, t, st in attr_stores(f.node) if d == "self.fairy_ref" and isinstance(st, ast.Assign)
              and isinstance(st.value, ast.Constant) and st.value.value is None for n in g.nodes_for(st)]
    w = None
    for n in ret:
        w = w or g.always_preceded(n, clears)
    ctx.check(bool(clears) and w is None, f.key + ":clear-before-return",
              "_return_conn() can run before fairy_ref is cleared (a concurrent finalizer would check the record in again)",
              "fairy_ref = None precedes _return_conn", f.loc, w)
    _no_touch_after_hand_back(ctx)
    _gc_ownership(ctx)


# Once a record has been handed back (Pool._return_conn / _do_return_conn, or the record's own checkin() /
# _checkin_failed(), which end in it) it sits in the queue and another thread may already have checked it out:
# the thread that returned it no longer owns it.  So on every normal path after the hand-back call the function
# does not write the record any more -- no attribute store / del / item store on it, no call of one of its
# methods or of a method of one of its attributes (reads and logging are harmless).  Every ownership field is
# therefore written BEFORE the hand-back (`fairy_ref = None` in checkin: ":clear-before-return" above is the
# must-precede half, this is the must-not-follow half, for every hand-back site of pool/base.py).
HAND_BACK = ("_return_conn", "_do_return_conn", "checkin", "_checkin_failed", "detach")
# (_finalize_fairy hands back conditionally; it is judged as a function of its own, not inlined into its callers,
# whose constant arguments -- ref=None -- make half of its paths infeasible)
_HAND_BACK_KEEP = HAND_BACK + ("_finalize_fairy",)


def _hand_back_call(c):
    """(callee, dotted text of the record handed back) for a hand-back call, else None."""
    nm = call_name(c) or ""
    recv, _, last = nm.rpartition(".")
    if last not in HAND_BACK or not recv or recv.endswith("dispatch") or "()" in recv:
        return None
    if last in ("_return_conn", "_do_return_conn"):
        if len(c.args) != 1 or c.keywords:
            return None
        return last, dotted(c.args[0])
    if last == "detach":
        # fairy.detach() returns the fairy's record
        if c.args or c.keywords:
            return None
        return last, recv + "._connection_record"
    return last, recv


def _touches(part, obj):
    """Writes to / calls on `obj` (dotted) evaluated inside the AST fragment `part`."""
    pre = obj + "."
    out = []
    for x in ast.walk(part):
        if isinstance(x, ast.Attribute) and isinstance(x.ctx, (ast.Store, ast.Del)) and (dotted(x) or "").startswith(pre):
            out.append(x)
        elif isinstance(x, ast.Subscript) and isinstance(x.ctx, (ast.Store, ast.Del)) and (dotted(x.value) or "").startswith(pre):
            out.append(x)
        elif isinstance(x, ast.Call):
            nm = call_name(x) or ""
            if nm.startswith(pre) and not _is_log(nm):
                out.append(x)
    return out


def _bind(call, params):
    """{param: argument expr} of a call against a parameter list (positional + keyword; no *args)."""
    out = {}
    for i, a in enumerate(call.args):
        if isinstance(a, ast.Starred) or i >= len(params):
            return None
        out[params[i]] = a
    for k in call.keywords:
        if k.arg is None:
            return None
        out[k.arg] = k.value
    return out


def _field_aliases(ctx, f, obj):
    """Other names the function `f` has for `<holder>.<field>` (= obj), derived from where `holder` comes from:
    * `holder = Cls(.., R, ..)` and Cls.__init__ stores that parameter in `self.<field>`  ->  R;
    * if `holder` is also a parameter of f: R counts only if every call of f that passes a holder passes
      `<that holder>.<field>` for R (the callers' contract)."""
    holder, _, field = obj.rpartition(".")
    if not holder.isidentifier():
        return set()
    m = f.module
    cands = set()
    for nm, val, st in name_stores(f.node):
        if nm != holder or not isinstance(val, ast.Call):
            continue
        cls = m.classes.get(call_name(val) or "")
        init = cls.methods.get("__init__") if cls is not None else None
        if init is None:
            continue
        b = _bind(val, [p_ for p_ in init.params if p_ != "self"])
        if b is None:
            continue
        for d, t, s2 in attr_stores(init.node):
            if d == "self." + field and isinstance(s2, ast.Assign) and isinstance(s2.value, ast.Name) and s2.value.id in b:
                a = dotted(b[s2.value.id])
                if a:
                    cands.add(a)
    if holder in f.params:
        for a in sorted(cands):
            if a not in f.params:
                cands.discard(a)
                continue
            for c in ast.walk(m.tree):
                if not (isinstance(c, ast.Call) and (call_name(c) or "").rsplit(".", 1)[-1] == f.name):
                    continue
                b = _bind(c, f.params)
                if b is None:
                    cands.discard(a)
                    break
                h = b.get(holder)
                if h is None or (isinstance(h, ast.Constant) and h.value is None):
                    continue
                if a not in b or dotted(b[a]) != f"{dotted(h)}.{field}":
                    cands.discard(a)
                    break
    return cands


def _no_touch_after_hand_back(ctx):
    m = ctx.index.module(POOL)
    funcs = [f for f in ctx.index.all_functions(m) if not f.type_only and not f.is_overload]
    direct = {f.key for f in funcs if any(_hand_back_call(c) for c in calls_in(f.node))}
    helper_names = {k.rsplit(".", 1)[-1].rsplit("::", 1)[-1] for k in direct} - set(_HAND_BACK_KEEP)
    n_sites = 0
    for f0 in funcs:
        if f0.key not in direct and not any((call_name(c) or "").rsplit(".", 1)[-1] in helper_names for c in calls_in(f0.node)):
            continue
        f = _nf(ctx, f0, *_HAND_BACK_KEEP, alias="dotted")
        g = ctx.cfg(f)
        sites = []
        for n in g.nodes:
            for c in _own_calls(n):
                hb = _hand_back_call(c)
                if hb is not None:
                    sites.append((n.id, c, hb[0], hb[1]))
        if not sites:
            continue

        def rebinds(head):
            return [x.id for x in g.nodes if x.stmt is not None and x.kind in ("stmt", "for", "with_enter", "handler")
                    and any(isinstance(y, ast.Name) and y.id == head and isinstance(y.ctx, (ast.Store, ast.Del))
                            for part in ([x.stmt] if x.kind == "stmt" else own_exprs(x.stmt)) for y in ast.walk(part))]
        bad, w = [], None
        for nid, c, callee, obj in sites:
            ctx.require(obj is not None, f"{f.key}: cannot name the record handed back by `{unparse(c)}`")
            for name in sorted({obj} | _field_aliases(ctx, f, obj)):
                # (also what an exception raised LATER leads to: the hand-back itself has completed by then)
                after = g.reachable([b for b, lab in g.succ[nid] if lab != "exc"], avoid=rebinds(name.split(".")[0]))
                for a in sorted(after):
                    x = g.nodes[a]
                    if x.stmt is None or x.kind in ("with_exit", "handler", "join", "entry", "exit", "raise_exit"):
                        continue
                    parts = [x.stmt] if x.kind == "stmt" else own_exprs(x.stmt) if isinstance(x.stmt, ast.stmt) else []
                    ts = [t for part in parts for t in _touches(part, name)]
                    if ts:
                        bad.append(f"line {ts[0].lineno}: " + ("" if isinstance(ts[0], ast.Call) else "store to ") +
                                   f"`{unparse(ts[0])}` after `{unparse(c.func)}(...)`")
                        w = w or g.witness([nid], [a], avoid=rebinds(name.split(".")[0]))
        n_sites += 1
        ctx.check(not bad, f.key + ":no-touch-after-hand-back",
                  "the record is still written after it has been handed back to the pool -- " + "; ".join(sorted(set(bad))) +
                  ": once it is in the queue another thread can check it out (and e.g. publish its own fairy_ref), which "
                  "this write then clobbers: the record looks checked in while a holder uses it (handed to two holders / "
                  "never returned)",
                  f"nothing writes the record after {', '.join(sorted({s[2] for s in sites}))}()", f.loc,
                  g.describe_path(w) if w else None)
    ctx.require(n_sites >= 5, f"only {n_sites} function(s) of {POOL} hand a record back; expected checkin, _checkin_failed, "
                              "checkout, _finalize_fairy, _checkout, detach, Pool._return_conn")


# A weakref callback can fire long after its fairy stopped owning the record (detach(), a failed
# checkout): by then the record may be checked out again by another fairy.  The only thing the callback
# has that identifies "its" checkout is the weakref object it is called with; the record publishes the
# weakref of its current owner in fairy_ref.  So the finalizer may act on the record on the gc path only
# after it has compared the two.
_RECORD_NEUTRAL_CALLEES = ("isinstance", "bool", "id", "repr", "str")


def _operand(fn, e):
    """dotted text of a comparison operand, followed through one single-assignment local."""
    if isinstance(e, ast.Name):
        loc = _single_local(fn, e.id)
        if loc is not None and dotted(loc[0]):
            return dotted(loc[0])
    return dotted(e)


def _gc_ownership(ctx):
    ix = ctx.index
    co = ctx.func(f"{POOL}::_ConnectionRecord.checkout")
    # 1. the weakref published in fairy_ref and the callback it is created with
    pubs = [(d, st) for d, t, st in attr_stores(co.node) if d.endswith(".fairy_ref") and isinstance(st, ast.Assign)
            and isinstance(st.value, ast.Call) and (call_name(st.value) or "").rsplit(".", 1)[-1] == "ref"]
    ctx.require(len(pubs) == 1, "checkout does not publish exactly one weakref.ref(...) in fairy_ref")
    d, st = pubs[0]
    rec_name = d.rsplit(".", 1)[0]
    wr = st.value
    ctx.require(len(wr.args) == 2, "the weakref stored in fairy_ref has no callback (gc of a fairy would leak its record)")
    cb = wr.args[1]
    if isinstance(cb, ast.Name):
        cands = [n for n in ast.walk(co.node) if isinstance(n, ast.FunctionDef) and n.name == cb.id]
        ctx.require(len(cands) == 1, f"weakref callback `{cb.id}` is not a local function of checkout")
        cb = cands[0]
    ctx.require(isinstance(cb, (ast.Lambda, ast.FunctionDef)), f"weakref callback `{unparse(cb)[:60]}` is not a lambda / local function")
    cb_params = [a.arg for a in cb.args.posonlyargs + cb.args.args]
    ctx.require(len(cb_params) == 1, "weakref callback does not take exactly the weakref argument")
    cb_arg = cb_params[0]
    fin = None
    for c in ast.walk(cb):
        if isinstance(c, ast.Call) and dotted(c.func):
            r = ix.resolve(co.module, dotted(c.func))
            if hasattr(r, "params") and any(isinstance(x, ast.Name) and x.id == rec_name
                                            for x in list(c.args) + [k.value for k in c.keywords]):
                fin = (c, r)
    ctx.require(fin is not None, f"the weakref callback does not hand `{rec_name}` to a finalizer function")
    call, F = fin

    def param_of(pred):
        hits = [F.params[i] for i, a in enumerate(call.args) if i < len(F.params) and pred(a)]
        hits += [k.arg for k in call.keywords if k.arg and pred(k.value)]
        return hits
    recp = param_of(lambda a: isinstance(a, ast.Name) and a.id == rec_name)
    refp = param_of(lambda a: isinstance(a, ast.Name) and a.id == cb_arg)
    ctx.require(len(recp) == 1, "finalizer call passes the record more than once")
    key0 = co.key + ":callback-passes-own-weakref"
    if len(refp) != 1:
        ctx.violation(key0, f"the weakref callback does not pass the weakref it is called with (`{cb_arg}`) to {F.name}(): "
                            f"the finalizer cannot tell whether the dead fairy still owns `{rec_name}`",
                      f"{co.module.path}:{call.lineno}")
        for asp in (":gc-callback-owns-record", ":owned-record-is-checked-in"):
            ctx.violation(F.key + asp,
                          f"not established: {F.name}() is not given the weakref of the collected fairy, so no comparison with "
                          f"`{recp[0]}.fairy_ref` can tell whether the gc callback still owns the record", F.loc)
        return
    # the only thing that may stand between the callback and the finalizer is the interpreter-shutdown test
    # `<finalizer> is not None`
    pmc = co.module.parents()
    wrong = []
    for t, pol in lexical_guards(pmc, call, stop=cb):
        for a, p in test_atoms(t, pol):
            ctx.require(a == f"{dotted(call.func)} is None", f"weakref callback calls {F.name}() under `{a}`; not understood")
            if p:
                wrong.append(f"`{unparse(t)}` taken {'true' if pol else 'false'}")
    if wrong:
        ctx.violation(key0, f"the weakref callback calls {F.name}() only when {F.name} is None ({'; '.join(wrong)}): a fairy that is "
                            f"garbage collected without close() never returns its record (checkedout() stays too high for ever)",
                      f"{co.module.path}:{call.lineno}")
    else:
        ctx.ok(key0, f"{F.name}({recp[0]}={rec_name}, {refp[0]}={cb_arg})")
    recp, refp = recp[0], refp[0]
    # 2. inside the finalizer: every action on the record is behind `ref is None` (direct call) or
    #    `record.fairy_ref is ref` (gc call that still owns the record)
    ctx.functions_analysed.add(F.key)
    F = _nf(ctx, F, "checkin", "_reset", "invalidate", alias=None)
    g = ctx.cfg(F)
    fn = F.node

    def establishes(a, p):
        if not (isinstance(a, ast.Compare) and len(a.ops) == 1):
            return None
        l, r_ = _operand(fn, a.left), _operand(fn, a.comparators[0])
        op = a.ops[0]
        same = (isinstance(op, (ast.Is, ast.Eq)) and p) or (isinstance(op, (ast.IsNot, ast.NotEq)) and not p)
        if {l, r_} == {f"{recp}.fairy_ref", refp} and same:
            return "owner"
        if isinstance(op, (ast.Is, ast.IsNot)) and ((l == refp and isinstance(a.comparators[0], ast.Constant) and a.comparators[0].value is None)
                                                    or (r_ == refp and isinstance(a.left, ast.Constant) and a.left.value is None)) and same:
            return "direct"
        return None
    kinds = set()

    def fact(a, p):
        k = establishes(a, p)
        if k:
            kinds.add(k)
        return bool(k)
    cut = _edges_establishing(g, fn, fact)
    actions = []
    for n in g.nodes:
        if n.kind not in ("stmt", "test", "with_enter", "for") or n.stmt is None or isinstance(n.stmt, (ast.Assert, ast.Delete)):
            continue
        if n.copy:
            continue
        for c in _own_calls(n):
            nm = call_name(c) or ""
            if nm in _RECORD_NEUTRAL_CALLEES or _is_log(nm):
                continue
            recv = nm.rsplit(".", 1)[0] if "." in nm else None
            passes = any(isinstance(x, ast.Name) and x.id == recp for x in list(c.args) + [k.value for k in c.keywords])
            if recv == recp or passes:
                actions.append((n.id, c))
                break
    ctx.require(actions, f"{F.key} never acts on `{recp}` (no method call on it, never passed on)")
    bad = []
    for nid, c in actions:
        w = _unguarded(ctx, g, [g.entry], [nid], cut, f"`{refp} is None` / `{recp}.fairy_ref is {refp}`")
        if w is not None:
            bad.append((c, g.describe_path(w)))
    key = F.key + ":gc-callback-owns-record"
    if bad:
        c, w = bad[0]
        what = ("no branch compares it with the callback's own weakref" if "owner" not in kinds else
                "the ownership comparison does not dominate it")
        ctx.violation(key,
                      f"`{unparse(c)[:70]}` (line {c.lineno}) and {len(bad) - 1} more action(s) on `{recp}` are reachable with "
                      f"`{refp}` set (gc callback) although {what}: `{recp}.fairy_ref is {refp}` is the only evidence that the "
                      f"collected fairy still owns the record; without it a stale callback (after detach() / a failed checkout) "
                      f"resets and checks in a record that another checkout holds",
                      F.loc, w)
    else:
        ctx.ok(key, f"{len(actions)} action(s) on `{recp}` all behind `{refp} is None` or `{recp}.fairy_ref is {refp}`")
    # 3. ... and a record that is still checked out to the fairy being finalized IS checked in: a normal path
    #    may leave the finalizer without <rec>.checkin() only over an outcome that says: no record, record
    #    already checked in / detached (fairy_ref is None), or not ours (fairy_ref is not ref)
    def excused(a, p):
        if isinstance(a, ast.Name) and a.id == recp:
            return not p
        if not (isinstance(a, ast.Compare) and len(a.ops) == 1):
            return False
        l, r_ = _operand(fn, a.left), _operand(fn, a.comparators[0])
        op = a.ops[0]
        none_r = isinstance(a.comparators[0], ast.Constant) and a.comparators[0].value is None
        same = (isinstance(op, (ast.Is, ast.Eq)) and p) or (isinstance(op, (ast.IsNot, ast.NotEq)) and not p)
        diff = (isinstance(op, (ast.Is, ast.Eq)) and not p) or (isinstance(op, (ast.IsNot, ast.NotEq)) and p)
        if none_r and l in (recp, f"{recp}.fairy_ref"):
            return same
        return {l, r_} == {f"{recp}.fairy_ref", refp} and diff
    checkins = call_nodes(g, lambda nm, c: nm == f"{recp}.checkin")
    skip = _edges_establishing(g, fn, excused)
    full, part = skip
    w = g.witness([g.entry], [g.exit], avoid=checkins, edge_ok=both(no_exc, cut_edges(full)))
    if w is not None and part and g.witness([g.entry], [g.exit], avoid=checkins, edge_ok=both(no_exc, cut_edges(full + part))) is None:
        ctx.require(False, f"{F.key}: a path around {recp}.checkin() depends on an outcome that excuses it on some alternatives only; not understood")
    ctx.check(w is None, F.key + ":owned-record-is-checked-in",
              f"{F.name}() can return normally without {recp}.checkin() although the record is present, still has a fairy_ref "
              f"and belongs to the fairy being finalized: the connection is neither in the pool nor counted as returned "
              f"(checkedout() stays above the number of live checkouts, the pool runs dry)",
              f"every normal exit passes {recp}.checkin() or an outcome 'no record / fairy_ref is None / not ours'",
              F.loc, g.describe_path(w) if w else None)


# ====================================================================== C25-R7 (= C26-R8)
# Pool accounting, the exceptional half: NO SLOT IS LOST ON ANY EXIT.
#
# A record that is checked out counts against the pool's limits until somebody hands it back (Pool._return_conn /
# _do_return_conn, directly or through a function that ends in it on all its normal paths).  A function that hands a
# record back on its way *holds* that record -- from its entry when the record is (reachable from) a parameter, from
# the statement that obtains it otherwise -- and the clause is: every EXCEPTIONAL exit reachable while it holds the
# record passes a hand-back of that record as well (or a branch outcome that says there is nothing to hand back: no
# record, marker already cleared, marker is somebody else's).  The caller of a function that raised gets no result and
# cannot tell how far it came, so nobody else returns the record: checkedout() stays above the number of live
# checkouts for good (C25), "once every holder has released its connection the pool reports zero" fails (C26).
#
# Nothing here is keyed on a function name of the checkout protocol except the two primitives of the documented return
# protocol (`Pool._return_conn` -> `_do_return_conn` of the subclass):
#   * which calls hand back, and which record: `_Slots.handback` -- a summary per function of pool/base.py, closed
#     under calls (receiver classes from annotations, constant arguments / defaults decide the callee's switches);
#     today: checkin, _checkin_failed, detach, _finalize_fairy, _ConnectionFairy._checkin / _close /
#     invalidate(hard), Pool._return_conn;
#   * the family: every function of pool/base.py whose normal form contains such a call;
#   * which statements can raise: `_Slots.call_quiet` -- a call raises unless it provably ends in logging, in an
#     operation of a Python container / a listed total builtin, or in package functions of which the same holds
#     (again closed under calls, switches decided by the constant arguments).  Opaque calls -- the DBAPI / dialect,
#     event listeners, stored callbacks -- raise, and they raise BaseException (strict handler semantics:
#     `except Exception` lets CancelledError / KeyboardInterrupt / GreenletExit through).
#   * Exception to "opaque raises", as a reasoned table: discarding a connection is assumed to complete.
DISCARD_COMPLETES = {
    f"{POOL}::_ConnectionRecord.invalidate": "discards the DBAPI connection: Pool._close_connection swallows every Exception of "
                                             "the driver's close (C26-R4); listeners of the invalidate / close events that raise "
                                             "are outside the decided clauses (C26 not_decided)",
    f"{POOL}::_ConnectionRecord.__close": "same (the body of invalidate)",
    f"{POOL}::_ConnectionRecord.close": "same (public spelling of __close)",
    f"{POOL}::Pool._close_connection": "swallows every Exception of the driver's close / terminate (C26-R4)",
}
_RETURN_PRIMS = ("_return_conn", "_do_return_conn")
_ACQUIRE_PRIM = "_do_get"            # its dual: `rec = pool._do_get()` takes a record out of the pool
# total functions of Python / the stdlib (meaning of Python, not text of /repo)
_TOTAL_CALLS = frozenset((
    "isinstance", "issubclass", "len", "bool", "id", "type", "repr", "str", "callable", "hasattr", "getattr", "cast",
    "list", "tuple", "dict", "set", "frozenset", "deque", "weakref.ref", "time.time", "time.monotonic", "util.safe_reraise", "safe_reraise",
))
_CONTAINER_TYPES = frozenset(("Deque", "deque", "List", "list", "Dict", "dict", "Set", "set", "DefaultDict", "defaultdict",
                              "MutableMapping", "MutableSequence", "MutableSet", "OrderedDict", "WeakKeyDictionary", "WeakValueDictionary"))
_CONTAINER_OPS = frozenset(("pop", "popleft", "append", "appendleft", "clear", "get", "copy", "add", "discard", "extend",
                            "update", "setdefault", "keys", "values", "items"))
_EXC_ONLY = lambda a, b, lab: lab == "exc"  # noqa: E731


def _ann_head(ann):
    """last name of the outermost type of an annotation (`Deque[...]` -> Deque, `"Dict[..]"` -> Dict)."""
    if isinstance(ann, ast.Constant) and isinstance(ann.value, str):
        try:
            ann = ast.parse(ann.value, mode="eval").body
        except SyntaxError:
            return None
    if isinstance(ann, ast.Subscript):
        h = (dotted(ann.value) or "").split(".")[-1]
        if h in ("Optional", "Final", "ClassVar"):
            return _ann_head(ann.slice)
        return h
    return (dotted(ann) or "").split(".")[-1] or None


class _Slots:
    """Interprocedural facts about pool/base.py for the hand-back clause (see above)."""

    MAX_DEPTH = 6

    def __init__(self, ctx):
        self.ctx = ctx
        self.ix = ctx.index
        self.m = ctx.index.module(POOL)
        self.funcs = [f for f in self.ix.all_functions(self.m) if not f.type_only and not f.is_overload]
        self._hb = {}
        self._quiet = {}
        self._busy_hb = set()
        self._busy_q = set()

    # ------------------------------------------------------------------ static types (annotations only)
    def _ann(self, m, ann):
        from ._helpers_rules_c import _ann_class
        return _ann_class(self.ix, m, ann)

    def _pick(self, classes):
        cs = [c for c in classes if c is not None]
        if not cs:
            return None
        best = cs[0]
        for c in cs[1:]:
            if self.ix.is_subclass(c, best):
                best = c
            elif not self.ix.is_subclass(best, c):
                return None
        return best

    def cls_of(self, f, e, depth=0):
        """ClassInfo of expression `e` inside function `f`, from annotations; None = unknown."""
        if depth > 4:
            return None
        ix = self.ix
        if isinstance(e, ast.Name):
            if e.id in ("self", "cls") and f.cls is not None and f.params[:1] == [e.id]:
                return f.cls
            a = f.node.args
            for arg in a.posonlyargs + a.args + a.kwonlyargs:
                if arg.arg == e.id:
                    c = self._ann(f.module, arg.annotation)
                    if c is not None:
                        return c
            found = []
            for nm, val, st in name_stores(f.node):
                if nm != e.id or val is None or (isinstance(val, ast.Constant) and val.value is None):
                    continue
                found.append(self.cls_of(f, val, depth + 1))
            return self._pick(found) if found and all(c is not None for c in found) else None
        if isinstance(e, ast.Attribute):
            c = self.cls_of(f, e.value, depth + 1)
            if c is None:
                return None
            for k in ix.mro(c):
                for st in k.node.body:
                    if isinstance(st, ast.AnnAssign) and isinstance(st.target, ast.Name) and st.target.id == e.attr:
                        r = self._ann(k.module, st.annotation)
                        if r is not None:
                            return r
                init = k.methods.get("__init__")
                if init is not None:
                    for d, t, st in attr_stores(init.node):
                        if d == "self." + e.attr and isinstance(st, ast.Assign) and isinstance(st.value, ast.Name):
                            for arg in init.node.args.posonlyargs + init.node.args.args + init.node.args.kwonlyargs:
                                if arg.arg == st.value.id:
                                    r = self._ann(k.module, arg.annotation)
                                    if r is not None:
                                        return r
            return None
        if isinstance(e, ast.Call):
            nm = call_name(e)
            if nm and nm.split(".")[-1] == "cast" and len(e.args) == 2:
                return self._ann(f.module, e.args[0])
            ts = self.targets(f, e)
            if isinstance(ts, list) and ts:
                out = []
                for t in ts:
                    if t.name == "__init__" and t.cls is not None:
                        out.append(t.cls)
                    else:
                        out.append(self._ann(t.module, t.node.returns))
                return self._pick(out) if all(c is not None for c in out) else None
            if nm:
                r = ix.resolve(f.module, nm) if "()" not in nm else None
                from ..index import ClassInfo
                if isinstance(r, ClassInfo):
                    return r
        return None

    def _container(self, f, recv):
        """Is `recv` (expr) declared as a plain Python container?"""
        ann = None
        if isinstance(recv, ast.Name):
            for st in self.m.tree.body if f.module is self.m else f.module.tree.body:
                if isinstance(st, ast.AnnAssign) and isinstance(st.target, ast.Name) and st.target.id == recv.id:
                    ann = st.annotation
            for nm, val, st in name_stores(f.node):
                if nm == recv.id and val is not None:
                    if isinstance(val, (ast.List, ast.Dict, ast.Set, ast.ListComp, ast.DictComp, ast.SetComp)):
                        return True
                    if isinstance(val, ast.Call) and (call_name(val) or "") in ("list", "dict", "set", "deque", "collections.deque"):
                        return True
        elif isinstance(recv, ast.Attribute):
            c = self.cls_of(f, recv.value)
            if c is not None:
                for k in self.ix.mro(c):
                    for st in k.node.body:
                        if isinstance(st, ast.AnnAssign) and isinstance(st.target, ast.Name) and st.target.id == recv.attr:
                            ann = ann or st.annotation
        return ann is not None and _ann_head(ann) in _CONTAINER_TYPES

    # ------------------------------------------------------------------ call targets
    @staticmethod
    def _placeholder(fi):
        body = [s for s in fi.node.body if not (isinstance(s, ast.Expr) and isinstance(s.value, ast.Constant))]
        return not body or (len(body) == 1 and isinstance(body[0], (ast.Raise, ast.Pass)))

    def targets(self, f, call):
        """'quiet' (cannot raise: logging / total builtin / container op / class without constructor), a list of
        FuncInfo the call may run (package functions), or 'opaque' (driver, listener, callback, unknown)."""
        from ..index import ClassInfo, FuncInfo
        nm = call_name(call)
        if nm is None:
            return "opaque"
        parts = nm.split(".")
        if "dispatch" in parts or any(p.endswith("()") for p in parts[:-1]):
            return "opaque"                      # event dispatch (user listeners) / call on a call result
        if _is_log(nm) or (len(parts) >= 2 and parts[-2] in ("logger", "log", "_logger", "_log")):
            return "quiet"
        if nm in _TOTAL_CALLS:
            return "quiet"
        ix = self.ix
        r = ix.resolve(f.module, nm)
        if isinstance(r, FuncInfo):
            return [r]
        if isinstance(r, ClassInfo):
            init = ix.resolve_method(r, "__init__")
            return [init] if init is not None else "quiet"
        if len(parts) == 1:
            return "opaque"                      # a local / parameter / stored callable: a callback
        recv = call.func.value
        meth = parts[-1]
        c = self.cls_of(f, recv)
        cands = []
        if c is not None:
            f0 = ix.resolve_method(c, meth)
            if f0 is not None:
                cands.append(f0)
            for s in ix.subclasses(c):
                o = s.methods.get(meth)
                if o is not None and not o.type_only and o not in cands:
                    cands.append(o)
        else:
            if meth in _CONTAINER_OPS and self._container(f, recv):
                return "quiet"
            cands = [g for g in self.funcs if g.name == meth and g.cls is not None]
        # a candidate must be able to take the call (a listener call `x.checkin(conn, rec)` is not `rec.checkin()`)
        def takes(g_):
            ar = g_.node.args
            if ar.vararg or ar.kwarg:
                return True
            ps_ = list(g_.params)
            if ps_ and g_.cls is not None and "staticmethod" not in g_.decorators:
                ps_ = ps_[1:]
            b_ = _bind(call, ps_)
            if b_ is None or any(k_ not in ps_ for k_ in b_):
                return False
            dflt = func_defaults(g_.node)
            return all(p_ in b_ or p_ in dflt for p_ in ps_)
        cands = [g for g in cands if takes(g)]
        real = [g for g in cands if not self._placeholder(g)]
        cands = real or [g for g in cands if not any(isinstance(s, ast.Raise) for s in g.node.body)]
        if not cands:
            if meth in _CONTAINER_OPS and self._container(f, recv):
                return "quiet"
            return "opaque"
        return cands

    @staticmethod
    def call_facts(g, call, via_receiver):
        """{atom text: bool} the constant arguments / defaults of `call` establish about the parameters of `g`."""
        params = list(g.params)
        if via_receiver and params and g.cls is not None and "staticmethod" not in g.decorators:
            params = params[1:]
        elif params and g.cls is not None and "classmethod" in g.decorators:
            params = params[1:]
        vals = dict(func_defaults(g.node))
        b = _bind(call, params)
        if b is None:
            return {}
        vals.update(b)
        facts = {}
        for p_, v in vals.items():
            if p_ in params and isinstance(v, ast.Constant):
                if isinstance(v.value, bool):
                    facts[p_] = v.value
                    facts[p_ + " is None"] = False
                elif v.value is None:
                    facts[p_] = False
                    facts[p_ + " is None"] = True
        return facts

    # ------------------------------------------------------------------ may-raise
    def call_quiet(self, f, call, depth=0):
        t = self.targets(f, call)
        if t == "quiet":
            return True
        if t == "opaque":
            return False
        via = isinstance(call.func, ast.Attribute) and self.ix.resolve(f.module, call_name(call) or "") is None
        return all(self.func_quiet(g, self.call_facts(g, call, via), depth + 1) for g in t)

    def func_quiet(self, fi, facts, depth):
        if fi.key in DISCARD_COMPLETES:
            return True
        k = (fi.key, tuple(sorted(facts.items())))
        if k in self._quiet:
            return self._quiet[k]
        if k in self._busy_q:
            return True                          # recursion: decided by the rest of the cycle
        if depth > self.MAX_DEPTH or fi.module.relpath.split("/")[0] not in ("pool", "log.py", "util"):
            return False
        self._busy_q.add(k)
        try:
            g = self.ctx.cfg(fi)
            from ._helpers_str_l import contradicted
            live = g.reachable([g.entry], edge_ok=both(no_exc, cut_edges(contradicted(g, facts))))
            ok = True
            for n in g.nodes:
                if n.id not in live or n.stmt is None:
                    continue
                if n.kind == "stmt" and isinstance(n.stmt, ast.Raise):
                    ok = False
                    break
                if any(not self.call_quiet(fi, c, depth) for c in _own_calls(n)):
                    ok = False
                    break
        finally:
            self._busy_q.discard(k)
        self._quiet[k] = ok
        return ok

    def silent_nodes(self, f, g):
        """CFG nodes of `f` that cannot raise (asserts are not a fault source)."""
        s = set()
        for n in g.nodes:
            if n.stmt is None or n.kind not in ("stmt", "test", "for", "with_enter", "match"):
                continue
            if n.kind == "stmt" and isinstance(n.stmt, ast.Raise):
                continue
            if all(self.call_quiet(f, c) for c in _own_calls(n)):
                s.add(n.id)
        return s

    # ------------------------------------------------------------------ hand-back summaries
    @staticmethod
    def excuse(names, fn=None):
        """fact(expr, polarity): the branch outcome says that none of the records `names` (dotted) is owed to the pool:
        no record / in-use marker already cleared / marker is somebody else's / the holder is already finalized."""
        names = set(names)
        marks = {n + ".fairy_ref" for n in names}
        holders = {n.rsplit(".", 1)[0] + ".dbapi_connection" for n in names if "." in n}

        def txt(e):
            # (through one single-assignment local: `owner = rec.fairy_ref` ... `if ref is not owner`)
            return _operand(fn, e) if fn is not None else dotted(e)

        def fact(a, p):
            d = txt(a) if isinstance(a, (ast.Name, ast.Attribute)) else None
            if d is not None:
                return (d in names or d in marks or d in holders) and not p
            if not (isinstance(a, ast.Compare) and len(a.ops) == 1):
                return False
            l, r_ = txt(a.left), txt(a.comparators[0])
            op = a.ops[0]
            same = (isinstance(op, (ast.Is, ast.Eq)) and p) or (isinstance(op, (ast.IsNot, ast.NotEq)) and not p)
            diff = (isinstance(op, (ast.Is, ast.Eq)) and not p) or (isinstance(op, (ast.IsNot, ast.NotEq)) and p)
            ln, rn = (isinstance(x, ast.Constant) and x.value is None for x in (a.left, a.comparators[0]))
            if ln or rn:
                other = r_ if ln else l
                return same and (other in names or other in marks or other in holders)
            return diff and (l in marks or r_ in marks)
        return fact

    def hand_back(self, f, call, depth=0):
        """Dotted texts (in `f`'s names) of the records that `call` hands back to the pool on all its normal paths."""
        nm = call_name(call)
        if nm is None:
            return set()
        parts = nm.split(".")
        if "dispatch" in parts:
            return set()                         # an event of that name, not the method
        if len(parts) >= 2 and parts[-1] in _RETURN_PRIMS:
            if len(call.args) == 1 and not call.keywords and dotted(call.args[0]):
                return {dotted(call.args[0])}
            return set()
        t = self.targets(f, call)
        if not isinstance(t, list) or not t:
            return set()
        via = isinstance(call.func, ast.Attribute) and self.ix.resolve(f.module, nm) is None
        recv = dotted(call.func.value) if via else None
        out = None
        for g in t:
            if g.module is not self.m:
                return set()
            s = self.handback(g, self.call_facts(g, call, via), depth + 1)
            params = list(g.params)
            first = params[0] if (params and g.cls is not None and "staticmethod" not in g.decorators) else None
            b = _bind(call, params[1:] if (first and (via or "classmethod" in g.decorators)) else params)
            mapped = set()
            for item in s:
                head, _, rest = item.partition(".")
                if head == first and via:
                    base = recv
                elif b is not None and head in b:
                    base = dotted(b[head])
                else:
                    base = None
                if base and "()" not in base:
                    mapped.add(base + ("." + rest if rest else ""))
            out = mapped if out is None else (out & mapped)
        return out or set()

    def sites(self, f, g, depth=0):
        out = []
        for n in g.nodes:
            for c in _own_calls(n):
                for r_ in sorted(self.hand_back(f, c, depth)):
                    out.append((n.id, c, r_))
        return out

    def groups(self, f, sites):
        """{canonical record name: (all its names, CFG nodes that hand it back)}; names that denote the same record
        (`fairy._connection_record` of a fairy built around / always passed together with `connection_record`) merge."""
        names = sorted({s[2] for s in sites})
        canon = {}
        for nmx in names:
            al = sorted(a for a in _field_aliases(self.ctx, f, nmx) if a in names or a in f.params)
            canon[nmx] = al[0] if al else nmx
        out = {}
        for nid, c, r_ in sites:
            k = canon[r_]
            e = out.setdefault(k, (set(), set()))
            e[0].update((k, r_))
            e[1].add(nid)
        return out

    def handback(self, fi, facts, depth=0):
        """Records (dotted, rooted in a parameter of `fi`) that `fi` hands back on every normal path, except paths over an
        outcome that excuses it (see `excuse`); branch edges contradicted by `facts` are infeasible."""
        k = (fi.key, tuple(sorted(facts.items())))
        if k in self._hb:
            return self._hb[k]
        if k in self._busy_hb or depth > self.MAX_DEPTH:
            return frozenset()
        self._busy_hb.add(k)
        try:
            from ._helpers_str_l import contradicted
            fi = normal_form(self.ctx, fi, inline=False, alias="dotted", volatile=VOLATILE)   # (aliases only: the callees are the point)
            g = rcfg(self.ctx, fi)
            sites = self.sites(fi, g, depth)
            res = set()
            if sites:
                infeasible = contradicted(g, facts)
                for canon, (names, nodes) in self.groups(fi, sites).items():
                    if canon.split(".")[0] not in fi.params:
                        continue
                    full, part = _edges_establishing(g, fi.node, self.excuse(names, fi.node))
                    w = g.witness([g.entry], [g.exit], avoid=nodes,
                                  edge_ok=both(no_exc, cut_edges(infeasible), cut_edges(full)))
                    if w is None:
                        res.add(canon)
            res = frozenset(res)
        finally:
            self._busy_hb.discard(k)
        self._hb[k] = res
        return res

    def default_facts(self, fi):
        facts = {}
        for p_, v in func_defaults(fi.node).items():
            if isinstance(v, ast.Constant) and isinstance(v.value, bool):
                facts[p_] = v.value
            elif isinstance(v, ast.Constant) and v.value is None:
                pass                             # an Optional parameter is usually given
        return facts


def _acquires(e):
    """`<pool>._do_get()` (also inside `cast(T, ...)`)."""
    if isinstance(e, ast.Call) and (call_name(e) or "").split(".")[-1] == "cast" and len(e.args) == 2:
        e = e.args[1]
    nm = call_name(e) if isinstance(e, ast.Call) else None
    return bool(nm) and "." in nm and nm.rsplit(".", 1)[-1] == _ACQUIRE_PRIM


def every_exit_hands_back(ctx):
    """C25-R7 / C26-R8 (one instance per function of pool/base.py that hands a record back)."""
    sl = ctx.__dict__.get("_c25_slots")
    if sl is None:
        sl = ctx.__dict__["_c25_slots"] = _Slots(ctx)
    # anchor: the return protocol itself
    prim = [f for f in sl.funcs if f.cls is not None and f.name in _RETURN_PRIMS]
    ctx.require(len(prim) >= 2, f"{POOL}: Pool._return_conn / _do_return_conn (the return protocol) not found")
    handers = sorted({f.name for f in sl.funcs if sl.handback(f, sl.default_facts(f)) or sl.handback(f, {})})
    ctx.require(len(handers) >= 4, f"only {handers} hand a record back on all their normal paths; expected checkin, "
                                   "_checkin_failed, detach, _finalize_fairy, ...")
    keep = tuple(sorted(set(handers) | set(_RETURN_PRIMS) | {k.rsplit(".", 1)[-1] for k in DISCARD_COMPLETES}))
    n_inst = n_hard = 0
    # the family, found on the raw functions first (cheap), judged on the normal form: a function with a hand-back
    # call of its own, or one that calls such a function as an extracted helper (inlined by the normal form)
    raw = {f0.key for f0 in sl.funcs if any(sl.hand_back(f0, c) or _acquires(c) for c in calls_in(f0.node))}
    inlinable = {k.rsplit(".", 1)[-1].rsplit("::", 1)[-1] for k in raw} - set(keep)
    for f0 in sl.funcs:
        if f0.key not in raw and not any((call_name(c) or "").rsplit(".", 1)[-1] in inlinable for c in calls_in(f0.node)):
            continue
        f = _nf(ctx, f0, *keep, alias="dotted")
        g = rcfg(ctx, f, strict_exc=True)
        sites = sl.sites(f, g)
        groups = sl.groups(f, sites)
        # a record taken out of the pool here (`x = <pool>._do_get()`) is held from that statement on, whether or not the
        # function has a hand-back for it
        for n in g.nodes:
            st = n.stmt
            if n.kind == "stmt" and isinstance(st, (ast.Assign, ast.AnnAssign)) and st.value is not None and _acquires(st.value):
                for t in (st.targets if isinstance(st, ast.Assign) else [st.target]):
                    if isinstance(t, ast.Name) and not any(t.id in nm_ for nm_, _ in groups.values()):
                        groups[t.id] = ({t.id}, set())
        if not groups:
            continue
        ps = PathSense(g)
        silent = sl.silent_nodes(f, g)
        # a node of a `finally` copy without a normal successor only passes the pending exception on: keep its edge
        mute = {n for n in silent if any(lab != "exc" for _, lab in g.succ[n])}
        no_fault = lambda a, b, lab, mute=mute: not (a in mute and lab == "exc")  # noqa: E731
        bad, wit, held_calls = [], None, 0
        for canon, (names, nodes) in sorted(groups.items()):
            head = canon.split(".")[0]
            binds = [x.id for x in g.nodes if x.stmt is not None and x.kind in ("stmt", "for", "with_enter", "handler")
                     and any(isinstance(y, ast.Name) and y.id == head and isinstance(y.ctx, (ast.Store, ast.Del))
                             for part in ([x.stmt] if x.kind == "stmt" else own_exprs(x.stmt) if isinstance(x.stmt, ast.stmt) else [])
                             for y in ast.walk(part))]
            starts = [g.entry] if head in f.params else []
            for b_ in binds:
                st = g.nodes[b_].stmt
                val = getattr(st, "value", None)
                if isinstance(st, ast.Delete) or (isinstance(st, (ast.Assign, ast.AnnAssign))
                                                  and (val is None or (isinstance(val, ast.Constant) and val.value is None))):
                    continue                     # `del x` / `x = None`: the name no longer denotes a record
                starts += [s_ for s_, lab in g.succ[b_] if lab != "exc"]
            ctx.require(starts, f"{f.key}: cannot tell from where `{canon}` is held")
            full, part = _edges_establishing(g, f.node, sl.excuse(names, f.node))
            avoid = set(nodes) | set(binds)
            ok_edges = both(quiet(g), no_fault, cut_edges(full))
            # path-sensitive on flag locals (`done = False ... finally: if not done: <hand back>`)
            w = ps.witness(starts, [g.raise_exit], avoid=avoid, edge_ok=ok_edges)
            # (an outcome that excuses on some of its alternatives only -- `if rec and echo:` false -- is no excuse: it can be
            # taken with the record owed)
            region = g.reachable(starts, avoid=avoid, edge_ok=ok_edges)
            leaks = []
            for nid in sorted(region):
                n = g.nodes[nid]
                if nid in silent or not any(lab == "exc" for _, lab in g.succ[nid]) or n.kind not in ("stmt", "test", "for", "with_enter", "match"):
                    continue
                held_calls += 1
                if w is not None and g.witness([nid], [g.raise_exit], avoid=avoid, edge_ok=ok_edges, start_edge_ok=_EXC_ONLY) is not None:
                    if isinstance(n.stmt, ast.Raise):
                        what = f"`{unparse(n.stmt)}`"
                    else:
                        cs = [c for c in _own_calls(n) if not sl.call_quiet(f, c)]
                        what = f"a failure of `{unparse(cs[0].func)}(...)`" if cs else f"`{n.describe()}`"
                    leaks.append((n.stmt.lineno, f"line {n.stmt.lineno}: {what} leaves without handing `{canon}` back"))
            if w is not None:
                bad.extend(leaks or [(0, f"an exceptional exit is reachable without a hand-back of `{canon}`")])
                wit = wit or w
        n_inst += 1
        n_hard += bool(held_calls)
        how = ", ".join(sorted({unparse(s[1].func) for s in sites})) or "no hand-back at all"
        ctx.check(not bad, f.key + ":every-exceptional-exit-hands-back",
                  "a pool slot is lost when this function is left by an exception -- " + "; ".join(m_ for _, m_ in sorted(set(bad))) +
                  f".  The function is on its way to return the record ({how}) and nobody else will: the caller gets an exception, "
                  "the in-use marker is cleared or about to be, so the record is neither in the pool nor counted as returned "
                  "(checkedout() stays above the number of live checkouts; after pool_size + max_overflow such exits every checkout "
                  "times out).  Raising calls = DBAPI / dialect / event listener / stored callback, incl. BaseException "
                  "(CancelledError, KeyboardInterrupt)",
                  f"every exceptional exit while the record is held passes {how} ({held_calls} raising statement(s) in the held region)",
                  f.loc, wit, nontrivial=bool(held_calls))
    ctx.require(n_inst >= 6, f"only {n_inst} function(s) of {POOL} hand a record back; expected checkin, _checkin_failed, checkout, "
                             "_finalize_fairy, _checkout, detach, Pool._return_conn, ...")
    ctx.require(n_hard >= 3, f"only {n_hard} function(s) of {POOL} hold a record across a call that can raise; expected checkin, "
                             "checkout, _finalize_fairy, _checkout")


@R.rule("C25-R7", floor=8, template="T-PATH",
        desc="no slot is lost on an exceptional exit: every function of pool/base.py that hands a record back "
             "(Pool._return_conn / _do_return_conn, directly or through functions that end in it: checkin, _checkin_failed, "
             "detach, _finalize_fairy, fairy close / hard invalidate) passes such a hand-back on every exceptional exit that is "
             "reachable while it holds the record -- from its entry for a record it is given, from the acquisition otherwise -- "
             "unless a branch outcome says that there is nothing to return (no record, fairy_ref already cleared or somebody "
             "else's).  Opaque calls (DBAPI, dialect, event listeners, stored callbacks) can raise any BaseException; logging, "
             "container operations, total builtins and package functions made of those cannot; discarding a connection "
             "(invalidate / __close) is assumed to complete")
def r7(ctx):
    every_exit_hands_back(ctx)


# ---------------------------------------------------------------------- self-test battery
R.mutant("inc-overflow-increment-outside-lock", IMPL,
         sub("        with self._overflow_lock:\n            if self._overflow < self._max_overflow:\n                self._overflow += 1\n                return True\n            else:\n                return False\n",
             "        with self._overflow_lock:\n            ok = self._overflow < self._max_overflow\n        if ok:\n            self._overflow += 1\n            return True\n        else:\n            return False\n"), "C25-R1")
R.mutant("dec-overflow-no-lock", IMPL,
         sub("        with self._overflow_lock:\n            self._overflow -= 1\n            return True\n", "        self._overflow -= 1\n        return True\n"), "C25-R1")
R.mutant("inc-overflow-limit-off-by-one", IMPL,
         sub("            if self._overflow < self._max_overflow:\n                self._overflow += 1", "            if self._overflow <= self._max_overflow:\n                self._overflow += 1"), "C25-R1")
R.mutant("overflow-written-from-do-get", IMPL,
         sub("        if self._inc_overflow():\n            try:", "        self._overflow = self._overflow\n        if self._inc_overflow():\n            try:"), "C25-R1")
R.mutant("do-get-no-dec-on-create-failure", IMPL,
         sub("            except:\n                with util.safe_reraise():\n                    self._dec_overflow()\n                raise\n", "            except:\n                raise\n"), "C25-R2")
R.mutant("do-get-dec-only-on-exception-subclass", IMPL,
         sub("            except:\n                with util.safe_reraise():\n                    self._dec_overflow()\n                raise\n",
             "            except exc.DBAPIError:\n                with util.safe_reraise():\n                    self._dec_overflow()\n                raise\n"), "C25-R2")
R.mutant("return-conn-dec-not-in-finally", IMPL,
         sub("            try:\n                record.close()\n            finally:\n                self._dec_overflow()\n", "            record.close()\n            self._dec_overflow()\n"), "C25-R2")
R.mutant("return-conn-no-close", IMPL,
         sub("            try:\n                record.close()\n            finally:\n                self._dec_overflow()\n", "            self._dec_overflow()\n"), "C25-R2")
R.mutant("queue-qsize-unlocked", QUEUE,
         sub("        with self.mutex:\n            return self._qsize()\n", "        return self._qsize()\n"), "C25-R3")
R.mutant("queue-put-outside-lock", QUEUE,
         sub("                    self.not_full.wait(remaining)\n            self._put(item)\n            self.not_empty.notify()\n",
             "                    self.not_full.wait(remaining)\n        self._put(item)\n        with self.not_empty:\n            self.not_empty.notify()\n"), "C25-R3")
R.mutant("queue-direct-deque-access", QUEUE,
         sub("        return self.put(item, False)\n", "        if not self.queue:\n            pass\n        return self.put(item, False)\n"), "C25-R3")
R.mutant("queue-wait-if-not-while", QUEUE,
         sub("                while self._empty():\n                    self.not_empty.wait()\n", "                if self._empty():\n                    self.not_empty.wait()\n"), "C25-R4")
R.mutant("queue-wait-wrong-predicate", QUEUE,
         sub("                while self._full():\n                    self.not_full.wait()\n", "                while self._empty():\n                    self.not_full.wait()\n"), "C25-R4")
R.mutant("queue-get-notify-dropped", QUEUE,
         sub("            item = self._get()\n            self.not_full.notify()\n", "            item = self._get()\n"), "C25-R4")
R.mutant("queue-put-notifies-wrong-condition", QUEUE,
         sub("            self._put(item)\n            self.not_empty.notify()\n", "            self._put(item)\n            self.not_full.notify()\n"), "C25-R4")
R.mutant("queue-timeout-never-raises", QUEUE,
         sub("                    if remaining <= 0.0:\n                        raise Empty\n", "                    if remaining <= 0.0:\n                        remaining = 0.0\n"), "C25-R4")
R.mutant("nullpool-no-return-conn", IMPL,
         sub("    def _do_return_conn(self, record: ConnectionPoolEntry) -> None:\n        record.close()\n\n", ""), "C25-R5")
R.mutant("checkedout-ignores-overflow", IMPL,
         sub("        return self._pool.maxsize - self._pool.qsize() + self._overflow\n", "        return self._pool.maxsize - self._pool.qsize()\n"), "C25-R5")
R.mutant("checkedout-sign-flipped", IMPL,
         sub("        return self._pool.maxsize - self._pool.qsize() + self._overflow\n", "        return self._pool.maxsize + self._pool.qsize() + self._overflow\n"), "C25-R5")
R.mutant("fairy-ref-written-by-invalidate", POOL,
         sub("        else:\n            self.__close(terminate=True)\n            self.dbapi_connection = None\n", "        else:\n            self.__close(terminate=True)\n            self.dbapi_connection = None\n            self.fairy_ref = None\n"), "C25-R6")
R.mutant("checkin-no-double-checkin-guard", POOL,
         sub("        if self.fairy_ref is None and _fairy_was_created:", "        if self.fairy_ref is None and _fairy_was_created and self.fresh:"), "C25-R6")
R.mutant("checkin-clears-fairy-ref-late", POOL,
         chain(sub("        self.fairy_ref = None\n        connection = self.dbapi_connection\n        pool = self.__pool\n", "        connection = self.dbapi_connection\n        pool = self.__pool\n"),
               sub("            raise\n\n        pool._return_conn(self)\n", "            raise\n\n        pool._return_conn(self)\n        self.fairy_ref = None\n")), "C25-R6")
# --- seeds (round 2) and their neighbourhood
_INC = "        with self._overflow_lock:\n            if self._overflow < self._max_overflow:\n                self._overflow += 1\n                return True\n            else:\n                return False\n"
R.mutant("seed1-inc-overflow-limit-test-hoisted-out-of-lock", IMPL,
         sub(_INC, "        if self._overflow >= self._max_overflow:\n            return False\n        with self._overflow_lock:\n            self._overflow += 1\n            return True\n"), "C25-R1")
R.mutant("inc-overflow-limit-test-in-another-lock-region", IMPL,
         sub(_INC, "        with self._overflow_lock:\n            if self._overflow >= self._max_overflow:\n                return False\n        with self._overflow_lock:\n            self._overflow += 1\n            return True\n"), "C25-R1")
R.mutant("inc-overflow-mirrored-off-by-one", IMPL,
         sub("            if self._overflow < self._max_overflow:\n                self._overflow += 1", "            if self._max_overflow >= self._overflow:\n                self._overflow += 1"), "C25-R1")
R.mutant("benign-inc-overflow-early-return-inside-lock", IMPL,
         sub(_INC, "        with self._overflow_lock:\n            if self._overflow >= self._max_overflow:\n                return False\n            self._overflow += 1\n            return True\n"), None)
R.mutant("benign-inc-overflow-double-checked", IMPL,
         sub(_INC, "        if self._overflow >= self._max_overflow:\n            return False\n        with self._overflow_lock:\n            if self._max_overflow > self._overflow:\n                self._overflow += 1\n                return True\n            return False\n"), None)
R.mutant("benign-inc-overflow-flag-local-inside-lock", IMPL,
         sub(_INC, "        with self._overflow_lock:\n            room = self._overflow < self._max_overflow\n            if room:\n                self._overflow += 1\n            return room\n"), None)
_GC = "        if connection_record.fairy_ref is not ref:\n            return\n        assert dbapi_connection is None\n        dbapi_connection = connection_record.dbapi_connection\n"
R.mutant("seed2-finalize-fairy-gc-guard-tests-none-not-own-ref", POOL,
         sub(_GC, "        if connection_record.fairy_ref is None:\n            return\n        assert dbapi_connection is None\n        dbapi_connection = connection_record.dbapi_connection\n"), "C25-R6")
R.mutant("finalize-fairy-gc-guard-dropped", POOL,
         sub(_GC, "        assert dbapi_connection is None\n        dbapi_connection = connection_record.dbapi_connection\n"), "C25-R6")
R.mutant("finalize-fairy-gc-guard-inverted", POOL,
         sub("        if connection_record.fairy_ref is not ref:\n            return\n", "        if connection_record.fairy_ref is ref:\n            return\n"), "C25-R6")
R.mutant("finalize-fairy-gc-guard-after-checkin", POOL,
         chain(sub(_GC, "        assert dbapi_connection is None\n        dbapi_connection = connection_record.dbapi_connection\n"),
               sub("    if connection_record and connection_record.fairy_ref is not None:\n        connection_record.checkin()\n",
                   "    if connection_record and connection_record.fairy_ref is not None:\n        connection_record.checkin()\n    if is_gc_cleanup and connection_record.fairy_ref is not ref:\n        return\n")), "C25-R6")
R.mutant("checkout-callback-passes-records-current-ref", POOL,
         sub("                    None, rec, pool, ref, echo, transaction_was_reset=False\n", "                    None, rec, pool, rec.fairy_ref, echo, transaction_was_reset=False\n"), "C25-R6")
R.mutant("benign-finalize-fairy-guard-positive-form", POOL,
         sub(_GC, "        if connection_record.fairy_ref is ref:\n            assert dbapi_connection is None\n            dbapi_connection = connection_record.dbapi_connection\n        else:\n            return\n"), None)
R.mutant("benign-finalize-fairy-guard-via-local", POOL,
         sub(_GC, "        current_owner = connection_record.fairy_ref\n        if ref is not current_owner:\n            return\n        assert dbapi_connection is None\n        dbapi_connection = connection_record.dbapi_connection\n"), None)
R.mutant("benign-finalize-fairy-reads-connection-before-guard", POOL,
         sub(_GC, "        assert dbapi_connection is None\n        dbapi_connection = connection_record.dbapi_connection\n        if connection_record.fairy_ref is not ref:\n            return\n"), None)
R.mutant("benign-checkout-callback-arg-renamed", POOL,
         chain(sub("            lambda ref: (\n", "            lambda wr: (\n"),
               sub("                    None, rec, pool, ref, echo, transaction_was_reset=False\n", "                    None, rec, pool, wr, echo, transaction_was_reset=False\n")), None)
# --- sweep-driven clauses (R2 checkout limits, R4 predicate-before-mutation)
R.mutant("do-get-creates-when-slot-refused", IMPL,
         sub("                raise\n        else:\n            return self._do_get()\n", "                raise\n        else:\n            return self._create_connection()\n"), "C25-R2")
R.mutant("do-get-slot-test-negated", IMPL,
         sub("        if self._inc_overflow():\n            try:", "        if not self._inc_overflow():\n            try:"), "C25-R2")
R.mutant("do-get-wait-flag-off-by-one", IMPL,
         sub("        wait = use_overflow and self._overflow >= self._max_overflow\n", "        wait = use_overflow and self._overflow > self._max_overflow\n"), "C25-R2")
R.mutant("do-get-retest-off-by-one", IMPL,
         sub("        if use_overflow and self._overflow >= self._max_overflow:\n", "        if use_overflow and self._overflow > self._max_overflow:\n"), "C25-R2")
R.mutant("do-get-queue-get-args-swapped", IMPL,
         sub("            return self._pool.get(wait, self._timeout)\n", "            return self._pool.get(self._timeout, wait)\n"), "C25-R2")
R.mutant("do-get-always-blocks", IMPL,
         sub("            return self._pool.get(wait, self._timeout)\n", "            return self._pool.get(True, self._timeout)\n"), "C25-R2")
R.mutant("do-get-waits-without-timeout", IMPL,
         sub("            return self._pool.get(wait, self._timeout)\n", "            return self._pool.get(wait)\n"), "C25-R2")
R.mutant("do-get-timeout-without-having-waited", IMPL,
         sub("            if not wait:\n                return self._do_get()\n", "            if wait:\n                return self._do_get()\n"), "C25-R2")
R.mutant("do-get-timeout-when-not-at-limit", IMPL,
         sub("        if use_overflow and self._overflow >= self._max_overflow:\n", "        if not (use_overflow and self._overflow >= self._max_overflow):\n"), "C25-R2")
R.mutant("return-conn-put-blocks", IMPL,
         sub("            self._pool.put(record, False)\n", "            self._pool.put(record)\n"), "C25-R2")
R.mutant("queue-put-nonblocking-ignores-full", QUEUE,
         sub("                if self._full():\n                    raise Full\n", "                if self._full():\n                    pass\n"), "C25-R4")
R.mutant("queue-get-nonblocking-test-negated", QUEUE,
         sub("                if self._empty():\n                    raise Empty\n", "                if not self._empty():\n                    raise Empty\n"), "C25-R4")
R.mutant("queue-put-blocking-mode-skips-wait", QUEUE,
         sub("            elif timeout is None:\n                while self._full():\n                    self.not_full.wait()\n",
             "            elif timeout is None:\n                while not self._full():\n                    self.not_full.wait()\n"), "C25-R4")
R.mutant("benign-do-get-queue-get-keywords", IMPL,
         sub("            return self._pool.get(wait, self._timeout)\n", "            return self._pool.get(timeout=self._timeout, block=wait)\n"), None)
R.mutant("benign-do-get-wait-flag-mirrored", IMPL,
         sub("        wait = use_overflow and self._overflow >= self._max_overflow\n", "        wait = use_overflow and not (self._max_overflow > self._overflow)\n"), None)
R.mutant("benign-do-get-timeout-branch-order", IMPL,
         sub("            if not wait:\n                return self._do_get()\n            else:\n                raise exc.TimeoutError(", "            if not wait:\n                return self._do_get()\n            raise exc.TimeoutError("), None)
R.mutant("benign-return-conn-put-nowait", IMPL,
         sub("            self._pool.put(record, False)\n", "            self._pool.put_nowait(record)\n"), None)
R.mutant("benign-queue-put-nonblocking-inverted-test", QUEUE,
         sub("                if self._full():\n                    raise Full\n", "                if not self._full():\n                    pass\n                else:\n                    raise Full\n"), None)
R.mutant("inc-overflow-says-yes-without-increment", IMPL,
         sub(_INC, "        with self._overflow_lock:\n            if self._overflow < self._max_overflow:\n                self._overflow += 1\n                return True\n            else:\n                return True\n"), "C25-R1")
R.mutant("inc-overflow-says-no-after-increment", IMPL,
         sub(_INC, "        with self._overflow_lock:\n            if self._overflow < self._max_overflow:\n                self._overflow += 1\n                return None\n            else:\n                return False\n"), "C25-R1")
R.mutant("checkin-refusal-off-by-default", POOL,
         sub("    def checkin(self, _fairy_was_created: bool = True) -> None:\n", "    def checkin(self, _fairy_was_created: bool = False) -> None:\n"), "C25-R6")
R.mutant("checkin-refuses-record-that-never-had-a-fairy", POOL,
         sub("        if self.fairy_ref is None and _fairy_was_created:", "        if self.fairy_ref is None:"), "C25-R6")
R.mutant("do-get-unlimited-test-includes-no-limit", IMPL,
         sub("        use_overflow = self._max_overflow > -1\n", "        use_overflow = self._max_overflow >= -1\n"), "C25-R2")
R.mutant("do-get-drops-record-taken-from-queue", IMPL,
         sub("            return self._pool.get(wait, self._timeout)\n", "            self._pool.get(wait, self._timeout)\n            return None\n"), "C25-R2")
R.mutant("do-get-dec-not-on-cancellation", IMPL,
         sub("            except:\n                with util.safe_reraise():\n                    self._dec_overflow()\n                raise\n",
             "            except Exception:\n                with util.safe_reraise():\n                    self._dec_overflow()\n                raise\n"), "C25-R2")
R.mutant("queue-get-blocking-flag-negated", QUEUE,
         sub("            if not block:\n                if self._empty():\n", "            if block:\n                if self._empty():\n"), "C25-R4")
R.mutant("queue-put-untimed-wait-when-timeout-given", QUEUE,
         sub("            elif timeout is None:\n                while self._full():\n", "            elif timeout is not None:\n                while self._full():\n"), "C25-R4")
R.mutant("queue-get-spins-holding-the-lock", QUEUE,
         sub("                while self._empty():\n                    self.not_empty.wait()\n", "                while self._empty():\n                    pass\n"), "C25-R4")
R.mutant("queue-get-returns-nothing", QUEUE,
         sub("            self.not_full.notify()\n            return item\n", "            self.not_full.notify()\n            return None\n"), "C25-R4")
R.mutant("benign-queue-get-rename-item", QUEUE,
         sub("            item = self._get()\n            self.not_full.notify()\n            return item\n", "            taken = self._get()\n            self.not_full.notify()\n            return taken\n"), None)
R.mutant("benign-do-get-except-baseexception", IMPL,
         sub("            except:\n                with util.safe_reraise():\n                    self._dec_overflow()\n                raise\n",
             "            except BaseException:\n                with util.safe_reraise():\n                    self._dec_overflow()\n                raise\n"), None)
R.mutant("benign-do-get-unlimited-test-ne", IMPL,
         sub("        use_overflow = self._max_overflow > -1\n", "        use_overflow = self._max_overflow != -1\n"), None)
R.mutant("benign-queue-get-mode-tests-reordered", QUEUE,
         sub("            if not block:\n                if self._empty():\n                    raise Empty\n            elif timeout is None:\n                while self._empty():\n                    self.not_empty.wait()\n            else:\n",
             "            if block and timeout is None:\n                while self._empty():\n                    self.not_empty.wait()\n            elif not block:\n                if self._empty():\n                    raise Empty\n            else:\n"), None)
_CI = "    if connection_record and connection_record.fairy_ref is not None:\n        connection_record.checkin()\n"
R.mutant("finalize-fairy-skips-checkin-of-owned-record", POOL,
         sub(_CI, "    if not (connection_record and connection_record.fairy_ref is not None):\n        connection_record.checkin()\n"), "C25-R6")
R.mutant("finalize-fairy-checkin-dropped", POOL,
         sub(_CI, "    if connection_record and connection_record.fairy_ref is not None:\n        pass\n"), "C25-R6")
R.mutant("checkout-callback-never-calls-finalizer", POOL,
         sub("                if _finalize_fairy is not None\n", "                if _finalize_fairy is None\n"), "C25-R6")
R.mutant("do-get-waits-in-unlimited-pool", IMPL,
         sub("        wait = use_overflow and self._overflow >= self._max_overflow\n", "        wait = self._overflow >= self._max_overflow\n"), "C25-R2")
R.mutant("do-get-timeout-in-unlimited-pool", IMPL,
         sub("        if use_overflow and self._overflow >= self._max_overflow:\n", "        if self._overflow >= self._max_overflow:\n"), "C25-R2")
R.mutant("benign-finalize-fairy-checkin-guard-nested", POOL,
         sub(_CI, "    if connection_record:\n        if connection_record.fairy_ref is not None:\n            connection_record.checkin()\n"), None)
R.mutant("benign-do-get-limited-test-inline", IMPL,
         sub("        wait = use_overflow and self._overflow >= self._max_overflow\n", "        wait = self._max_overflow != -1 and self._overflow >= self._max_overflow\n"), None)
# benign refactors
R.mutant("benign-queue-rename-local", QUEUE, sub("remaining", "left", count=6), None)
R.mutant("benign-checkedout-reordered", IMPL,
         sub("        return self._pool.maxsize - self._pool.qsize() + self._overflow\n", "        return self._overflow + self._pool.maxsize - self._pool.qsize()\n"), None)
R.mutant("benign-do-get-logging", IMPL,
         sub("        if self._inc_overflow():\n            try:\n                return self._create_connection()\n", "        if self._inc_overflow():\n            try:\n                self.logger.debug(\"overflow connection\")\n                return self._create_connection()\n"), None)
R.mutant("benign-inc-overflow-early-return-style", IMPL,
         sub("            if self._overflow < self._max_overflow:\n                self._overflow += 1\n                return True\n            else:\n                return False\n",
             "            if self._overflow < self._max_overflow:\n                self._overflow += 1\n                return True\n            return False\n"), None)
# --- seed C29/1 (str-m): the undo handler narrowed to `except Exception` (CancelledError / GreenletExit pass by);
#     caught here because overflow_pairing builds its CFG with strict_exc=True; C29-R5 reports the handler width itself
R.mutant("seedC29-1-do-get-undo-handler-narrowed-to-exception", IMPL,
         sub("            except:\n                with util.safe_reraise():\n                    self._dec_overflow()\n                raise\n",
             "            except Exception:\n                with util.safe_reraise():\n                    self._dec_overflow()\n                raise\n"), "C25-R2")

# ---------------------------------------------------------------------- rob-A: behaviour-preserving refactorings
# (families of the stored benign/rfA_8, rfA_9 + variants; the rules analyse the normal form, see _helpers_rob_a)
_DEC = "        if self._max_overflow == -1:\n            self._overflow -= 1\n            return True\n"
R.mutant("benign-rob-overflow-unlimited-flag-early-return", IMPL,
         chain(sub("        if self._max_overflow == -1:\n            self._overflow += 1\n            return True\n" + _INC,
                   "        unlimited = self._max_overflow == -1\n        if unlimited:\n            self._overflow += 1\n            return True\n"
                   "        with self._overflow_lock:\n            if self._overflow >= self._max_overflow:\n                return False\n"
                   "            self._overflow += 1\n            return True\n"),
               sub(_DEC, "        unlimited = self._max_overflow == -1\n        if unlimited:\n            self._overflow -= 1\n            return True\n")), None)
# ... a snapshot of the shared counter taken outside the lock is not an alias of the comparison
R.mutant("rob-inc-overflow-room-snapshot-outside-lock", IMPL,
         sub(_INC, "        room = self._overflow < self._max_overflow\n        with self._overflow_lock:\n            if room:\n"
                   "                self._overflow += 1\n                return True\n            else:\n                return False\n"), "C25-R1")
_TAKE = "    def _take_slot(self) -> bool:\n        self._overflow += 1\n        return True\n\n"
_INC_ALL = "        if self._max_overflow == -1:\n            self._overflow += 1\n            return True\n" + _INC
_INC_HELPER = ("        if self._max_overflow == -1:\n            return self._take_slot()\n        with self._overflow_lock:\n"
               "            if self._overflow < self._max_overflow:\n                return self._take_slot()\n            else:\n                return False\n")
R.mutant("benign-rob-inc-overflow-increment-helper", IMPL,
         chain(sub(_INC_ALL, _INC_HELPER), sub("    def _inc_overflow(self) -> bool:\n", _TAKE + "    def _inc_overflow(self) -> bool:\n")), None)
R.mutant("rob-increment-helper-also-called-unlocked", IMPL,
         chain(sub(_INC_ALL, _INC_HELPER), sub("    def _inc_overflow(self) -> bool:\n", _TAKE + "    def _inc_overflow(self) -> bool:\n"),
               sub("        use_overflow = self._max_overflow > -1\n", "        use_overflow = self._max_overflow > -1\n        if self._pre_ping:\n            self._take_slot()\n")), "C25-R1")
_GOT = ("        if self._inc_overflow():\n            try:\n                return self._create_connection()\n            except:\n"
        "                with util.safe_reraise():\n                    self._dec_overflow()\n                raise\n        else:\n            return self._do_get()\n")
R.mutant("benign-rob-do-get-slot-flag-local", IMPL,
         sub(_GOT, "        got_slot = self._inc_overflow()\n        if got_slot:\n            try:\n                return self._create_connection()\n            except:\n"
                   "                with util.safe_reraise():\n                    self._dec_overflow()\n                raise\n        else:\n            return self._do_get()\n"), None)
R.mutant("benign-rob-do-get-no-slot-early-return", IMPL,
         sub(_GOT, "        if not self._inc_overflow():\n            return self._do_get()\n        try:\n            return self._create_connection()\n        except:\n"
                   "            with util.safe_reraise():\n                self._dec_overflow()\n            raise\n"), None)
R.mutant("benign-rob-do-get-create-helper", IMPL,
         chain(sub(_GOT, "        if self._inc_overflow():\n            return self._create_overflow_connection()\n        else:\n            return self._do_get()\n"),
               sub("    def _do_get(self) -> ConnectionPoolEntry:\n        use_overflow",
                   "    def _create_overflow_connection(self) -> ConnectionPoolEntry:\n        try:\n            return self._create_connection()\n        except:\n"
                   "            with util.safe_reraise():\n                self._dec_overflow()\n            raise\n\n"
                   "    def _do_get(self) -> ConnectionPoolEntry:\n        use_overflow")), None)
R.mutant("rob-do-get-create-helper-forgets-dec", IMPL,
         chain(sub(_GOT, "        if self._inc_overflow():\n            return self._create_overflow_connection()\n        else:\n            return self._do_get()\n"),
               sub("    def _do_get(self) -> ConnectionPoolEntry:\n        use_overflow",
                   "    def _create_overflow_connection(self) -> ConnectionPoolEntry:\n        try:\n            return self._create_connection()\n        except Exception:\n"
                   "            with util.safe_reraise():\n                self._dec_overflow()\n            raise\n\n"
                   "    def _do_get(self) -> ConnectionPoolEntry:\n        use_overflow")), "C25-R2")
R.mutant("benign-rob-do-get-queue-alias", IMPL,
         sub("        try:\n            return self._pool.get(wait, self._timeout)\n", "        idle = self._pool\n        try:\n            return idle.get(wait, self._timeout)\n"), None)
R.mutant("benign-rob-return-conn-discard-helper", IMPL,
         chain(sub("        except sqla_queue.Full:\n            try:\n                record.close()\n            finally:\n                self._dec_overflow()\n",
                   "        except sqla_queue.Full:\n            self._discard_overflow(record)\n"),
               sub("    def _do_get(self) -> ConnectionPoolEntry:\n        use_overflow",
                   "    def _discard_overflow(self, rec: ConnectionPoolEntry) -> None:\n        try:\n            rec.close()\n        finally:\n"
                   "            self._dec_overflow()\n\n    def _do_get(self) -> ConnectionPoolEntry:\n        use_overflow")), None)
_GETWAIT = ("            if not block:\n                if self._empty():\n                    raise Empty\n            elif timeout is None:\n"
            "                while self._empty():\n                    self.not_empty.wait()\n            else:\n                if timeout < 0:\n"
            "                    raise ValueError(\"'timeout' must be a positive number\")\n                endtime = _time() + timeout\n"
            "                while self._empty():\n                    remaining = endtime - _time()\n                    if remaining <= 0.0:\n"
            "                        raise Empty\n                    self.not_empty.wait(remaining)\n")
_GETNW = "    def get_nowait(self) -> _T:\n        \"\"\"Remove and return an item from the queue without blocking.\n\n        Only get an item if one is immediately available. Otherwise\n"
R.mutant("benign-rob-queue-get-wait-helper", QUEUE,
         chain(sub(_GETWAIT, "            self._wait_for_item(block, timeout)\n"),
               sub(_GETNW,
                   "    def _wait_for_item(self, block: bool, timeout: Optional[float]) -> None:\n"
                   + _GETWAIT.replace("\n            ", "\n        ").replace("            if not block", "        if not block", 1)
                   .replace("remaining", "time_left").replace("endtime", "deadline") + "\n" + _GETNW)), None)
# ... the same helper called before the lock is taken is seen through
R.mutant("rob-queue-get-wait-helper-outside-lock", QUEUE,
         chain(sub("        with self.not_empty:\n" + _GETWAIT, "        self._wait_for_item(block, timeout)\n        with self.not_empty:\n"),
               sub(_GETNW,
                   "    def _wait_for_item(self, block: bool, timeout: Optional[float]) -> None:\n"
                   + _GETWAIT.replace("\n            ", "\n        ").replace("            if not block", "        if not block", 1) + "\n" + _GETNW)), "C25-R3")
R.mutant("benign-rob-queue-put-condition-alias", QUEUE,
         chain(sub("        with self.not_full:\n            if not block:\n                if self._full():\n", "        room = self.not_full\n        with room:\n            if not block:\n                if self._full():\n"),
               sub("                while self._full():\n                    self.not_full.wait()\n", "                while self._full():\n                    room.wait()\n")), None)
R.mutant("benign-rob-queue-get-nonblocking-early-raise", QUEUE,
         sub("            if not block:\n                if self._empty():\n                    raise Empty\n            elif timeout is None:\n                while self._empty():\n                    self.not_empty.wait()\n",
             "            if not block and self._empty():\n                raise Empty\n            if not block:\n                pass\n            elif timeout is None:\n                while self._empty():\n                    self.not_empty.wait()\n"), None)
_REFUSE = (
    "        if self.fairy_ref is None and _fairy_was_created:\n"
    "            # _fairy_was_created is False for the initial get connection phase;\n"
    "            # meaning there was no _ConnectionFairy and we must unconditionally\n"
    "            # do a checkin.\n"
    "            #\n"
    "            # otherwise, if fairy_was_created==True, if fairy_ref is None here\n"
    "            # that means we were checked in already, so this looks like\n"
    "            # a double checkin.\n"
    "            util.warn(\"Double checkin attempted on %s\" % self)\n"
    "            return\n"
)
R.mutant("benign-rob-checkin-refusal-nested-ifs", POOL,
         sub(_REFUSE, "        if self.fairy_ref is None:\n            if _fairy_was_created:\n"
                      "                util.warn(\"Double checkin attempted on %s\" % self)\n                return\n"), None)
R.mutant("benign-rob-checkin-refusal-flag-local", POOL,
         sub(_REFUSE, "        double_checkin = _fairy_was_created and not self.fairy_ref\n        if double_checkin:\n"
                      "            util.warn(\"Double checkin attempted on %s\" % self)\n            return\n"), None)
R.mutant("rob-checkin-refusal-nested-ifs-wrong-switch-sense", POOL,
         sub(_REFUSE, "        if self.fairy_ref is None:\n            if not _fairy_was_created:\n"
                      "                util.warn(\"Double checkin attempted on %s\" % self)\n                return\n"), "C25-R6")
R.mutant("benign-rob-checkedout-through-locals", IMPL,
         sub("        return self._pool.maxsize - self._pool.qsize() + self._overflow\n",
             "        queue = self._pool\n        idle = queue.qsize()\n        return queue.maxsize - idle + self._overflow\n"), None)

# ---------------------------------------------------------------------- str2-j: round-2 seeds (C25_3, C25_4)
# --- C25-R6: the record is not written after it was handed back
# (tail of checkin() since the fix b091da1: error arm, then the normal hand-back)
_CHECKIN_TAIL = ("            pool._return_conn(self)\n            raise\n\n        pool._return_conn(self)\n")
R.mutant("seed4-checkin-clears-fairy-ref-after-return", POOL,
         chain(sub("            return\n        self.fairy_ref = None\n        connection = self.dbapi_connection\n", "            return\n        connection = self.dbapi_connection\n"),
               sub(_CHECKIN_TAIL, _CHECKIN_TAIL + "        self.fairy_ref = None\n")), "C25-R6")
# fairy_ref is cleared in time, but another field of the record is still written after the hand-back
R.mutant("checkin-writes-record-after-return", POOL,
         sub(_CHECKIN_TAIL, _CHECKIN_TAIL + "        self.fresh = False\n"), "C25-R6")
R.mutant("checkin-after-return-helper", POOL,
         chain(sub(_CHECKIN_TAIL, _CHECKIN_TAIL + "        self._mark_returned()\n"),
               sub("    def checkin(self, _fairy_was_created: bool = True) -> None:\n",
                   "    def _mark_returned(self) -> None:\n        self.finalize_callback.clear()\n\n"
                   "    def checkin(self, _fairy_was_created: bool = True) -> None:\n")), "C25-R6")
R.mutant("checkin-failed-invalidates-after-checkin", POOL,
         sub("        self.invalidate(e=err)\n        self.checkin(\n            _fairy_was_created=_fairy_was_created,\n        )\n",
             "        self.checkin(\n            _fairy_was_created=_fairy_was_created,\n        )\n        self.invalidate(e=err)\n"), "C25-R6")
R.mutant("detach-writes-record-after-return", POOL,
         sub("            rec.fairy_ref = None\n            rec.dbapi_connection = None\n            # TODO: should this be _return_conn?\n"
             "            self._pool._do_return_conn(self._connection_record)\n",
             "            rec.fairy_ref = None\n            # TODO: should this be _return_conn?\n"
             "            self._pool._do_return_conn(self._connection_record)\n            self._connection_record.dbapi_connection = None\n"), "C25-R6")
R.mutant("benign-checkin-log-after-return", POOL,
         sub(_CHECKIN_TAIL, _CHECKIN_TAIL + "        pool.logger.debug(\"Connection %r returned to pool\", connection)\n"), None)
R.mutant("benign-checkin-hand-back-helper", POOL,
         chain(sub(_CHECKIN_TAIL, _CHECKIN_TAIL.replace("        pool._return_conn(self)\n", "        self._hand_back(pool)\n")),
               sub("    def checkin(self, _fairy_was_created: bool = True) -> None:\n",
                   "    def _hand_back(self, pool: Pool) -> None:\n        pool._return_conn(self)\n\n"
                   "    def checkin(self, _fairy_was_created: bool = True) -> None:\n")), None)
R.mutant("benign-detach-return-through-local", POOL,
         sub("            self._pool._do_return_conn(self._connection_record)\n", "            owner = self._pool\n            owner._do_return_conn(rec)\n"), None)
R.mutant("benign-checkin-failed-reads-after-checkin", POOL,
         sub("        self.checkin(\n            _fairy_was_created=_fairy_was_created,\n        )\n",
             "        self.checkin(\n            _fairy_was_created=_fairy_was_created,\n        )\n"
             "        self.__pool.logger.debug(\"record %r checked in after %r\", self, err)\n"), None)
# --- C25-R4 / seed 3: the timed wait loop of Queue.get turned into a single wait
R.mutant("seed3-get-timed-wait-once", QUEUE,
         sub("                endtime = _time() + timeout\n                while self._empty():\n                    remaining = endtime - _time()\n"
             "                    if remaining <= 0.0:\n                        raise Empty\n                    self.not_empty.wait(remaining)\n",
             "                if self._empty():\n                    self.not_empty.wait(timeout)\n                    if self._empty():\n                        raise Empty\n"), "C25-R4")
R.mutant("put-timed-wait-once", QUEUE,
         sub("                endtime = _time() + timeout\n                while self._full():\n                    remaining = endtime - _time()\n"
             "                    if remaining <= 0.0:\n                        raise Full\n                    self.not_full.wait(remaining)\n",
             "                if self._full():\n                    self.not_full.wait(timeout)\n                    if self._full():\n                        raise Full\n"), "C25-R4")

# ---------------------------------------------------------------------- C25-R7 (every exceptional exit hands the record back)
# The two findings of this rule on the original tree (checkin: failing finaliser / checkin listener; _finalize_fairy: non-Exception
# re-raise in front of the check-in; findings/C24_failing_finaliser_leaks_pool_slot.py, C25_failing_checkin_listener_leaks_pool_slot.py,
# C26_cancel_during_reset_skips_checkin.py) are fixed in /repo (b091da1, abfbc05); AFTER_FIX holds the inputs written against the
# fixed shape of those two functions (un-fix mutants first).
R.mutant("r7-checkout-get-connection-handler-narrowed-to-exception", POOL,
         sub("            dbapi_connection = rec.get_connection()\n        except BaseException as err:",
             "            dbapi_connection = rec.get_connection()\n        except Exception as err:"), "C25-R7")
R.mutant("r7-checkout-get-connection-outside-any-handler", POOL,
         sub("        try:\n            dbapi_connection = rec.get_connection()\n        except BaseException as err:\n"
             "            with util.safe_reraise():\n                rec._checkin_failed(err, _fairy_was_created=False)\n\n"
             "            # not reached, for code linters only\n            raise\n",
             "        dbapi_connection = rec.get_connection()\n"), "C25-R7")
R.mutant("r7-checkin-failed-terminates-by-hand-before-checkin", POOL,
         sub("        self.invalidate(e=err)\n        self.checkin(\n",
             "        if self.dbapi_connection is not None:\n            self.__pool._dialect.do_terminate(self.dbapi_connection)\n"
             "            self.dbapi_connection = None\n        self.checkin(\n"), "C25-R7")
R.mutant("r7-fairy-checkout-outer-handler-narrowed-to-exception", POOL,
         sub("            except BaseException as be_outer:", "            except Exception as be_outer:"), "C25-R7")
R.mutant("r7-fairy-checkout-reconnect-handler-narrowed-to-exception", POOL,
         sub("                except BaseException as err:\n                    with util.safe_reraise():\n"
             "                        fairy._connection_record._checkin_failed(",
             "                except Exception as err:\n                    with util.safe_reraise():\n"
             "                        fairy._connection_record._checkin_failed("), "C25-R7")
R.mutant("r7-fairy-checkout-exhausted-only-soft-invalidates", POOL,
         sub("        fairy.invalidate()\n        raise exc.InvalidRequestError", "        fairy.invalidate(soft=True)\n        raise exc.InvalidRequestError"),
         "C25-R7")
R.mutant("r7-detach-event-dispatched-before-the-record-is-returned", POOL,
         sub("            rec.dbapi_connection = None\n            # TODO: should this be _return_conn?\n",
             "            rec.dbapi_connection = None\n            if self._pool.dispatch.detach:\n"
             "                self._pool.dispatch.detach(self.dbapi_connection, rec)\n            # TODO: should this be _return_conn?\n"),
         "C25-R7")
R.mutant("r7-return-conn-wrapper-runs-a-listener-first", POOL,
         sub("        self._do_return_conn(record)\n", "        self.dispatch.checkin(record.dbapi_connection, record)\n        self._do_return_conn(record)\n"),
         "C25-R7")
R.mutant("benign-r7-checkin-failed-logs-first", POOL,
         sub("        self.invalidate(e=err)\n        self.checkin(\n",
             "        self.__pool.logger.debug(\"checkin after failure: %r\", err)\n        self.invalidate(e=err)\n        self.checkin(\n"), None)
R.mutant("benign-r7-checkout-give-back-helper", POOL,
         chain(sub("                rec._checkin_failed(err, _fairy_was_created=False)\n", "                cls._abort_checkout(rec, err)\n"),
               sub("    def _checkin_failed(\n        self, err: BaseException, _fairy_was_created: bool = True\n    ) -> None:\n",
                   "    @classmethod\n    def _abort_checkout(cls, rec: _ConnectionRecord, err: BaseException) -> None:\n"
                   "        rec._checkin_failed(err, _fairy_was_created=False)\n\n"
                   "    def _checkin_failed(\n        self, err: BaseException, _fairy_was_created: bool = True\n    ) -> None:\n")), None)
R.mutant("benign-r7-fairy-checkout-outer-handler-inverted-test", POOL,
         sub("                    if rec is not None:\n                        rec._checkin_failed(\n                            be_outer,\n"
             "                            _fairy_was_created=True,\n                        )\n",
             "                    if rec is None:\n                        pass\n                    else:\n                        rec._checkin_failed(\n"
             "                            be_outer,\n                            _fairy_was_created=True,\n                        )\n"), None)
R.mutant("benign-r7-fairy-checkout-exhausted-hard-invalidate-by-keyword", POOL,
         sub("        fairy.invalidate()\n        raise exc.InvalidRequestError", "        fairy.invalidate(soft=False)\n        raise exc.InvalidRequestError"), None)
R.mutant("benign-r7-detach-pool-alias-and-local-record", POOL,
         sub("            self._pool._do_return_conn(self._connection_record)\n", "            pool = self._pool\n            pool._do_return_conn(rec)\n"), None)
R.mutant("benign-r7-checkout-container-bookkeeping-while-held", POOL,
         sub("        echo = pool._should_log_debug()\n        fairy = _ConnectionFairy(pool, dbapi_connection, rec, echo)\n",
             "        echo = pool._should_log_debug()\n        seen = list(_strong_ref_connection_records.values())\n"
             "        if echo:\n            pool.logger.debug(\"%d record(s) strongly referenced\", len(seen))\n"
             "        fairy = _ConnectionFairy(pool, dbapi_connection, rec, echo)\n"), None)

_R7_CHECKIN_FIXED = (
    "        try:\n            while self.finalize_callback:\n                finalizer = self.finalize_callback.pop()\n"
    "                if connection is not None:\n                    finalizer(connection)\n            if pool.dispatch.checkin:\n"
    "                pool.dispatch.checkin(connection, self)\n        except BaseException as err:\n"
    "            # the connection may not be completely reset: don't pool it,\n            # but give the pool its slot back\n"
    "            self.finalize_callback.clear()\n            self.invalidate(e=err)\n            pool._return_conn(self)\n            raise\n"
    "\n        pool._return_conn(self)\n")
_R7_CHECKIN_BODY = (
    "            while self.finalize_callback:\n                finalizer = self.finalize_callback.pop()\n"
    "                if connection is not None:\n                    finalizer(connection)\n            if pool.dispatch.checkin:\n"
    "                pool.dispatch.checkin(connection, self)\n")
_R7_FINALIZE_FIXED = (
    "                # the checkin below is not reached\n                if (\n                    connection_record\n"
    "                    and connection_record.fairy_ref is not None\n                ):\n                    connection_record.checkin()\n"
    "                raise\n")
AFTER_FIX = [
    # ---- breaking, checkin (fix 1)
    ("r7-checkin-unfixed-finaliser-and-listener-outside-any-handler", POOL,
     sub(_R7_CHECKIN_FIXED,
         "        while self.finalize_callback:\n            finalizer = self.finalize_callback.pop()\n            if connection is not None:\n"
         "                finalizer(connection)\n        if pool.dispatch.checkin:\n            pool.dispatch.checkin(connection, self)\n\n"
         "        pool._return_conn(self)\n"), "C25-R7"),
    ("r7-checkin-handler-narrowed-to-exception", POOL,
     sub("        except BaseException as err:\n            # the connection may not be completely reset",
         "        except Exception as err:\n            # the connection may not be completely reset"), "C25-R7"),
    ("r7-checkin-handler-discards-but-keeps-the-slot", POOL,
     sub("            self.invalidate(e=err)\n            pool._return_conn(self)\n            raise\n", "            self.invalidate(e=err)\n            raise\n"),
     "C25-R7"),
    ("r7-checkin-handler-returns-the-slot-for-exception-only", POOL,
     sub("            self.invalidate(e=err)\n            pool._return_conn(self)\n            raise\n",
         "            self.invalidate(e=err)\n            if isinstance(err, Exception):\n                pool._return_conn(self)\n            raise\n"),
     "C25-R7"),
    ("r7-checkin-listeners-moved-behind-the-handler", POOL,
     sub(_R7_CHECKIN_FIXED,
         _R7_CHECKIN_FIXED.replace("            if pool.dispatch.checkin:\n                pool.dispatch.checkin(connection, self)\n", "")
         .replace("            raise\n\n", "            raise\n        if pool.dispatch.checkin:\n            pool.dispatch.checkin(connection, self)\n\n")),
     "C25-R7"),
    ("r7-checkin-failure-helper-forgets-the-slot", POOL,
     chain(sub("            self.finalize_callback.clear()\n            self.invalidate(e=err)\n            pool._return_conn(self)\n            raise\n",
               "            self._discard_unreset(err)\n            raise\n"),
           sub("    def checkin(self, _fairy_was_created: bool = True) -> None:\n",
               "    def _discard_unreset(self, err: BaseException) -> None:\n        self.finalize_callback.clear()\n        self.invalidate(e=err)\n\n"
               "    def checkin(self, _fairy_was_created: bool = True) -> None:\n")), "C25-R7"),
    # ---- breaking, _finalize_fairy (fix 2)
    ("r7-finalize-fairy-unfixed-reraise-skips-checkin", POOL, sub(_R7_FINALIZE_FIXED, "                raise\n"), "C25-R7"),
    ("r7-finalize-fairy-reraise-checks-in-only-when-marker-cleared", POOL,
     sub("                    and connection_record.fairy_ref is not None\n                ):\n                    connection_record.checkin()\n                raise\n",
         "                    and connection_record.fairy_ref is None\n                ):\n                    connection_record.checkin()\n                raise\n"),
     "C25-R7"),
    ("r7-finalize-fairy-reset-handler-narrowed-to-exception", POOL,
     sub("        except BaseException as e:\n            pool.logger.error(\n                \"Exception during reset or similar\"",
         "        except Exception as e:\n            pool.logger.error(\n                \"Exception during reset or similar\""), "C25-R7"),
    # ---- benign, checkin
    ("benign-r7-checkin-slot-returned-in-finally", POOL,
     sub("            self.invalidate(e=err)\n            pool._return_conn(self)\n            raise\n\n        pool._return_conn(self)\n",
         "            self.invalidate(e=err)\n            raise\n        finally:\n            pool._return_conn(self)\n"), None),
    ("benign-r7-checkin-done-flag-and-finally", POOL,
     sub(_R7_CHECKIN_FIXED,
         "        drained = False\n        try:\n" + _R7_CHECKIN_BODY + "            drained = True\n        finally:\n            if not drained:\n"
         "                self.finalize_callback.clear()\n                self.invalidate()\n            pool._return_conn(self)\n"), None),
    ("benign-r7-checkin-failure-helper-returns-the-slot", POOL,
     chain(sub("            self.finalize_callback.clear()\n            self.invalidate(e=err)\n            pool._return_conn(self)\n            raise\n",
               "            self._discard_and_return(pool, err)\n            raise\n"),
           sub("    def checkin(self, _fairy_was_created: bool = True) -> None:\n",
               "    def _discard_and_return(self, pool: Pool, err: BaseException) -> None:\n        self.finalize_callback.clear()\n"
               "        self.invalidate(e=err)\n        pool._return_conn(self)\n\n"
               "    def checkin(self, _fairy_was_created: bool = True) -> None:\n")), None),
    ("benign-r7-checkin-drain-helper-inside-the-try", POOL,
     chain(sub("        try:\n            while self.finalize_callback:\n                finalizer = self.finalize_callback.pop()\n"
               "                if connection is not None:\n                    finalizer(connection)\n            if pool.dispatch.checkin:\n",
               "        try:\n            self._run_finalizers(connection)\n            if pool.dispatch.checkin:\n"),
           sub("    def checkin(self, _fairy_was_created: bool = True) -> None:\n",
               "    def _run_finalizers(self, connection: Optional[DBAPIConnection]) -> None:\n        while self.finalize_callback:\n"
               "            finalizer = self.finalize_callback.pop()\n            if connection is not None:\n                finalizer(connection)\n\n"
               "    def checkin(self, _fairy_was_created: bool = True) -> None:\n")), None),
    ("benign-r7-checkin-safe-reraise-spelling", POOL,
     sub("            self.finalize_callback.clear()\n            self.invalidate(e=err)\n            pool._return_conn(self)\n            raise\n",
         "            with util.safe_reraise():\n                self.finalize_callback.clear()\n                self.invalidate(e=err)\n"
         "                pool._return_conn(self)\n"), None),
    # ---- benign, _finalize_fairy
    ("benign-r7-finalize-fairy-checkin-helper-before-reraise", POOL,
     chain(sub(_R7_FINALIZE_FIXED, "                _checkin_if_owned(connection_record)\n                raise\n"),
           sub("def _finalize_fairy(\n",
               "def _checkin_if_owned(rec: Optional[_ConnectionRecord]) -> None:\n    if rec and rec.fairy_ref is not None:\n"
               "        rec.checkin()\n\n\ndef _finalize_fairy(\n")), None),
    ("benign-r7-finalize-fairy-still-out-flag-local", POOL,
     sub("                if (\n                    connection_record\n                    and connection_record.fairy_ref is not None\n                ):\n"
         "                    connection_record.checkin()\n                raise\n",
         "                still_out = (\n                    connection_record is not None\n                    and connection_record.fairy_ref is not None\n"
         "                )\n                if still_out:\n                    connection_record.checkin()\n                raise\n"), None),
    ("benign-r7-finalize-fairy-nested-ifs-early-raise", POOL,
     sub("                if (\n                    connection_record\n                    and connection_record.fairy_ref is not None\n                ):\n"
         "                    connection_record.checkin()\n                raise\n",
         "                if not connection_record:\n                    raise\n                if connection_record.fairy_ref is None:\n                    raise\n"
         "                connection_record.checkin()\n                raise\n"), None),
]
for _a in AFTER_FIX:
    R.mutant(*_a)
