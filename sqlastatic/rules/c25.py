"""C25 -- The pool never hands one connection to two holders and respects its limits (lock discipline)."""

from __future__ import annotations

import ast

from ..astutil import (
    attr_stores, call_name, calls_in, dotted, enclosing_withs, guard_atoms, lexical_guards, names_in,
    test_atoms, unparse, walk_local,
)
from ..cfg import no_exc
from ..report import Registry, sub, chain
from ._helpers_rules_c import (
    attr_store_sites, both, call_nodes, calls_ending, cut_edges, must_pass, quiet, rcfg, test_edges,
)

R = Registry(
    "C25",
    title="The pool never hands one connection to two holders and respects its limits",
    decides=(
        "lock discipline of the pool bookkeeping: QueuePool._overflow is written only under "
        "_overflow_lock (or when no limit is enforced) and the limit test and increment share one lock "
        "region; the overflow counter is released on every failing connection creation / overflowing "
        "return; util.queue.Queue touches its deque only under its (single) lock, waits in predicate "
        "loops and notifies the opposite condition after every put/get; every Pool subclass implements "
        "both halves of the checkout protocol; fairy_ref has a closed set of writers and check-in refuses "
        "a second check-in."
    ),
    not_decided=(
        "absence of races for all thread schedules (model checking); the unlocked read of _overflow in "
        "QueuePool._do_get; AsyncAdaptedQueue (delegates to asyncio.Queue)."
    ),
)

IMPL = "pool/impl.py"
POOL = "pool/base.py"
QUEUE = "util/queue.py"

# C25-R1: writers of QueuePool._overflow that need no lock, with the reason
OVERFLOW_UNLOCKED_OK = {
    f"{IMPL}::QueuePool.__init__": "constructor: the pool is not shared yet",
    f"{IMPL}::QueuePool.dispose": "dispose(): by contract no concurrent users; counter re-based after draining the queue",
}


def _lock_withs(pm, node, stop, lock):
    return [w for w in enclosing_withs(pm, node)
            if any(dotted(i.context_expr) == lock for i in w.items)]


@R.rule("C25-R1", floor=7, template="T-GUARD",
        desc="every write of QueuePool._overflow is under _overflow_lock, or on a branch where "
             "_max_overflow == -1, or in __init__/dispose; in _inc_overflow the limit test and the "
             "increment share one lock region")
def r1(ctx):
    ix = ctx.index
    qp = ix.cls(f"{IMPL}::QueuePool")
    sites = attr_store_sites(ix, "_overflow")
    ctx.require(sites, "no store to `_overflow` found in the package")
    per_owner = {}
    for owner, d, st, m in sites:
        per_owner.setdefault(owner, []).append((d, st, m))
    for owner in sorted(per_owner):
        for i, (d, st, m) in enumerate(per_owner[owner]):
            kind = "aug" if isinstance(st, ast.AugAssign) else "set"
            key = f"{owner}:_overflow:{kind}" + (f"#{i}" if sum(1 for x in per_owner[owner] if isinstance(x[1], type(st))) > 1 else "")
            loc = f"{m.path}:{st.lineno}"
            cls_name = owner.split("::")[1].split(".")[0]
            cls = m.classes.get(cls_name)
            if not (cls is not None and (cls is qp or ix.is_subclass(cls, qp)) and d == "self._overflow"):
                ctx.violation(key, f"`{unparse(st)}` writes a pool's overflow counter from outside QueuePool (no lock can be held)", loc)
                continue
            if owner in OVERFLOW_UNLOCKED_OK:
                ctx.ok(key, "unlocked by contract: " + OVERFLOW_UNLOCKED_OK[owner], nontrivial=False)
                continue
            pm = m.parents()
            if _lock_withs(pm, st, None, "self._overflow_lock"):
                ctx.ok(key, "inside `with self._overflow_lock`")
                continue
            f = ix.func(owner)
            g = ctx.cfg(f)
            nolimit = False
            for n in g.nodes_for(st):
                atoms = guard_atoms(g.edge_guards(n))
                nolimit = ("self._max_overflow == -1", True) in atoms
                if not nolimit:
                    break
            ctx.check(nolimit, key,
                      f"`{unparse(st)}` changes the overflow counter outside `with self._overflow_lock` "
                      f"while a limit is enforced (lost update / limit overrun under concurrency)",
                      "no lock needed: dominated by `_max_overflow == -1`", loc)
    # check-then-act atomicity in _inc_overflow
    f = ctx.func(f"{IMPL}::QueuePool._inc_overflow")
    pm = f.module.parents()
    incs = [st for d, t, st in attr_stores(f.node) if d == "self._overflow" and isinstance(st, ast.AugAssign)]
    ctx.require(incs, "_inc_overflow does not increment self._overflow")
    ok, why = False, "no increment is guarded by a comparison of _overflow with _max_overflow"
    limited = 0
    for st in incs:
        guards = lexical_guards(pm, st, stop=f.node)
        lim = [t for t, pol in guards
               if {"self._overflow", "self._max_overflow"} <= {dotted(x) for x in ast.walk(t) if isinstance(x, ast.Attribute)}]
        if not lim:
            continue
        limited += 1
        ws = _lock_withs(pm, st, f.node, "self._overflow_lock")
        same = bool(ws) and all(any(w is a for a in _anc(pm, t_)) for t_ in lim for w in ws[:1])
        # the limit test must be pol=True `<` form
        t0 = lim[-1]
        lt = isinstance(t0, ast.Compare) and len(t0.ops) == 1 and isinstance(t0.ops[0], ast.Lt) \
            and dotted(t0.left) == "self._overflow" and dotted(t0.comparators[0]) == "self._max_overflow"
        pol = dict((id(t), p) for t, p in guards)[id(t0)]
        if same and lt and pol:
            ok = True
        elif not same:
            why = "the limit test and the increment are not inside the same `with self._overflow_lock` region"
        else:
            why = f"limit test `{unparse(t0)}` (taken {'true' if pol else 'false'}) does not keep _overflow below _max_overflow"
    ctx.check(ok and limited >= 1, f.key + ":check-then-act", why, "`_overflow < _max_overflow` and `+= 1` in one lock region", f.loc)


def _anc(pm, node):
    cur = pm.get(node)
    while cur is not None:
        yield cur
        cur = pm.get(cur)


# ---------------------------------------------------------------------- C25-R2 (shared with C26-R5)
def overflow_pairing(ctx):
    f = ctx.func(f"{IMPL}::QueuePool._do_get")
    g = rcfg(ctx, f)
    dec = calls_ending(g, "_dec_overflow")
    got = test_edges(g, lambda t, p: t == "self._inc_overflow()" and p is True)
    ctx.require(got, "no `if self._inc_overflow():` branch in QueuePool._do_get")
    region = g.reachable([b for _, _, b in got])
    create = [n for n in calls_ending(g, "_create_connection") if n in region]
    ctx.require(create, "no _create_connection() after a successful _inc_overflow() in _do_get")
    w = None
    for n in create:
        w = g.must_pass([n], [g.raise_exit], dec, edge_ok=quiet(g), start_edge_ok=lambda a, b, lab: lab == "exc")
        if w:
            break
    ctx.check(w is None, f.key + ":create-failure",
              "an exception from _create_connection() leaves _do_get with the overflow slot still taken "
              "(the pool shrinks by one connection for ever)",
              "create failure -> _dec_overflow() -> re-raise", f.loc, w)
    # no path decrements twice / decrements on success
    succ_ret = [n.id for n in g.nodes if n.kind == "stmt" and isinstance(n.stmt, ast.Return) and n.id in create]
    fr = ctx.func(f"{IMPL}::QueuePool._do_return_conn")
    gr = rcfg(ctx, fr)
    decr = calls_ending(gr, "_dec_overflow")
    full = [n.id for n in gr.nodes if n.kind == "handler" and n.stmt.type is not None
            and (dotted(n.stmt.type) or "").split(".")[-1] == "Full"]
    ctx.require(full, "no `except Full` handler in QueuePool._do_return_conn")
    put = calls_ending(gr, "put", "put_nowait")
    ctx.require(any(h in [b for b, lab in gr.succ[p] if lab == "exc"] for p in put for h in full),
                "`except Full` does not guard the queue put in _do_return_conn")
    w = gr.must_pass(full, [gr.exit, gr.raise_exit], decr, edge_ok=quiet(gr))
    ctx.check(w is None, fr.key + ":full",
              "when the queue is full the overflow connection can be discarded (or fail to close) without "
              "_dec_overflow(): the counter leaks",
              "Full -> record.close() finally _dec_overflow()", fr.loc, w)
    closes = call_nodes(gr, lambda nm, c: nm == f"{fr.params[1]}.close")
    reach = gr.reachable(full)
    ctx.check(any(c in reach for c in closes), fr.key + ":full-closes",
              "the record that does not fit into the queue is not closed (connection leak above pool_size)",
              "overflow record closed", fr.loc)


@R.rule("C25-R2", floor=3, template="T-PATH",
        desc="_do_get: every exceptional exit of _create_connection() after a successful _inc_overflow() "
             "passes _dec_overflow(); _do_return_conn: on Full the record is closed and _dec_overflow() "
             "runs even if close() raises")
def r2(ctx):
    overflow_pairing(ctx)


# ---------------------------------------------------------------------- C25-R3 / R4  (util.queue.Queue)
def _queue_facts(ctx):
    q = ctx.index.cls(f"{QUEUE}::Queue")
    init = q.methods.get("__init__")
    ctx.require(init is not None, "Queue.__init__ missing")
    locks, conds = set(), {}
    for d, t, st in attr_stores(init.node):
        if not isinstance(st, ast.Assign) or not isinstance(st.value, ast.Call):
            continue
        nm = (call_name(st.value) or "").rsplit(".", 1)[-1]
        if nm in ("RLock", "Lock"):
            locks.add(d)
        elif nm == "Condition":
            ctx.require(st.value.args and dotted(st.value.args[0]), f"Condition without an explicit lock: {unparse(st)}")
            conds[d] = dotted(st.value.args[0])
    ctx.require(len(locks) == 1, f"Queue.__init__ creates {len(locks)} locks, expected exactly one")
    lock = next(iter(locks))
    for c, l in conds.items():
        ctx.require(l == lock, f"condition {c} is built on {l}, not on the queue lock {lock}")
    # private methods that touch the deque directly
    touching = set()
    for name, m in q.methods.items():
        if name == "__init__":
            continue
        if any(isinstance(n, ast.Attribute) and dotted(n) == "self.queue" for n in walk_local(m.node)):
            touching.add(name)
    return q, lock, conds, touching


@R.rule("C25-R3", floor=7, template="T-GUARD",
        desc="Queue: every call of a deque-touching private method (and every direct use of self.queue) "
             "from a public method is inside `with` on the queue lock or one of its conditions")
def r3(ctx):
    q, lock, conds, touching = _queue_facts(ctx)
    held = {lock} | set(conds)
    pm = q.module.parents()
    private = {n for n in touching if n.startswith("_")}
    ctx.require(private, "no private deque-touching methods in Queue")
    for name, m in sorted(q.methods.items()):
        if name.startswith("_"):
            continue
        ctx.functions_analysed.add(m.key)
        sites = {}
        for c in calls_in(m.node):
            nm = call_name(c) or ""
            if nm.startswith("self.") and nm[5:] in private:
                sites.setdefault(nm[5:], []).append(c)
        for n in walk_local(m.node):
            if isinstance(n, ast.Attribute) and dotted(n) == "self.queue":
                sites.setdefault("queue", []).append(n)
        for callee, nodes in sorted(sites.items()):
            bad = [n for n in nodes
                   if not any(dotted(i.context_expr) in held for w in enclosing_withs(pm, n) for i in w.items)]
            ctx.check(not bad, f"{m.key}:{callee}",
                      f"{len(bad)} use(s) of self.{callee} outside the queue lock (line {bad[0].lineno if bad else 0})",
                      f"{len(nodes)} use(s), all under the queue lock", m.loc)


PRED = {"put": ("_full", "Full", "_put"), "get": ("_empty", "Empty", "_get")}


@R.rule("C25-R4", floor=6, template="T-GUARD/T-PATH",
        desc="Queue.put/get: each Condition.wait() sits in a `while <predicate>()` loop under the same "
             "condition; the mutation is followed by notify() of the condition the opposite side waits "
             "on, on every normal path; timed waits raise Full/Empty when time runs out")
def r4(ctx):
    q, lock, conds, touching = _queue_facts(ctx)
    pm = q.module.parents()
    waited = {}
    for name, (pred, exc_name, mut) in PRED.items():
        m = ctx.method(q.key, name)
        waits = [c for c in calls_in(m.node) if (call_name(c) or "").endswith(".wait") and (call_name(c) or "")[:-5] in conds]
        ctx.require(waits, f"Queue.{name} has no Condition.wait()")
        problems = []
        timed_ok = True
        for c in waits:
            cond = call_name(c)[:-5]
            waited.setdefault(name, set()).add(cond)
            if not any(dotted(i.context_expr) == cond for w in enclosing_withs(pm, c) for i in w.items):
                problems.append(f"line {c.lineno}: {cond}.wait() while {cond} is not the condition held by the enclosing `with`")
            loop = None
            for a in _anc(pm, c):
                if isinstance(a, (ast.While, ast.For)):
                    loop = a
                    break
                if isinstance(a, (ast.FunctionDef, ast.With)):
                    break
            if not isinstance(loop, ast.While):
                problems.append(f"line {c.lineno}: wait() is not inside a `while` loop (a spurious or stolen wake-up proceeds)")
                continue
            t = loop.test
            if not (isinstance(t, ast.Call) and call_name(t) == f"self.{pred}"):
                problems.append(f"line {c.lineno}: wait loop re-tests `{unparse(t)}`, expected `self.{pred}()`")
            if c.args or c.keywords:
                arg = c.args[0] if c.args else c.keywords[0].value
                names = names_in(arg)
                rs = [r for r in ast.walk(loop) if isinstance(r, ast.Raise) and r.exc is not None
                      and (dotted(r.exc.func if isinstance(r.exc, ast.Call) else r.exc) or "").split(".")[-1] == exc_name]
                good = False
                for r in rs:
                    for tt, pol in lexical_guards(pm, r, stop=loop):
                        if pol and names & names_in(tt) and isinstance(tt, ast.Compare) and isinstance(tt.ops[0], (ast.LtE, ast.Lt)):
                            good = True
                if not good:
                    timed_ok = False
        ctx.check(not problems, f"{m.key}:wait", "; ".join(problems), f"{len(waits)} wait(s) in `while self.{pred}()` under the held condition", m.loc)
        ctx.check(timed_ok, f"{m.key}:timeout",
                  f"a timed wait in {name}() has no `raise {exc_name}` when the remaining time is used up",
                  f"timeout -> raise {exc_name}", m.loc)
    # notify pairing
    for name, (pred, exc_name, mut) in PRED.items():
        other = "get" if name == "put" else "put"
        m = ctx.method(q.key, name)
        g = ctx.cfg(m)
        muts = call_nodes(g, lambda nm, c: nm == f"self.{mut}")
        ctx.require(muts, f"Queue.{name} does not call self.{mut}()")
        want = waited.get(other, set())
        ctx.require(len(want) == 1, f"Queue.{other} waits on {sorted(want)}; expected a single condition")
        cond = next(iter(want))
        notes = call_nodes(g, lambda nm, c: nm in (f"{cond}.notify", f"{cond}.notify_all"))
        w = must_pass(g, muts, [g.exit], notes, edge_ok=no_exc) if notes else ["no notify at all"]
        held_ok = all(
            any(dotted(i.context_expr) in ({lock} | set(conds)) for wth in enclosing_withs(pm, c) for i in wth.items)
            for c in calls_in(m.node) if (call_name(c) or "") in (f"{cond}.notify", f"{cond}.notify_all"))
        ctx.check(w is None and held_ok, f"{m.key}:notify",
                  f"after self.{mut}() a normal path leaves {name}() without {cond}.notify() under the lock: "
                  f"a thread blocked in {other}() is never woken (lost wake-up)",
                  f"self.{mut}() -> {cond}.notify()", m.loc, w if w and w != ["no notify at all"] else None)


# ---------------------------------------------------------------------- C25-R5
def _signed_terms(e, sign=1, out=None):
    out = [] if out is None else out
    if isinstance(e, ast.BinOp) and isinstance(e.op, (ast.Add, ast.Sub)):
        _signed_terms(e.left, sign, out)
        _signed_terms(e.right, sign if isinstance(e.op, ast.Add) else -sign, out)
    else:
        out.append((sign, unparse(e)))
    return out


@R.rule("C25-R5", floor=7, template="T-SIBLING",
        desc="every Pool subclass implements both _do_get and _do_return_conn; QueuePool.checkedout() is "
             "maxsize - idle + overflow over the counters those methods maintain")
def r5(ctx):
    ix = ctx.index
    pool = ix.cls(f"{POOL}::Pool")
    subs = ix.subclasses(pool)
    ctx.require(len(subs) >= 2, "Pool has fewer than two subclasses")
    for c in subs:
        missing = []
        for m in ("_do_get", "_do_return_conn"):
            f = ix.resolve_method(c, m)
            if f is None or f.cls is pool:
                missing.append(m)
        ctx.check(not missing, c.key, f"{c.name} inherits the abstract {', '.join(missing)} from Pool (NotImplementedError at checkout/checkin)",
                  "_do_get + _do_return_conn implemented", c.loc)
    f = ctx.func(f"{IMPL}::QueuePool.checkedout")
    rets = [n for n in walk_local(f.node) if isinstance(n, ast.Return) and n.value is not None]
    ctx.require(len(rets) == 1, "QueuePool.checkedout has no single return expression")
    terms = sorted(_signed_terms(rets[0].value))
    want = sorted([(1, "self._pool.maxsize"), (-1, "self._pool.qsize()"), (1, "self._overflow")])
    ctx.check(terms == want, f.key, f"checkedout() = {unparse(rets[0].value)} is not pool size - idle + overflow",
              "maxsize - qsize() + _overflow", f.loc)


# ---------------------------------------------------------------------- C25-R6
FAIRY_REF_WRITERS = {
    f"{POOL}::_ConnectionRecord.__init__": "initial state: not checked out",
    f"{POOL}::_ConnectionRecord.checkout": "publishes the weakref of the new fairy",
    f"{POOL}::_ConnectionRecord.checkin": "marks the record as checked in",
    f"{POOL}::_ConnectionFairy.detach": "detaches the record from its fairy before returning it",
}


@R.rule("C25-R6", floor=6, template="T-OWN",
        desc="_ConnectionRecord.fairy_ref is written only by checkout / checkin / detach / __init__; "
             "checkin refuses a second check-in before _return_conn and clears fairy_ref first")
def r6(ctx):
    sites = attr_store_sites(ctx.index, "fairy_ref")
    ctx.require(sites, "no store to fairy_ref found")
    seen = {}
    for owner, d, st, m in sites:
        seen.setdefault(owner, []).append((d, st, m))
    for owner in sorted(seen):
        d, st, m = seen[owner][0]
        ctx.check(owner in FAIRY_REF_WRITERS, f"{owner}:fairy_ref",
                  f"`{unparse(st).splitlines()[0]}` writes fairy_ref outside its owners "
                  f"({', '.join(sorted(k.split('::')[1] for k in FAIRY_REF_WRITERS))}): the checked-out state can be forged",
                  FAIRY_REF_WRITERS.get(owner, ""), f"{m.path}:{st.lineno}", nontrivial=False)
    f = ctx.func(f"{POOL}::_ConnectionRecord.checkin")
    g = ctx.cfg(f)
    ret = calls_ending(g, "_return_conn")
    ctx.require(ret, "no _return_conn() in checkin")
    refused = True
    for n in ret:
        ok = False
        for t, pol in g.edge_guards(n):
            if pol:
                continue
            atoms = test_atoms(t, True)
            if ("self.fairy_ref is None", True) in atoms and all(
                a == "self.fairy_ref is None" or names_in(ast.parse(a, mode="eval")) <= set(f.params) - {"self"} for a, _ in atoms
            ):
                ok = True
        refused = refused and ok
    ctx.check(refused, f.key + ":double-checkin",
              "_return_conn() is reachable although fairy_ref is already None (record checked in twice -> "
              "the same record sits in the queue twice and is handed to two holders)",
              "second check-in returns before _return_conn", f.loc)
    clears = [n for d, t, st in attr_stores(f.node) if d == "self.fairy_ref" and isinstance(st, ast.Assign)
              and isinstance(st.value, ast.Constant) and st.value.value is None for n in g.nodes_for(st)]
    w = None
    for n in ret:
        w = w or g.always_preceded(n, clears)
    ctx.check(bool(clears) and w is None, f.key + ":clear-before-return",
              "_return_conn() can run before fairy_ref is cleared (a concurrent finalizer would check the record in again)",
              "fairy_ref = None precedes _return_conn", f.loc, w)


# ---------------------------------------------------------------------- self-test battery
R.mutant("inc-overflow-increment-outside-lock", IMPL,
         sub("        with self._overflow_lock:\n            if self._overflow < self._max_overflow:\n                self._overflow += 1\n                return True\n            else:\n                return False\n",
             "        with self._overflow_lock:\n            ok = self._overflow < self._max_overflow\n        if ok:\n            self._overflow += 1\n            return True\n        else:\n            return False\n"), "C25-R1")
R.mutant("dec-overflow-no-lock", IMPL,
         sub("        with self._overflow_lock:\n            self._overflow -= 1\n            return True\n", "        self._overflow -= 1\n        return True\n"), "C25-R1")
R.mutant("inc-overflow-limit-off-by-one", IMPL,
         sub("            if self._overflow < self._max_overflow:\n                self._overflow += 1", "            if self._overflow <= self._max_overflow:\n                self._overflow += 1"), "C25-R1")
R.mutant("overflow-written-from-do-get", IMPL,
         sub("        if self._inc_overflow():\n            try:", "        self._overflow = self._overflow\n        if self._inc_overflow():\n            try:"), "C25-R1")
R.mutant("do-get-no-dec-on-create-failure", IMPL,
         sub("            except:\n                with util.safe_reraise():\n                    self._dec_overflow()\n                raise\n", "            except:\n                raise\n"), "C25-R2")
R.mutant("do-get-dec-only-on-exception-subclass", IMPL,
         sub("            except:\n                with util.safe_reraise():\n                    self._dec_overflow()\n                raise\n",
             "            except exc.DBAPIError:\n                with util.safe_reraise():\n                    self._dec_overflow()\n                raise\n"), "C25-R2")
R.mutant("return-conn-dec-not-in-finally", IMPL,
         sub("            try:\n                record.close()\n            finally:\n                self._dec_overflow()\n", "            record.close()\n            self._dec_overflow()\n"), "C25-R2")
R.mutant("return-conn-no-close", IMPL,
         sub("            try:\n                record.close()\n            finally:\n                self._dec_overflow()\n", "            self._dec_overflow()\n"), "C25-R2")
R.mutant("queue-qsize-unlocked", QUEUE,
         sub("        with self.mutex:\n            return self._qsize()\n", "        return self._qsize()\n"), "C25-R3")
R.mutant("queue-put-outside-lock", QUEUE,
         sub("                    self.not_full.wait(remaining)\n            self._put(item)\n            self.not_empty.notify()\n",
             "                    self.not_full.wait(remaining)\n        self._put(item)\n        with self.not_empty:\n            self.not_empty.notify()\n"), "C25-R3")
R.mutant("queue-direct-deque-access", QUEUE,
         sub("        return self.put(item, False)\n", "        if not self.queue:\n            pass\n        return self.put(item, False)\n"), "C25-R3")
R.mutant("queue-wait-if-not-while", QUEUE,
         sub("                while self._empty():\n                    self.not_empty.wait()\n", "                if self._empty():\n                    self.not_empty.wait()\n"), "C25-R4")
R.mutant("queue-wait-wrong-predicate", QUEUE,
         sub("                while self._full():\n                    self.not_full.wait()\n", "                while self._empty():\n                    self.not_full.wait()\n"), "C25-R4")
R.mutant("queue-get-notify-dropped", QUEUE,
         sub("            item = self._get()\n            self.not_full.notify()\n", "            item = self._get()\n"), "C25-R4")
R.mutant("queue-put-notifies-wrong-condition", QUEUE,
         sub("            self._put(item)\n            self.not_empty.notify()\n", "            self._put(item)\n            self.not_full.notify()\n"), "C25-R4")
R.mutant("queue-timeout-never-raises", QUEUE,
         sub("                    if remaining <= 0.0:\n                        raise Empty\n", "                    if remaining <= 0.0:\n                        remaining = 0.0\n"), "C25-R4")
R.mutant("nullpool-no-return-conn", IMPL,
         sub("    def _do_return_conn(self, record: ConnectionPoolEntry) -> None:\n        record.close()\n\n", ""), "C25-R5")
R.mutant("checkedout-ignores-overflow", IMPL,
         sub("        return self._pool.maxsize - self._pool.qsize() + self._overflow\n", "        return self._pool.maxsize - self._pool.qsize()\n"), "C25-R5")
R.mutant("checkedout-sign-flipped", IMPL,
         sub("        return self._pool.maxsize - self._pool.qsize() + self._overflow\n", "        return self._pool.maxsize + self._pool.qsize() + self._overflow\n"), "C25-R5")
R.mutant("fairy-ref-written-by-invalidate", POOL,
         sub("        else:\n            self.__close(terminate=True)\n            self.dbapi_connection = None\n", "        else:\n            self.__close(terminate=True)\n            self.dbapi_connection = None\n            self.fairy_ref = None\n"), "C25-R6")
R.mutant("checkin-no-double-checkin-guard", POOL,
         sub("        if self.fairy_ref is None and _fairy_was_created:", "        if self.fairy_ref is None and _fairy_was_created and self.fresh:"), "C25-R6")
R.mutant("checkin-clears-fairy-ref-late", POOL,
         chain(sub("        self.fairy_ref = None\n        connection = self.dbapi_connection\n        pool = self.__pool\n", "        connection = self.dbapi_connection\n        pool = self.__pool\n"),
               sub("        pool._return_conn(self)\n", "        pool._return_conn(self)\n        self.fairy_ref = None\n")), "C25-R6")
# benign refactors
R.mutant("benign-queue-rename-local", QUEUE, sub("remaining", "left", count=6), None)
R.mutant("benign-checkedout-reordered", IMPL,
         sub("        return self._pool.maxsize - self._pool.qsize() + self._overflow\n", "        return self._overflow + self._pool.maxsize - self._pool.qsize()\n"), None)
R.mutant("benign-do-get-logging", IMPL,
         sub("        if self._inc_overflow():\n            try:\n                return self._create_connection()\n", "        if self._inc_overflow():\n            try:\n                self.logger.debug(\"overflow connection\")\n                return self._create_connection()\n"), None)
R.mutant("benign-inc-overflow-early-return-style", IMPL,
         sub("            if self._overflow < self._max_overflow:\n                self._overflow += 1\n                return True\n            else:\n                return False\n",
             "            if self._overflow < self._max_overflow:\n                self._overflow += 1\n                return True\n            return False\n"), None)
