"""C14 -- DDL is emitted in dependency order (edge orientation, reversal on drop, ordered input)."""

from __future__ import annotations

import ast

from ..astutil import (
    call_name, calls_in, enclosing_stmt, guard_atoms, lexical_guards, name_stores, unparse, walk_local,
)
from ..report import Registry, sub
from ._helpers_rules_b import (
    ORD, PARAM, SET, TAINTED, UNKNOWN, arg_for, call_sites, ordinal_keys, topo_flow,
)

R = Registry(
    "C14",
    title="DDL is emitted in dependency order for any foreign-key graph",
    decides=(
        "producer/consumer agreement on edge orientation: every dependency pair built by "
        "ddl.sort_tables_and_constraints puts the prerequisite table (referred table, selected-from table, "
        "extra dependency) where topological.sort_as_subsets reads the parent and the dependent table where it "
        "reads the child, self references are skipped, cycle breaking discards pairs with the same orientation "
        "and CircularDependencyError.edges has the orientation of the input pairs; SchemaGenerator consumes "
        "the sort forward and SchemaDropper reversed, the (None, remaining constraints) entry is last in the "
        "sort and both visitors emit it; the table collection handed to the sort is ordered."
    ),
    not_decided=(
        "execution on a backend; completeness of indexes/constraints/sequences; correctness of the "
        "topological sort algorithm itself (C19 decides its structural clauses)."
    ),
)

DDL = "sql/ddl.py"
TOPO = "util/topological.py"
STC = f"{DDL}::sort_tables_and_constraints"


def topo_orientation(ctx):
    """(prerequisite index, dependent index) of a pair as read by sort_as_subsets:
    `for (a, b) in pairs: E[x].add(y)` makes x wait for y."""
    f = ctx.func(f"{TOPO}::sort_as_subsets")
    pairs_p = f.params[0]
    found = None
    for n in walk_local(f.node):
        if isinstance(n, ast.For) and isinstance(n.iter, ast.Name) and n.iter.id == pairs_p \
                and isinstance(n.target, ast.Tuple) and len(n.target.elts) == 2 \
                and all(isinstance(e, ast.Name) for e in n.target.elts):
            names = [e.id for e in n.target.elts]
            for c in calls_in(n):
                fn_ = c.func
                if isinstance(fn_, ast.Attribute) and fn_.attr in ("add", "append") and isinstance(fn_.value, ast.Subscript) \
                        and len(c.args) == 1 and isinstance(c.args[0], ast.Name) and isinstance(fn_.value.slice, ast.Name):
                    waits, on = fn_.value.slice.id, c.args[0].id
                    if waits in names and on in names and waits != on:
                        found = (names.index(on), names.index(waits), fn_.value.value.id)
    ctx.require(found is not None, "cannot read the pair orientation of topological.sort_as_subsets")
    # the map must be what gates emission (subscripted by the candidate node inside the emission test)
    E = found[2]
    gated = any(
        isinstance(n, ast.If) and any(isinstance(s, ast.Subscript) and isinstance(s.value, ast.Name) and s.value.id == E
                                      for s in ast.walk(n.test))
        for n in walk_local(f.node)
    )
    ctx.require(gated, f"edge map `{E}` of sort_as_subsets does not gate emission (see C19-R2)")
    return found[0], found[1]


def _derives_from(name: str, root: str, fn, depth=0, seen=None) -> list:
    """Attribute names on the def-use chain from local `name` back to local `root`
    (None when `name` does not derive from `root`).  Follows Assign values and for-loop iterables."""
    seen = seen or set()
    if name == root:
        return []
    if name in seen or depth > 4:
        return None
    seen = seen | {name}
    srcs = []
    for n, v, st in name_stores(fn.node):
        if n != name:
            continue
        if v is not None:
            srcs.append(v)
        elif isinstance(st, (ast.For, ast.AsyncFor)):
            srcs.append(st.iter)
    for n in walk_local(fn.node):
        # comprehension targets
        if isinstance(n, ast.comprehension):
            tn = {x.id for x in ast.walk(n.target) if isinstance(x, ast.Name)}
            if name in tn:
                srcs.append(n.iter)
    for s in srcs:
        attrs = [a.attr for a in ast.walk(s) if isinstance(a, ast.Attribute)]
        for nm in {x.id for x in ast.walk(s) if isinstance(x, ast.Name)}:
            sub_ = _derives_from(nm, root, fn, depth + 1, seen)
            if sub_ is not None:
                return attrs + sub_
    return None


def _pair_sites(ctx, f, sets):
    """[(method, call, Tuple node)] for `S.add((a, b))`, `S.discard((a, b))`, `S.update((a, b) for ..)`."""
    out = []
    for c in calls_in(f.node):
        fn_ = c.func
        if not (isinstance(fn_, ast.Attribute) and isinstance(fn_.value, ast.Name) and fn_.value.id in sets):
            continue
        if fn_.attr in ("add", "discard", "remove") and len(c.args) == 1 and isinstance(c.args[0], ast.Tuple):
            out.append((fn_.attr, c, c.args[0]))
        elif fn_.attr == "update" and len(c.args) == 1 and isinstance(c.args[0], (ast.GeneratorExp, ast.ListComp, ast.SetComp)) \
                and isinstance(c.args[0].elt, ast.Tuple):
            out.append((fn_.attr, c, c.args[0].elt))
    out.sort(key=lambda x: (x[1].lineno, x[1].col_offset))
    return out


@R.rule("C14-R1", floor=7, template="T-TABLE",
        desc="every dependency pair of sort_tables_and_constraints is (prerequisite, dependent table) as "
             "topological.sort_as_subsets reads it; FK self-references are skipped; cycle breaking and "
             "CircularDependencyError.edges use the same orientation")
def r1(ctx):
    pre_i, dep_i = topo_orientation(ctx)
    f = ctx.func(STC)
    pm = f.module.parents()
    tables_p = f.params[0]
    # the pair sets: whatever flows into the first argument of topological.sort
    topo_sort = ctx.func(f"{TOPO}::sort")
    sets = set()
    sorts = [c for c in calls_in(f.node) if (call_name(c) or "").endswith("topological.sort")]
    ctx.require(sorts, "sort_tables_and_constraints no longer calls topological.sort")
    for c in sorts:
        a = arg_for(c, topo_sort, topo_sort.params[0])
        ctx.require(a is not None, "topological.sort called without pairs")
        sets |= {n.id for n in ast.walk(a) if isinstance(n, ast.Name)}
    ctx.require(len(sets) >= 1, "no dependency-pair sets found")
    sites = _pair_sites(ctx, f, sets)
    ctx.require(sites, "no dependency pairs are built in sort_tables_and_constraints")
    # the dependent table: loop variable over the `tables` parameter, or (in the cycle handler) a name bound
    # from `edge[<i>]` where edge iterates `<err>.edges`
    loop_vars = {n.target.id for n in walk_local(f.node)
                 if isinstance(n, ast.For) and isinstance(n.target, ast.Name) and isinstance(n.iter, ast.Name) and n.iter.id == tables_p}
    ctx.require(len(loop_vars) == 1, f"expected one loop variable over `{tables_p}`, found {loop_vars}")
    table = next(iter(loop_vars))
    for key, (meth, c, tup) in ordinal_keys(sites, lambda s: f"{STC}:{s[1].func.value.id}.{s[0]}"):
        loc = f"{f.module.path}:{c.lineno}"
        ctx.require(len(tup.elts) == 2 and all(isinstance(e, ast.Name) for e in tup.elts),
                    f"dependency pair `{unparse(tup)}` is not a 2-tuple of names")
        names = [e.id for e in tup.elts]
        roles = []
        for nm in names:
            if nm == table:
                roles.append("dependent")
            else:
                chain = _derives_from(nm, table, f)
                roles.append("prerequisite" if chain is not None else "unknown")
        ctx.require("unknown" not in roles, f"cannot relate `{unparse(tup)}` to the table being sorted ({table})")
        good = roles[pre_i] == "prerequisite" and roles[dep_i] == "dependent"
        ctx.check(good, key,
                  f"pair `{unparse(tup)}` has roles {roles} but topological.sort_as_subsets reads index {pre_i} as the "
                  f"prerequisite (emitted first) and index {dep_i} as the dependent: the table would be created before "
                  f"the table it references",
                  f"`{unparse(tup)}` = (prerequisite, dependent)", loc)
        # FK derived prerequisite may be the table itself
        if meth in ("add", "update"):
            pre = names[roles.index("prerequisite")] if "prerequisite" in roles else None
            chain = _derives_from(pre, table, f) if pre else None
            if chain and "referred_table" in chain:
                atoms = guard_atoms(lexical_guards(pm, enclosing_stmt(pm, c), stop=f.node))
                skip = (f"{pre} is {table}", False) in atoms or (f"{table} is {pre}", False) in atoms \
                    or (f"{pre} == {table}", False) in atoms
                ctx.check(skip, key + ":self-reference-skipped",
                          f"pair `{unparse(tup)}` from a foreign key is added without excluding `{pre} is {table}`: a "
                          f"self-referential foreign key becomes a one-node cycle",
                          f"guarded by `{pre} is not {table}`", loc)
    # cycle handler: the table whose constraints are deferred is the dependent end of the reported edge
    handler_tables = []
    for n in walk_local(f.node):
        if isinstance(n, ast.For) and isinstance(n.target, ast.Name) and isinstance(n.iter, ast.Attribute) and n.iter.attr == "edges":
            edge = n.target.id
            for nm, v, st in name_stores(n):
                if isinstance(v, ast.Subscript) and isinstance(v.value, ast.Name) and v.value.id == edge \
                        and isinstance(v.slice, ast.Constant) and isinstance(v.slice.value, int):
                    handler_tables.append((nm, v.slice.value, st))
    ctx.require(handler_tables, "cycle handler no longer takes the table from `edge[i]` of err.edges")
    for nm, idx, st in handler_tables:
        ctx.check(nm == table and idx == dep_i, f"{STC}:cycle-handler-table",
                  f"cycle handler binds `{nm} = edge[{idx}]`, but the dependent table (owner of the foreign keys to "
                  f"defer) is component {dep_i} of an edge",
                  f"`{nm} = edge[{idx}]` is the dependent end", f"{f.module.path}:{st.lineno}")
    # CircularDependencyError.edges: _gen_edges returns pairs oriented like the input
    ge = ctx.func(f"{TOPO}::_gen_edges")
    comp = None
    for r in walk_local(ge.node):
        if isinstance(r, ast.Return) and isinstance(r.value, (ast.SetComp, ast.ListComp, ast.GeneratorExp)):
            comp = r.value
    ctx.require(comp is not None and isinstance(comp.elt, ast.Tuple) and len(comp.elt.elts) == 2 and len(comp.generators) == 2,
                "_gen_edges is not a two-level comprehension of pairs")
    g0, g1 = comp.generators
    ctx.require(isinstance(g0.target, ast.Name) and isinstance(g1.target, ast.Name), "_gen_edges targets not names")
    keyvar, member = g0.target.id, g1.target.id
    # members of E[key] are the prerequisites of key (sort_as_subsets builds E[dependent].add(prerequisite))
    inner_ok = isinstance(g1.iter, ast.Subscript) and unparse(g1.iter.slice) == keyvar
    ctx.require(inner_ok, "_gen_edges inner loop is not over E[key]")
    got = [unparse(e) for e in comp.elt.elts]
    want = [None, None]
    want[pre_i], want[dep_i] = member, keyvar
    ctx.check(got == want, f"{TOPO}::_gen_edges:orientation",
              f"_gen_edges yields {tuple(got)} but input pairs are oriented {tuple(want)} (prerequisite, dependent): "
              f"`edge in mutable_dependencies` in the DDL cycle handler would never match",
              f"error edges are ({member}, {keyvar}) = (prerequisite, dependent)", ge.loc)


def _parity(expr, fn, ctx, of, at, depth=0):
    """Number of order reversals (mod 2) between the sort call and `expr`; None if `expr` does not
    derive from sort_tables_and_constraints."""
    if depth > 6:
        return None
    if isinstance(expr, ast.Call):
        nm = (call_name(expr) or "").rsplit(".", 1)[-1]
        if nm == "sort_tables_and_constraints":
            return 0
        if nm in ("list", "tuple", "iter") and len(expr.args) == 1:
            return _parity(expr.args[0], fn, ctx, of, at, depth + 1)
        if nm == "reversed" and len(expr.args) == 1:
            p = _parity(expr.args[0], fn, ctx, of, at, depth + 1)
            return None if p is None else 1 - p
        return None
    if isinstance(expr, ast.Subscript) and isinstance(expr.slice, ast.Slice):
        p = _parity(expr.value, fn, ctx, of, at, depth + 1)
        if p is None:
            return None
        st = expr.slice.step
        if st is not None and unparse(st) == "-1":
            return 1 - p
        return p
    if isinstance(expr, ast.Name):
        binds, _entry = of.reaching(expr.id, fn, at)
        ps = set()
        for v, st in binds:
            if v is None:
                continue
            p = _parity(v, fn, ctx, of, st, depth + 1)
            if p is not None:
                ps.add(p)
        if len(ps) == 1:
            return ps.pop()
        return None if not ps else -1
    return None


@R.rule("C14-R2", floor=6, template="T-FLOW",
        desc="SchemaGenerator.visit_metadata walks the sort forward, SchemaDropper.visit_metadata reversed; the "
             "(None, remaining constraints) entry is the last element of the sort and both visitors emit it")
def r2(ctx):
    of = topo_flow(ctx)
    f = ctx.func(STC)
    # (a) the None entry is appended after the sorted tables
    rets = [r for r in walk_local(f.node) if isinstance(r, ast.Return) and r.value is not None]
    ctx.require(len(rets) == 1, "sort_tables_and_constraints: expected one return")
    rv = rets[0].value

    def none_entry(e):
        return isinstance(e, ast.List) and len(e.elts) == 1 and isinstance(e.elts[0], ast.Tuple) and e.elts[0].elts \
            and isinstance(e.elts[0].elts[0], ast.Constant) and e.elts[0].elts[0].value is None

    last = isinstance(rv, ast.BinOp) and isinstance(rv.op, ast.Add) and none_entry(rv.right) and not none_entry(rv.left)
    ctx.check(last, f"{STC}:none-entry-last",
              "the (None, [remaining constraints]) entry is not concatenated AFTER the sorted tables: ALTER TABLE ADD "
              "CONSTRAINT would be emitted before the tables exist",
              "sorted tables + [(None, remaining)]", f"{f.module.path}:{rets[0].lineno}")
    if last:
        k = of.kind(rv.left, f, 0, rets[0])
        ctx.require(k.k != UNKNOWN, f"cannot classify the result of sort_tables_and_constraints: {k.why}")
        ctx.check(k.k in (ORD, PARAM), f"{STC}:result-order",
                  f"the table part of the result does not keep the order of the topological sort: {k.why}",
                  f"result follows topological.sort ({k.why})", f"{f.module.path}:{rets[0].lineno}")
    # (b) direction + (c) None entry handled
    for cname, want in (("SchemaGenerator", 0), ("SchemaDropper", 1)):
        m = ctx.func(f"{DDL}::{cname}.visit_metadata")
        loops = []
        for n in walk_local(m.node):
            if isinstance(n, ast.For) and isinstance(n.target, ast.Tuple) and len(n.target.elts) == 2 \
                    and any((call_name(c) or "").endswith("traverse_single") for c in calls_in(n)):
                p = _parity(n.iter, m, ctx, of, n)
                if p is not None:
                    loops.append((n, p))
        ctx.require(loops, f"{cname}.visit_metadata: no emission loop over the sorted collection")
        for key, (loop, p) in ordinal_keys(loops, lambda l: f"{m.key}:direction"):
            ctx.check(p == want, key,
                      f"{cname} walks the dependency sort {'reversed' if p == 1 else 'forward' if p == 0 else 'in mixed directions'}; "
                      f"{'CREATE needs referenced tables first (forward)' if want == 0 else 'DROP needs referencing tables first (reversed)'}",
                      "forward" if want == 0 else "reversed", f"{m.module.path}:{loop.lineno}")
            tvar = loop.target.elts[0]
            fvar = loop.target.elts[1]
            ctx.require(isinstance(tvar, ast.Name) and isinstance(fvar, ast.Name), "emission loop target not (table, fkcs)")
            # table branch and constraint branch both emit
            emits_table = emits_fkc = False
            pm = m.module.parents()
            for c in calls_in(loop):
                if not (call_name(c) or "").endswith("traverse_single") or not c.args:
                    continue
                atoms = guard_atoms(lexical_guards(pm, enclosing_stmt(pm, c), stop=loop))
                notnone = (f"{tvar.id} is None", False) in atoms
                isnone = (f"{tvar.id} is None", True) in atoms
                a0 = c.args[0]
                if isinstance(a0, ast.Name) and a0.id == tvar.id and notnone:
                    emits_table = True
                elif isinstance(a0, ast.Name) and isnone:
                    chain = _derives_from(a0.id, fvar.id, m)
                    if chain is not None:
                        emits_fkc = True
            ctx.check(emits_table and emits_fkc, key.replace(":direction", ":none-entry-emitted"),
                      f"{cname} does not emit both the tables (under `{tvar.id} is not None`) and the deferred constraints of "
                      f"the (None, constraints) entry (tables: {emits_table}, constraints: {emits_fkc})",
                      "tables and deferred constraints both emitted", f"{m.module.path}:{loop.lineno}")


@R.rule("C14-R3", floor=9, template="T-FLOW",
        desc="order taint: the table collection handed to the dependency sort (every caller of "
             "sort_tables_and_constraints / sort_tables in the package) is an ordered collection, never a bare set")
def r3(ctx):
    of = topo_flow(ctx)
    f = ctx.func(STC)
    topo_sort = ctx.func(f"{TOPO}::sort")
    sorts = [c for c in calls_in(f.node) if (call_name(c) or "").endswith("topological.sort")]
    ctx.require(sorts, "sort_tables_and_constraints no longer calls topological.sort")
    seen = set()

    def judge(key, fn, expr, loc, depth):
        ctx.functions_analysed.add(fn.key)
        k = of.kind(expr, fn)
        txt = unparse(expr)[:70]
        if k.k == ORD:
            ctx.ok(key, f"`{txt}` ordered: {k.why}")
        elif k.k in (SET, TAINTED):
            ctx.violation(key, f"`{txt}` reaches the dependency sort as the table order but is unordered: {k.why} "
                               f"(CREATE/DROP order then varies between runs)", loc)
        elif k.k == PARAM and k.fn_key == fn.key and depth < 4:
            callers = call_sites(ctx.index, fn)
            if not callers:
                ctx.ok(key, f"`{txt}`: parameter `{k.param}` of {fn.qualname} without callers in the package (caller's order)", nontrivial=False)
                return
            ctx.ok(key, f"`{txt}`: parameter `{k.param}`, followed to {len(callers)} caller(s)", nontrivial=False)
            for (cf, cc), (ckey, _) in zip(callers, ordinal_keys(callers, lambda fc: f"{fc[0].key}:{fn.name}({k.param})")):
                if id(cc) in seen:
                    continue
                seen.add(id(cc))
                a = arg_for(cc, fn, k.param)
                if a is None:
                    ctx.error(f"cannot bind parameter {k.param} at call of {fn.qualname} in {cf.key}")
                judge(ckey, cf, a, f"{cf.module.path}:{cc.lineno}", depth + 1)
        elif k.k == PARAM:
            ctx.ok(key, f"`{txt}`: caller-supplied collection ({k.why})", nontrivial=False)
        else:
            ctx.error(f"cannot classify `{txt}` in {fn.key}: {k.why}")

    for key, c in ordinal_keys(sorts, lambda c: f"{STC}:topological.sort(allitems)"):
        a = arg_for(c, topo_sort, topo_sort.params[1])
        ctx.require(a is not None, "topological.sort called without items")
        judge(key, f, a, f"{f.module.path}:{c.lineno}", 0)


# ---------------------------------------------------------------------- self-test battery
R.mutant("fk-pair-swapped", DDL,
         sub("                mutable_dependencies.add((dependent_on, table))", "                mutable_dependencies.add((table, dependent_on))"), "C14-R1")
R.mutant("extra-deps-swapped", DDL,
         sub("            (parent, table) for parent in table._extra_dependencies", "            (table, parent) for parent in table._extra_dependencies"), "C14-R1")
R.mutant("select-dep-swapped", DDL,
         sub("                    fixed_dependencies.add((selected_table, table))", "                    fixed_dependencies.add((table, selected_table))"), "C14-R1")
R.mutant("self-reference-not-skipped", DDL,
         sub("            dependent_on = fkc.referred_table\n            if dependent_on is not table:\n                mutable_dependencies.add((dependent_on, table))",
             "            dependent_on = fkc.referred_table\n            if dependent_on is not None:\n                mutable_dependencies.add((dependent_on, table))"), "C14-R1")
R.mutant("handler-takes-parent-end", DDL,
         sub("                table = edge[1]\n", "                table = edge[0]\n"), "C14-R1")
R.mutant("handler-discard-swapped", DDL,
         sub("                        mutable_dependencies.discard((dependent_on, table))", "                        mutable_dependencies.discard((table, dependent_on))"), "C14-R1")
R.mutant("topological-reads-pairs-reversed", TOPO,
         sub("    for parent, child in tuples:\n        edges[child].add(parent)\n\n    todo",
             "    for parent, child in tuples:\n        edges[parent].add(child)\n\n    todo"), "C14-R1")
R.mutant("gen-edges-swapped", TOPO,
         sub("    return {(right, left) for left in edges for right in edges[left]}", "    return {(left, right) for left in edges for right in edges[left]}"), "C14-R1")
R.mutant("dropper-not-reversed", DDL,
         sub("            collection = list(\n                reversed(\n                    sort_tables_and_constraints(\n                        unsorted_tables,\n                        filter_fn=lambda constraint: (\n                            False\n                            if not self.dialect.supports_alter\n                            or constraint.name is None\n                            else None\n                        ),\n                    )\n                )\n            )",
             "            collection = list(\n                sort_tables_and_constraints(\n                    unsorted_tables,\n                    filter_fn=lambda constraint: (\n                        False\n                        if not self.dialect.supports_alter\n                        or constraint.name is None\n                        else None\n                    ),\n                )\n            )"), "C14-R2")
R.mutant("generator-reversed", DDL,
         sub("        collection = sort_tables_and_constraints(\n            [t for t in tables if self._can_create_table(t)]\n        )",
             "        collection = list(reversed(sort_tables_and_constraints(\n            [t for t in tables if self._can_create_table(t)]\n        )))"), "C14-R2")
R.mutant("none-entry-first", DDL,
         sub("    return [\n        (table, table.foreign_key_constraints.difference(remaining_fkcs))\n        for table in candidate_sort\n    ] + [(None, list(remaining_fkcs))]",
             "    return [(None, list(remaining_fkcs))] + [\n        (table, table.foreign_key_constraints.difference(remaining_fkcs))\n        for table in candidate_sort\n    ]"), "C14-R2")
R.mutant("generator-drops-deferred-constraints", DDL,
         sub("                        _is_metadata_operation=True,\n                    )\n                else:\n                    for fkc in fkcs:\n                        self.traverse_single(fkc)\n\n    def visit_table(\n        self,\n        table,\n        create_ok=False,",
             "                        _is_metadata_operation=True,\n                    )\n\n    def visit_table(\n        self,\n        table,\n        create_ok=False,"), "C14-R2")
R.mutant("result-through-set", DDL,
         sub("        for table in candidate_sort\n    ] + [(None, list(remaining_fkcs))]", "        for table in set(candidate_sort)\n    ] + [(None, list(remaining_fkcs))]"), "C14-R2")
R.mutant("create-all-from-set", DDL,
         sub("        collection = sort_tables_and_constraints(\n            [t for t in tables if self._can_create_table(t)]\n        )",
             "        collection = sort_tables_and_constraints(\n            {t for t in tables if self._can_create_table(t)}\n        )"), "C14-R3")
R.mutant("effective-tables-from-set", DDL,
         sub("            self._effective_tables = list(metadata.tables.values())", "            self._effective_tables = set(metadata.tables.values())"), "C14-R3")
R.mutant("sorted-tables-from-set", "sql/schema.py",
         sub("            sorted(self.tables.values(), key=lambda t: t.key)  # type: ignore[attr-defined]  # noqa: E501",
             "            set(self.tables.values())"), "C14-R3")
R.mutant("sort-receives-set", DDL,
         sub("                fixed_dependencies.union(mutable_dependencies),\n                tables,\n            )\n        )\n    except",
             "                fixed_dependencies.union(mutable_dependencies),\n                set(tables),\n            )\n        )\n    except"), "C14-R3")
# benign
R.mutant("benign-rename-dependent-on", DDL,
         sub("            dependent_on = fkc.referred_table\n            if dependent_on is not table:\n                mutable_dependencies.add((dependent_on, table))",
             "            referred = fkc.referred_table\n            if referred is not table:\n                mutable_dependencies.add((referred, table))"), None)
R.mutant("benign-reorder-set-init", DDL,
         sub("    fixed_dependencies = set()\n    mutable_dependencies = set()\n", "    mutable_dependencies = set()\n    fixed_dependencies = set()\n"), None)
R.mutant("benign-generator-logging", DDL,
         sub("        event_collection = [t for (t, fks) in collection if t is not None]\n\n        with self.with_ddl_events(\n            metadata,\n            tables=event_collection,\n            checkfirst=self.checkfirst,\n        ):\n            for seq in seq_coll:",
             "        event_collection = [t for (t, fks) in collection if t is not None]\n        _n = len(event_collection)\n\n        with self.with_ddl_events(\n            metadata,\n            tables=event_collection,\n            checkfirst=self.checkfirst,\n        ):\n            for seq in seq_coll:"), None)
R.mutant("benign-generator-list-copy", DDL,
         sub("        collection = sort_tables_and_constraints(\n            [t for t in tables if self._can_create_table(t)]\n        )",
             "        creatable = [t for t in tables if self._can_create_table(t)]\n        collection = list(sort_tables_and_constraints(creatable))"), None)
