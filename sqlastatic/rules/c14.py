"""C14 -- DDL is emitted in dependency order (edge orientation, reversal on drop, ordered input)."""

from __future__ import annotations

import ast

from ..astutil import (
    attr_stores, block_of, call_name, calls_in, dotted, enclosing_stmt, guard_atoms, lexical_guards, mutating_calls, name_stores,
    subscript_stores, test_atoms, unparse, walk_local,
)
from ..report import Registry, chain, sub
from ._helpers_rules_b import (
    ORD, PARAM, SET, TAINTED, UNKNOWN, arg_for, call_sites, ordinal_keys, topo_flow,
)
from ._helpers_rob_e1 import (
    Raised, TinyPy, Unsupported, cfg_atoms, cfg_guards, comp_guards, expand, is_attr_chain, module_functions, once_bound,
    resolve_name, virtual_return,
)

R = Registry(
    "C14",
    title="DDL is emitted in dependency order for any foreign-key graph",
    decides=(
        "producer/consumer agreement on edge orientation: every dependency pair built by "
        "ddl.sort_tables_and_constraints puts the prerequisite table (referred table, selected-from table, "
        "extra dependency) where topological.sort_as_subsets reads the parent and the dependent table where it "
        "reads the child, self references are skipped, cycle breaking discards pairs with the same orientation "
        "and CircularDependencyError.edges has the orientation of the input pairs; SchemaGenerator consumes "
        "the sort forward and SchemaDropper reversed, the (None, remaining constraints) entry is last in the "
        "sort and both visitors emit it; the table collection handed to the sort is ordered; inside the sort a "
        "constraint is either inline with its ordering pair kept or deferred with the pair dropped (R4) and CREATE "
        "TABLE omits exactly the deferred ones (R5); with checkfirst the existence test is applied to the tables "
        "BEFORE they are sorted, so the (None, constraints) entry never holds constraints of tables that are not "
        "being created / dropped (R6); a constraint that visit_foreign_key_constraint will not emit through ALTER keeps "
        "its ordering pair: the emitter's skip condition implies `filter_fn(constraint) is False` or the inline "
        "fallback (R7)."
    ),
    not_decided=(
        "execution on a backend; completeness of indexes/constraints/sequences; correctness of the "
        "topological sort algorithm itself (C19 decides its structural clauses)."
    ),
)

DDL = "sql/ddl.py"
TOPO = "util/topological.py"
STC = f"{DDL}::sort_tables_and_constraints"


def _topo_interp(ctx):
    m = ctx.index.module(TOPO)
    return TinyPy(module_functions(m)), m


def topo_orientation(ctx, entry="sort"):
    """(prerequisite index, dependent index) of a pair as read by util.topological.<entry>.

    Observed, not pattern matched: the function is interpreted (TinyPy: an AST interpreter, nothing is imported)
    on the probe `pairs = [(X, Y)]` with the items given in both orders.  The component that is emitted first in
    BOTH runs is the prerequisite; if the order of the items decides, the pairs do not gate emission."""
    f = ctx.func(f"{TOPO}::{entry}")
    ctx.functions_analysed.add(f.key)
    ctx.functions_analysed.add(f"{TOPO}::sort_as_subsets")
    ctx.require(len(f.params) >= 2, f"{entry} no longer takes (edge pairs, items)")
    firsts = []
    for items in (["y", "x"], ["x", "y"]):
        tp, _m = _topo_interp(ctx)
        try:
            out = tp.call(f.node, [{("x", "y")}, list(items)])
        except Unsupported as e:
            ctx.error(f"cannot interpret util.topological.{entry} on the orientation probe: {e}")
        except Raised as e:
            ctx.error(f"util.topological.{entry} raises {e.exc_name()} on an acyclic two-node probe")
        flat = []
        for x in out or []:
            flat.extend(x if isinstance(x, (list, tuple, set)) else [x])
        ctx.require(sorted(flat) == ["x", "y"], f"util.topological.{entry} does not emit exactly the given items on the probe ({flat})")
        firsts.append(flat[0])
    ctx.require(len(set(firsts)) == 1,
                f"the edge pairs of util.topological.{entry} do not gate emission: the probe pair (x, y) is emitted in the "
                f"order of the items ({firsts}) (see C19-R2)")
    return (0, 1) if firsts[0] == "x" else (1, 0)


def error_edges_orientation(ctx, entry="sort"):
    """How CircularDependencyError.edges relates to the input pairs, observed on a 3-cycle probe:
    'same' (the reported edges are the input pairs), 'reversed', or a description of something else."""
    f = ctx.func(f"{TOPO}::{entry}")
    init = ctx.func("exc.py::CircularDependencyError.__init__")
    ps = [p for p in init.params if p != "self"]
    ctx.require("edges" in ps, "CircularDependencyError.__init__ has no `edges` parameter")
    stored = [getattr(st, "value", None) for d, _t, st in attr_stores(init.node) if d == "self.edges"]
    ctx.require(stored and all(isinstance(v, ast.Name) and v.id == "edges" for v in stored),
                "CircularDependencyError.__init__ does not store its `edges` argument as self.edges")
    pairs = {("a", "b"), ("b", "c"), ("c", "a")}
    tp, _m = _topo_interp(ctx)
    try:
        tp.call(f.node, [set(pairs), ["a", "b", "c"]])
    except Raised as e:
        ctx.require(e.exc_name() == "CircularDependencyError", f"util.topological.{entry} raises {e.exc_name()} on a cycle")
        try:
            edges = e.arg(ps.index("edges"), "edges")
        except Unsupported as u:
            ctx.error(f"cannot interpret the `edges` argument of CircularDependencyError in util.topological: {u}")
        try:
            got = {tuple(x) for x in edges}
        except TypeError:
            ctx.error(f"CircularDependencyError.edges is not a collection of pairs on the probe: {edges!r}")
        if got == pairs:
            return "same", got
        if got == {(b, a) for a, b in pairs}:
            return "reversed", got
        return f"neither the input pairs nor their reversal: {sorted(got)}", got
    except Unsupported as e:
        ctx.error(f"cannot interpret util.topological.{entry} on the cycle probe: {e}")
    ctx.error(f"util.topological.{entry} does not raise CircularDependencyError on a 3-cycle")


def _derives_from(name: str, root: str, fn, depth=0, seen=None) -> list:
    """Attribute names on the def-use chain from local `name` back to local `root`
    (None when `name` does not derive from `root`).  Follows Assign values and for-loop iterables."""
    seen = seen or set()
    if name == root:
        return []
    if name in seen or depth > 4:
        return None
    seen = seen | {name}
    srcs = []
    for n, v, st in name_stores(fn.node):
        if n != name:
            continue
        if v is not None:
            srcs.append(v)
        elif isinstance(st, (ast.For, ast.AsyncFor)):
            srcs.append(st.iter)
    for n in walk_local(fn.node):
        # comprehension targets
        if isinstance(n, ast.comprehension):
            tn = {x.id for x in ast.walk(n.target) if isinstance(x, ast.Name)}
            if name in tn:
                srcs.append(n.iter)
    for s in srcs:
        attrs = [a.attr for a in ast.walk(s) if isinstance(a, ast.Attribute)]
        for nm in {x.id for x in ast.walk(s) if isinstance(x, ast.Name)}:
            sub_ = _derives_from(nm, root, fn, depth + 1, seen)
            if sub_ is not None:
                return attrs + sub_
    return None


_GROW = ("add", "update")
_SHRINK = ("discard", "remove", "difference_update")


def _pair_sites(ctx, f, sets, of=None):
    """[(method, node, pair expr, set name)] for every statement that changes one of the dependency-pair sets:
    `S.add((a, b))`, `S.discard((a, b))`, `S.update((a, b) for ..)`, `S.update([(a, b), ..])`, `S |= {..}`, `S -= {..}`;
    a pair given through a local (`p = (a, b); S.add(p)`) is resolved through the binding that reaches the statement.
    A whole edge of `<err>.edges` is reported as its loop variable (ast.Name).  A change that is not understood is an
    unknown idiom (exit 2), never skipped."""
    pm = f.module.parents()
    evars = _error_edge_vars(f)
    out = []

    def resolve(x, st):
        if isinstance(x, ast.Name) and x.id not in evars and of is not None:
            binds, entry = of.reaching(x.id, f, st)
            if len(binds) == 1 and not entry and binds[0][0] is not None:
                return binds[0][0]
        return x

    def one(meth, node, arg, sname, st):
        arg = resolve(arg, st)
        if isinstance(arg, ast.Tuple):
            out.append((meth, node, arg, sname))
        elif isinstance(arg, ast.Name) and arg.id in evars:
            out.append((meth, node, arg, sname))   # a whole edge of <err>.edges (orientation: see the cycle probe)
        else:
            ctx.error(f"{f.key}: `{unparse(node)[:70]}` changes the dependency pairs in a way that is not understood")

    def many(meth, node, arg, sname, st):
        arg = resolve(arg, st)
        if isinstance(arg, ast.Call) and isinstance(arg.func, ast.Name) and arg.func.id in ("set", "list", "tuple", "frozenset") and len(arg.args) == 1:
            arg = resolve(arg.args[0], st)
        if isinstance(arg, (ast.GeneratorExp, ast.ListComp, ast.SetComp)) and isinstance(arg.elt, ast.Tuple):
            out.append((meth, node, arg.elt, sname))
        elif isinstance(arg, (ast.List, ast.Set, ast.Tuple)) and arg.elts and all(isinstance(e, ast.Tuple) for e in arg.elts):
            for e in arg.elts:
                out.append((meth, node, e, sname))
        elif isinstance(arg, (ast.List, ast.Set, ast.Tuple)) and not arg.elts:
            pass
        elif isinstance(arg, ast.Name) and arg.id in f.params:
            pass    # caller-supplied pairs (extra_dependencies): their orientation is the caller's, documented, business
        else:
            ctx.error(f"{f.key}: `{unparse(node)[:70]}` changes the dependency pairs in a way that is not understood")

    for c in calls_in(f.node):
        fn_ = c.func
        if not (isinstance(fn_, ast.Attribute) and isinstance(fn_.value, ast.Name) and fn_.value.id in sets):
            continue
        st = enclosing_stmt(pm, c)
        if fn_.attr in ("add", "discard", "remove") and len(c.args) == 1:
            one(fn_.attr, c, c.args[0], fn_.value.id, st)
        elif fn_.attr in ("update", "difference_update") and len(c.args) == 1:
            many("update" if fn_.attr == "update" else "discard", c, c.args[0], fn_.value.id, st)
        elif fn_.attr in ("clear", "pop", "intersection_update", "symmetric_difference_update", "update", "difference_update", "add",
                          "discard", "remove"):
            ctx.error(f"{f.key}: `{unparse(c)[:70]}` changes the dependency pairs in a way that is not understood")
    for n in walk_local(f.node):
        if isinstance(n, ast.AugAssign) and isinstance(n.target, ast.Name) and n.target.id in sets:
            if isinstance(n.op, ast.BitOr):
                many("update", n, n.value, n.target.id, n)
            elif isinstance(n.op, ast.Sub):
                many("discard", n, n.value, n.target.id, n)
            else:
                ctx.error(f"{f.key}: `{unparse(n)[:70]}` changes the dependency pairs in a way that is not understood")
    out.sort(key=lambda x: (x[1].lineno, x[1].col_offset))
    return out


def _error_edge_vars(f):
    """loop variables of `for edge in <err>.edges`"""
    return {n.target.id for n in walk_local(f.node)
            if isinstance(n, ast.For) and isinstance(n.target, ast.Name) and isinstance(n.iter, ast.Attribute) and n.iter.attr == "edges"}


def _handler_edge_ends(f):
    """[(name, component index, binding statement)] for the names bound to one end of an edge of `<err>.edges`:
    `x = edge[i]`, `a, b = edge` inside `for edge in err.edges`, or `for a, b in err.edges`."""
    out = []
    for n in walk_local(f.node):
        if not (isinstance(n, ast.For) and isinstance(n.iter, ast.Attribute) and n.iter.attr == "edges"):
            continue
        if isinstance(n.target, (ast.Tuple, ast.List)) and len(n.target.elts) == 2 and all(isinstance(e, ast.Name) for e in n.target.elts):
            out += [(e.id, i, n) for i, e in enumerate(n.target.elts)]
        if not isinstance(n.target, ast.Name):
            continue
        edge = n.target.id
        for st in walk_local(n):
            if not isinstance(st, ast.Assign):
                continue
            v = st.value
            for t in st.targets:
                if isinstance(t, ast.Name) and isinstance(v, ast.Subscript) and isinstance(v.value, ast.Name) and v.value.id == edge \
                        and isinstance(v.slice, ast.Constant) and isinstance(v.slice.value, int):
                    out.append((t.id, v.slice.value % 2, st))
                elif isinstance(t, (ast.Tuple, ast.List)) and isinstance(v, ast.Name) and v.id == edge and len(t.elts) == 2 \
                        and all(isinstance(e, ast.Name) for e in t.elts):
                    out += [(e.id, i, st) for i, e in enumerate(t.elts)]
    return out


def _family_owners(node):
    """names X with `X.foreign_key_constraints` read inside `node`"""
    return {x.value.id for x in ast.walk(node) if isinstance(x, ast.Attribute) and x.attr == FKCS and isinstance(x.value, ast.Name)}


def _pair_sets(ctx, f, topo_sort, defs):
    """(names of the sets that flow into the pairs argument of topological.sort, the sort calls)"""
    sets = set()
    sorts = [c for c in calls_in(f.node) if (call_name(c) or "").endswith("topological.sort")]
    ctx.require(sorts, "sort_tables_and_constraints no longer calls topological.sort")
    for c in sorts:
        a = arg_for(c, topo_sort, topo_sort.params[0])
        ctx.require(a is not None, "topological.sort called without pairs")
        names = {n.id for n in ast.walk(a) if isinstance(n, ast.Name)} - {"set", "frozenset", "list", "tuple"}
        # `all_pairs = fixed | mutable; topological.sort(all_pairs, tables)`: a once-bound local that is a union of
        # other sets stands for those sets
        for _ in range(3):
            for nm in sorted(names):
                v = defs.get(nm)
                if v is None:
                    continue
                union = isinstance(v, ast.BinOp) and isinstance(v.op, ast.BitOr) or \
                    isinstance(v, ast.Call) and isinstance(v.func, ast.Attribute) and v.func.attr == "union" or \
                    isinstance(v, ast.Call) and isinstance(v.func, ast.Name) and v.func.id in ("set", "frozenset", "list") and v.args
                if union:
                    names = (names - {nm}) | ({n.id for n in ast.walk(v) if isinstance(n, ast.Name)} - {"set", "frozenset", "list", "tuple"})
        sets |= names
    return sets, sorts


def _tables_loops(f, tables_p):
    def over_param(it):
        while isinstance(it, ast.Call) and isinstance(it.func, ast.Name) and it.func.id in ("list", "tuple", "iter") and len(it.args) == 1:
            it = it.args[0]
        return isinstance(it, ast.Name) and it.id == tables_p
    return [n for n in walk_local(f.node) if isinstance(n, ast.For) and isinstance(n.target, ast.Name) and over_param(n.iter)]


@R.rule("C14-R1", floor=7, template="T-TABLE",
        desc="every dependency pair of sort_tables_and_constraints is (prerequisite, dependent table) as "
             "topological.sort reads it (observed by interpreting util.topological on a probe); FK self-references are "
             "skipped; cycle breaking and CircularDependencyError.edges use the same orientation")
def r1(ctx):
    pre_i, dep_i = topo_orientation(ctx)
    f = ctx.func(STC)
    pm = f.module.parents()
    g = ctx.cfg(f)
    of = topo_flow(ctx)
    defs = once_bound(f.node)
    tables_p = f.params[0]
    # the pair sets: whatever flows into the first argument of topological.sort
    topo_sort = ctx.func(f"{TOPO}::sort")
    sets, sorts = _pair_sets(ctx, f, topo_sort, defs)
    ctx.require(len(sets) >= 1, "no dependency-pair sets found")
    sites = _pair_sites(ctx, f, sets, of)
    ctx.require(sites, "no dependency pairs are built in sort_tables_and_constraints")
    # the dependent table: loop variable over the `tables` parameter, or (in the cycle handler) a name bound
    # to one end of an edge of `<err>.edges` whose foreign key constraints the handler works on
    loop_vars = {n.target.id for n in _tables_loops(f, tables_p)}
    ctx.require(len(loop_vars) == 1, f"expected one loop variable over `{tables_p}`, found {loop_vars}")
    table = next(iter(loop_vars))
    ends = _handler_edge_ends(f)
    roots = [table] + [nm for nm, _i, _st in ends if nm != table]

    def role_of(e):
        """('dependent'|'prerequisite'|'unknown', root table name, attribute chain)"""
        if isinstance(e, ast.Name):
            if e.id == table:
                return "dependent", e.id, []
            end_idx = {i for nm, i, _st in ends if nm == e.id}
            if end_idx:     # one end of a reported edge: its role is its position in the edge
                return ("dependent" if end_idx == {dep_i} else "prerequisite"), e.id, []
            for r_ in roots:
                chain = _derives_from(e.id, r_, f)
                if chain is not None:
                    return "prerequisite", r_, chain
            return "unknown", None, None
        attrs = [a.attr for a in ast.walk(e) if isinstance(a, ast.Attribute)]
        for nm in sorted({x.id for x in ast.walk(e) if isinstance(x, ast.Name)}):
            if nm in roots and attrs:
                return "prerequisite", nm, attrs
            for r_ in roots:
                chain = _derives_from(nm, r_, f)
                if chain is not None:
                    return "prerequisite", r_, attrs + chain
        return "unknown", None, None

    for key, (meth, c, tup, sname) in ordinal_keys(sites, lambda s: f"{STC}:{s[3]}.{'update' if s[0] == 'update' else s[0]}"):
        loc = f"{f.module.path}:{c.lineno}"
        if isinstance(tup, ast.Name):
            ctx.ok(key, f"`{tup.id}` is an edge reported by CircularDependencyError.edges (orientation checked on the cycle probe)")
            continue
        ctx.require(len(tup.elts) == 2, f"dependency pair `{unparse(tup)}` is not a 2-tuple")
        info = [role_of(e) for e in tup.elts]
        roles = [i[0] for i in info]
        ctx.require("unknown" not in roles, f"cannot relate `{unparse(tup)}` to the table being sorted ({table})")
        good = roles[pre_i] == "prerequisite" and roles[dep_i] == "dependent"
        ctx.check(good, key,
                  f"pair `{unparse(tup)}` has roles {roles} but topological.sort reads index {pre_i} as the "
                  f"prerequisite (emitted first) and index {dep_i} as the dependent: the table would be created before "
                  f"the table it references",
                  f"`{unparse(tup)}` = (prerequisite, dependent)", loc)
        # FK derived prerequisite may be the table itself
        if meth in _GROW and "prerequisite" in roles and "dependent" in roles:
            pre_e = tup.elts[roles.index("prerequisite")]
            dep_nm = info[roles.index("dependent")][1]
            chain = info[roles.index("prerequisite")][2]
            if chain and "referred_table" in chain:
                st = enclosing_stmt(pm, c)
                atoms = cfg_atoms(g, st, defs, keep=roots, extra=comp_guards(pm, tup))
                spell = {unparse(pre_e), unparse(expand(pre_e, defs, keep=roots))}
                skip = any((f"{p_} is {dep_nm}", False) in atoms or (f"{dep_nm} is {p_}", False) in atoms
                           or (f"{p_} == {dep_nm}", False) in atoms for p_ in spell)
                ctx.check(skip, key + ":self-reference-skipped",
                          f"pair `{unparse(tup)}` from a foreign key is added without excluding `{unparse(pre_e)} is {dep_nm}`: a "
                          f"self-referential foreign key becomes a one-node cycle",
                          f"guarded by `{unparse(pre_e)} is not {dep_nm}`", loc)
    # cycle handler: the table whose constraints are deferred is the dependent end of the reported edge
    ctx.require(ends, "cycle handler no longer takes the table from an edge of err.edges (`x = edge[i]` / `a, b = edge`)")
    owners = set()
    for nm, idx, st in ends:
        loop = st if isinstance(st, ast.For) else next((a for a in _anc(pm, st) if isinstance(a, ast.For)), None)
        if loop is not None and nm in _family_owners(loop):
            owners.add(nm)
    used = [(nm, idx, st) for nm, idx, st in ends if nm in owners] or ends
    for nm, idx, st in used:
        ctx.check(idx == dep_i, f"{STC}:cycle-handler-table",
                  f"cycle handler takes `{nm}` from component {idx} of an edge and works on its foreign key constraints, but the "
                  f"dependent table (owner of the foreign keys to defer) is component {dep_i} of an edge",
                  f"`{nm}` = component {idx} of the edge: the dependent end", f"{f.module.path}:{st.lineno}")
    # CircularDependencyError.edges: the reported edges are oriented like the input pairs (observed on a cycle probe)
    ge = ctx.func(f"{TOPO}::_gen_edges") if ctx.index.has(f"{TOPO}::_gen_edges") else ctx.func(f"{TOPO}::sort_as_subsets")
    how, got = error_edges_orientation(ctx)
    ctx.check(how == "same", f"{TOPO}::_gen_edges:orientation",
              f"for the cyclic input pairs (a, b), (b, c), (c, a) CircularDependencyError.edges is {sorted(got)} ({how}) but input "
              f"pairs are (prerequisite, dependent): `edge in mutable_dependencies` in the DDL cycle handler would never match",
              "error edges of a 3-cycle probe are exactly the input pairs = (prerequisite, dependent)", ge.loc)


def _parity(expr, fn, ctx, of, at, depth=0):
    """Number of order reversals (mod 2) between the sort call and `expr`; None if `expr` does not
    derive from sort_tables_and_constraints."""
    if depth > 6:
        return None
    if isinstance(expr, ast.Call):
        nm = (call_name(expr) or "").rsplit(".", 1)[-1]
        if nm == "sort_tables_and_constraints":
            return 0
        if nm in ("list", "tuple", "iter") and len(expr.args) == 1:
            return _parity(expr.args[0], fn, ctx, of, at, depth + 1)
        if nm == "reversed" and len(expr.args) == 1:
            p = _parity(expr.args[0], fn, ctx, of, at, depth + 1)
            return None if p is None else 1 - p
        return None
    if isinstance(expr, (ast.ListComp, ast.GeneratorExp)) and len(expr.generators) == 1 and not expr.generators[0].is_async:
        # `[(t, fkcs) for t, fkcs in <sorted> if ..]`: an entry-by-entry copy (possibly filtered) keeps the order
        gen = expr.generators[0]
        tn = [x.id for x in ast.walk(gen.target) if isinstance(x, ast.Name)]
        en = [x.id for x in ast.walk(expr.elt) if isinstance(x, ast.Name)]
        if tn and en == tn and type(expr.elt) is type(gen.target):
            return _parity(gen.iter, fn, ctx, of, at, depth + 1)
        return None
    if isinstance(expr, ast.Subscript) and isinstance(expr.slice, ast.Slice):
        p = _parity(expr.value, fn, ctx, of, at, depth + 1)
        if p is None:
            return None
        st = expr.slice.step
        if st is not None and unparse(st) == "-1":
            return 1 - p
        return p
    if isinstance(expr, ast.Name):
        binds, _entry = of.reaching(expr.id, fn, at)
        ps = set()
        for v, st in binds:
            if v is None:
                continue
            p = _parity(v, fn, ctx, of, st, depth + 1)
            if p is not None:
                ps.add(p)
        if len(ps) == 1:
            return ps.pop()
        return None if not ps else -1
    return None


@R.rule("C14-R2", floor=6, template="T-FLOW",
        desc="SchemaGenerator.visit_metadata walks the sort forward, SchemaDropper.visit_metadata reversed; the "
             "(None, remaining constraints) entry is the last element of the sort and both visitors emit it")
def r2(ctx):
    of = topo_flow(ctx)
    f = ctx.func(STC)
    # (a) the None entry is appended after the sorted tables
    vr = virtual_return(f.node)     # `r = [..]; r.append((None, ..)); return r` reads as `[..] + [(None, ..)]`
    ctx.require(vr is not None, "sort_tables_and_constraints: expected one return")
    rets = [vr[0]]
    rv = vr[1]

    def none_entry(e):
        return isinstance(e, ast.List) and len(e.elts) == 1 and isinstance(e.elts[0], ast.Tuple) and e.elts[0].elts \
            and isinstance(e.elts[0].elts[0], ast.Constant) and e.elts[0].elts[0].value is None

    last = isinstance(rv, ast.BinOp) and isinstance(rv.op, ast.Add) and none_entry(rv.right) and not none_entry(rv.left)
    ctx.check(last, f"{STC}:none-entry-last",
              "the (None, [remaining constraints]) entry is not concatenated AFTER the sorted tables: ALTER TABLE ADD "
              "CONSTRAINT would be emitted before the tables exist",
              "sorted tables + [(None, remaining)]", f"{f.module.path}:{rets[0].lineno}")
    if last:
        k = of.kind(rv.left, f, 0, rets[0])
        ctx.require(k.k != UNKNOWN, f"cannot classify the result of sort_tables_and_constraints: {k.why}")
        ctx.check(k.k in (ORD, PARAM), f"{STC}:result-order",
                  f"the table part of the result does not keep the order of the topological sort: {k.why}",
                  f"result follows topological.sort ({k.why})", f"{f.module.path}:{rets[0].lineno}")
    else:
        ctx.violation(f"{STC}:result-order", "cannot be established: the result is not `<sorted tables> + [(None, ..)]`",
                      f"{f.module.path}:{rets[0].lineno}")
    # (b) direction + (c) None entry handled
    for cname, want in (("SchemaGenerator", 0), ("SchemaDropper", 1)):
        m = ctx.func(f"{DDL}::{cname}.visit_metadata")
        loops = []
        for n in walk_local(m.node):
            if isinstance(n, ast.For) and isinstance(n.target, ast.Tuple) and len(n.target.elts) == 2 \
                    and any((call_name(c) or "").endswith("traverse_single") for c in calls_in(n)):
                p = _parity(n.iter, m, ctx, of, n)
                if p is not None:
                    loops.append((n, p))
        ctx.require(loops, f"{cname}.visit_metadata: no emission loop over the sorted collection")
        for key, (loop, p) in ordinal_keys(loops, lambda l: f"{m.key}:direction"):
            ctx.check(p == want, key,
                      f"{cname} walks the dependency sort {'reversed' if p == 1 else 'forward' if p == 0 else 'in mixed directions'}; "
                      f"{'CREATE needs referenced tables first (forward)' if want == 0 else 'DROP needs referencing tables first (reversed)'}",
                      "forward" if want == 0 else "reversed", f"{m.module.path}:{loop.lineno}")
            tvar = loop.target.elts[0]
            fvar = loop.target.elts[1]
            ctx.require(isinstance(tvar, ast.Name) and isinstance(fvar, ast.Name), "emission loop target not (table, fkcs)")
            # table branch and constraint branch both emit
            emits_table = emits_fkc = False
            pm = m.module.parents()
            for c in calls_in(loop):
                if not (call_name(c) or "").endswith("traverse_single") or not c.args:
                    continue
                atoms = cfg_atoms(ctx.cfg(m), enclosing_stmt(pm, c), extra=comp_guards(pm, c))
                notnone = (f"{tvar.id} is None", False) in atoms
                isnone = (f"{tvar.id} is None", True) in atoms
                a0 = c.args[0]
                if isinstance(a0, ast.Name) and a0.id == tvar.id and notnone:
                    emits_table = True
                elif isinstance(a0, ast.Name) and isnone:
                    chain = _derives_from(a0.id, fvar.id, m)
                    if chain is not None:
                        emits_fkc = True
            ctx.check(emits_table and emits_fkc, key.replace(":direction", ":none-entry-emitted"),
                      f"{cname} does not emit both the tables (under `{tvar.id} is not None`) and the deferred constraints of "
                      f"the (None, constraints) entry (tables: {emits_table}, constraints: {emits_fkc})",
                      "tables and deferred constraints both emitted", f"{m.module.path}:{loop.lineno}")


@R.rule("C14-R3", floor=9, template="T-FLOW",
        desc="order taint: the table collection handed to the dependency sort (every caller of "
             "sort_tables_and_constraints / sort_tables in the package) is an ordered collection, never a bare set")
def r3(ctx):
    of = topo_flow(ctx)
    f = ctx.func(STC)
    topo_sort = ctx.func(f"{TOPO}::sort")
    sorts = [c for c in calls_in(f.node) if (call_name(c) or "").endswith("topological.sort")]
    ctx.require(sorts, "sort_tables_and_constraints no longer calls topological.sort")
    seen = set()

    def judge(key, fn, expr, loc, depth):
        ctx.functions_analysed.add(fn.key)
        k = of.kind(expr, fn)
        txt = unparse(expr)[:70]
        if k.k == ORD:
            ctx.ok(key, f"`{txt}` ordered: {k.why}")
        elif k.k in (SET, TAINTED):
            ctx.violation(key, f"`{txt}` reaches the dependency sort as the table order but is unordered: {k.why} "
                               f"(CREATE/DROP order then varies between runs)", loc)
        elif k.k == PARAM and k.fn_key == fn.key and depth < 4:
            callers = call_sites(ctx.index, fn)
            if not callers:
                ctx.ok(key, f"`{txt}`: parameter `{k.param}` of {fn.qualname} without callers in the package (caller's order)", nontrivial=False)
                return
            ctx.ok(key, f"`{txt}`: parameter `{k.param}`, followed to {len(callers)} caller(s)", nontrivial=False)
            for (cf, cc), (ckey, _) in zip(callers, ordinal_keys(callers, lambda fc: f"{fc[0].key}:{fn.name}({k.param})")):
                if id(cc) in seen:
                    continue
                seen.add(id(cc))
                a = arg_for(cc, fn, k.param)
                if a is None:
                    ctx.error(f"cannot bind parameter {k.param} at call of {fn.qualname} in {cf.key}")
                judge(ckey, cf, a, f"{cf.module.path}:{cc.lineno}", depth + 1)
        elif k.k == PARAM:
            ctx.ok(key, f"`{txt}`: caller-supplied collection ({k.why})", nontrivial=False)
        else:
            ctx.error(f"cannot classify `{txt}` in {fn.key}: {k.why}")

    for key, c in ordinal_keys(sorts, lambda c: f"{STC}:topological.sort(allitems)"):
        a = arg_for(c, topo_sort, topo_sort.params[1])
        ctx.require(a is not None, "topological.sort called without items")
        judge(key, f, a, f"{f.module.path}:{c.lineno}", 0)


# ------------------------------------------------------------------ R4: inline <=> edge kept, deferred <=> edge dropped
FKCS = "foreign_key_constraints"


def _deferred_set(ctx, f):
    """name of the set returned as the `(None, [deferred constraints])` entry, and the return statement"""
    vr = virtual_return(f.node)
    ctx.require(vr is not None, "sort_tables_and_constraints: expected one return")
    rets = [vr[0]]
    cands = []
    for t in ast.walk(vr[1]):
        if isinstance(t, ast.Tuple) and len(t.elts) == 2 and isinstance(t.elts[0], ast.Constant) and t.elts[0].value is None:
            cands = sorted({n.id for n in ast.walk(t.elts[1]) if isinstance(n, ast.Name)} - {"list", "tuple", "set", "sorted"})
    ctx.require(len(cands) == 1, f"cannot name the deferred-constraint set of the (None, ..) entry: {cands}")
    return cands[0], rets[0], vr[1]


def _is_fkcs_of(e, table: str) -> bool:
    return isinstance(e, ast.Attribute) and e.attr == FKCS and isinstance(e.value, ast.Name) and e.value.id == table


def _subst(test, env):
    """copy of `test` with Names replaced according to env {name: ast expr | str}"""
    class T(ast.NodeTransformer):
        def visit_Name(self, n):
            r = env.get(n.id)
            if r is None:
                return n
            return ast.Name(id=r, ctx=ast.Load()) if isinstance(r, str) else r
    import copy
    return T().visit(copy.deepcopy(test))


C_ = "_constraint_"


def _norm(test, cvar, env):
    """`test` with single-assignment locals replaced by their value and the constraint variable normalised"""
    return _subst(_subst(test, env), {cvar: C_})


def _dnf(test, pol=True):
    """disjunctive normal form of (test == pol): list of conjunctions [(atom text, polarity), ..]"""
    if isinstance(test, ast.UnaryOp) and isinstance(test.op, ast.Not):
        return _dnf(test.operand, not pol)
    if isinstance(test, ast.BoolOp):
        conj = (isinstance(test.op, ast.And) and pol) or (isinstance(test.op, ast.Or) and not pol)
        parts = [_dnf(v, pol) for v in test.values]
        if conj:
            out = [[]]
            for p_ in parts:
                out = [a + b for a in out for b in p_]
            return out
        return [c for p_ in parts for c in p_]
    return [test_atoms(test, pol)]


def _constraint_atoms(guards, cvar, env):
    """atoms (text, polarity) of the guards that talk about the constraint, with the constraint variable
    normalised and single-assignment locals replaced by their value"""
    out = []
    for t, pol in guards:
        for text, p in test_atoms(_norm(t, cvar, env), pol):
            if C_ in text:
                out.append((text, p))
    return out


def _collection_origin(ctx, f, expr, table, scope, depth=0, at=None):
    """Where do the constraints in `expr` (a collection, or one constraint) come from?
    -> ("family", cvar, conds, label)   iteration over <table>.foreign_key_constraints, conds = [(test, pol)]
       ("single", dictname, store)      one value looked up in a local dict filled with `D[k] = v`
       ("multi", dictname, None)        the members of a multi-valued local index `D[k].append/add(v)`
       None                             not understood"""
    if depth > 5:
        return None
    pm = f.module.parents()
    if isinstance(expr, (ast.ListComp, ast.SetComp, ast.GeneratorExp)) and len(expr.generators) == 1:
        g0 = expr.generators[0]
        if isinstance(expr.elt, ast.Name) and isinstance(g0.target, ast.Name) and expr.elt.id == g0.target.id:
            if _is_fkcs_of(g0.iter, table):
                return ("family", g0.target.id, [(t, True) for t in g0.ifs], unparse(expr)[:60])
            inner = _collection_origin(ctx, f, g0.iter, table, scope, depth + 1)
            if inner and inner[0] == "family":
                # a further filter over an already derived family: rename its constraint variable to ours
                conds = [(_subst(t, {inner[1]: g0.target.id}), p) for t, p in inner[2]]
                return ("family", g0.target.id, conds + [(t, True) for t in g0.ifs], unparse(expr)[:60])
            return inner
        return None
    if _is_fkcs_of(expr, table):
        return ("family", None, [], unparse(expr))
    if isinstance(expr, ast.Call) and isinstance(expr.func, ast.Name) and expr.func.id in ("list", "set", "tuple", "sorted", "frozenset") \
            and len(expr.args) >= 1:
        return _collection_origin(ctx, f, expr.args[0], table, scope, depth + 1)
    if isinstance(expr, ast.Subscript) and isinstance(expr.value, ast.Name):
        d = expr.value.id
        plain = [st for nm, sub_, st in subscript_stores(f.node) if nm == d and isinstance(st, ast.Assign)]
        grown = [c for recv, meth, c in mutating_calls(f.node)
                 if meth in ("append", "add", "extend", "update") and (recv.startswith(d + "[") or recv.startswith(d + ".setdefault") or recv == d + "[]")]
        if not grown:
            # dotted() of a subscripted receiver may be None: look at the AST directly
            for c in calls_in(f.node):
                fn_ = c.func
                if isinstance(fn_, ast.Attribute) and fn_.attr in ("append", "add", "extend", "update"):
                    r = fn_.value
                    if isinstance(r, ast.Subscript) and isinstance(r.value, ast.Name) and r.value.id == d:
                        grown.append(c)
                    if isinstance(r, ast.Call) and isinstance(r.func, ast.Attribute) and r.func.attr == "setdefault" \
                            and isinstance(r.func.value, ast.Name) and r.func.value.id == d:
                        grown.append(c)
        if plain and not grown:
            return ("single", d, plain[0])
        if grown and not plain:
            return ("multi", d, None)
        return None
    if isinstance(expr, ast.Name):
        binds = [(v, st) for n, v, st in name_stores(f.node) if n == expr.id and any(st is x or _inside(pm, st, scope) for x in [scope])]
        if len(binds) != 1 and at is not None:
            # the same name is bound several times (e.g. `fkc` is the variable of two loops): the loop around the use,
            # else the one binding that reaches it
            loops = [a for a in _anc(pm, at) if isinstance(a, ast.For) and isinstance(a.target, ast.Name) and a.target.id == expr.id]
            if loops:
                binds = [(None, loops[0])]
            else:
                rb, entry = topo_flow(ctx).reaching(expr.id, f, enclosing_stmt(pm, at))
                if len(rb) == 1 and not entry:
                    binds = rb
        if len(binds) != 1:
            return None
        v, st = binds[0]
        if v is not None:
            return _collection_origin(ctx, f, v, table, scope, depth + 1)
        if isinstance(st, (ast.For, ast.AsyncFor)) and isinstance(st.target, ast.Name):
            inner = _collection_origin(ctx, f, st.iter, table, scope, depth + 1)
            if inner and inner[0] == "family":
                conds = [(_subst(t, {inner[1]: expr.id}) if inner[1] else t, p) for t, p in inner[2]]
                return ("family", expr.id, conds, inner[3])
            if inner and inner[0] == "multi":
                return inner
            if inner and inner[0] == "single":
                return inner
        return None
    return None


def _inside(pm, node, scope) -> bool:
    cur = node
    while cur is not None:
        if cur is scope:
            return True
        cur = pm.get(cur)
    return False


# floor 5 = the shape-independent instances (iteration check, deferral site, discard site, inline-keeps-pair, result
# partition); the per-`continue` instances (2 today) exist only while the loop is written with `continue`
@R.rule("C14-R4", floor=5, template="T-SIBLING/T-PATH",
        desc="in sort_tables_and_constraints a foreign key constraint is either rendered inline AND its ordering pair is "
             "kept, or deferred to ALTER AND its pair dropped: constraints that bypass the pair are deferred; the cycle "
             "handler defers the whole family <table>.foreign_key_constraints (not one constraint per pair), discards "
             "pairs only of deferred constraints, keeps the pair of every constraint it leaves inline; the inline "
             "include list and the ALTER list of the result are complementary")
def r4(ctx):
    f = ctx.func(STC)
    ctx.functions_analysed.add(f.key)
    pm = f.module.parents()
    g = ctx.cfg(f)
    R_, ret, ret_value = _deferred_set(ctx, f)
    tables_p = f.params[0]
    tloops = [n for n in walk_local(f.node) if isinstance(n, ast.For) and isinstance(n.target, ast.Name)
              and isinstance(n.iter, ast.Name) and n.iter.id == tables_p]
    ctx.require(len(tloops) == 1, f"expected one loop over `{tables_p}`")
    table = tloops[0].target.id
    closs = [n for n in walk_local(tloops[0]) if isinstance(n, ast.For) and isinstance(n.target, ast.Name) and _is_fkcs_of(n.iter, table)]
    ctx.require(len(closs) == 1, f"expected one loop over `{table}.{FKCS}` in the dependency-building loop")
    cloop = closs[0]
    cvar = cloop.target.id
    # single-assignment locals of the constraint loop (e.g. `filtered = filter_fn(fkc)`)
    env = {}
    stores = [(n, v) for n, v, st in name_stores(cloop) if v is not None and n != cvar]
    for n, v in stores:
        if sum(1 for n2, _ in stores if n2 == n) == 1:
            env[n] = v

    def is_defer(st, var):
        return isinstance(st, ast.Expr) and isinstance(st.value, ast.Call) and dotted(st.value.func) in (f"{R_}.add",) \
            and len(st.value.args) == 1 and isinstance(st.value.args[0], ast.Name) and st.value.args[0].id == var

    # (a) every `continue` of the constraint loop (a constraint that contributes no pair) is preceded, within the
    #     iteration, by `<deferred>.add(<constraint>)`
    conts = [n for n in walk_local(cloop) if isinstance(n, ast.Continue)
             and next((a for a in _anc(pm, n) if isinstance(a, (ast.For, ast.While))), None) is cloop]
    conts.sort(key=lambda n: n.lineno)
    head = g.nodes_for(cloop)
    ctx.require(len(head) == 1, "constraint loop head not unique in the CFG")
    starts = head
    defer_nodes = [n.id for n in g.nodes if n.kind == "stmt" and n.stmt is not None and is_defer(n.stmt, cvar)]
    skip_conj = []

    def self_reference_skip(cn):
        """`continue` taken because the constraint refers to its own table (`fkc.referred_table is table`): such a
        constraint needs no ordering pair and stays inline -- it is not a deferral case"""
        atoms = _constraint_atoms(cfg_guards(g, cn), cvar, env)
        return any(p and t.replace(" ", "") in (f"{C_}.referred_tableis{table}", f"{table}is{C_}.referred_table",
                                                f"{C_}.referred_table=={table}") for t, p in atoms)

    own_table = [cn for cn in conts if self_reference_skip(cn)]
    if own_table:
        ctx.note(f"{STC}: {len(own_table)} `continue` of the constraint loop skip(s) self-referential constraints (no pair needed)")
    conts = [cn for cn in conts if cn not in own_table]
    for key, cn in ordinal_keys(conts, lambda c: f"{STC}:skipped-constraint-is-deferred"):
        tn = g.nodes_for(cn)
        ctx.require(tn, "continue statement not in the CFG")
        wit = g.must_pass(starts, tn, defer_nodes) if defer_nodes else ["no statement adds the constraint to the deferred set"]
        guards = lexical_guards(pm, cn, stop=cloop)
        atoms = _constraint_atoms(guards, cvar, env)
        skip_conj.append(atoms)
        ctx.check(wit is None, key,
                  f"a constraint that is skipped as a dependency ({(' and '.join(t if p else 'not ' + t for t, p in atoms) or 'continue').replace(C_, cvar)}) "
                  f"is not added to `{R_}` on every path: it is neither ordered for inline rendering nor emitted by ALTER",
                  f"skipped when {atoms}: added to `{R_}` first", f"{f.module.path}:{cn.lineno}", wit)
    for dn in defer_nodes:
        st_ = g.nodes[dn].stmt
        if _inside(pm, st_, cloop):
            at_ = _constraint_atoms(cfg_guards(g, st_), cvar, env)
            if at_ and at_ not in skip_conj:
                skip_conj.append(at_)     # the deferral written as an if/else arm instead of `...; continue`
    # (a') shape independent: one iteration of the constraint loop either defers the constraint, or adds an ordering
    #      pair for it, or found it to be a self reference -- whether written with `continue`, if/else or nested ifs
    topo_sort_ = ctx.func(f"{TOPO}::sort")
    psets, _s = _pair_sets(ctx, f, topo_sort_, once_bound(f.node))
    pair_nodes = []
    for meth, node_, tup, _sn in _pair_sites(ctx, f, psets, topo_flow(ctx)):
        if meth in _GROW and _inside(pm, node_, cloop) and isinstance(tup, ast.Tuple):
            srcs = {x.id for e in tup.elts for x in ast.walk(e) if isinstance(x, ast.Name)}
            if cvar in srcs or any(_derives_from(nm, cvar, f) is not None for nm in srcs if nm != table):
                pair_nodes += g.nodes_for(enclosing_stmt(pm, node_))
    blocked = set()
    for n in g.nodes:
        if n.kind == "test" and isinstance(n.stmt, ast.If) and _inside(pm, n.stmt, cloop):
            for lab in ("true", "false"):
                atoms = _constraint_atoms([(n.stmt.test, lab == "true")], cvar, env)
                if any(p and t.replace(" ", "") in (f"{C_}.referred_tableis{table}", f"{table}is{C_}.referred_table",
                                                    f"{C_}.referred_table=={table}") for t, p in atoms):
                    blocked.add((n.id, lab))

    def in_iteration(a, b, lab):
        if (a, lab) in blocked:
            return False
        nb = g.nodes[b]
        return b == head[0] or nb.stmt is None or (isinstance(nb.stmt, ast.AST) and _inside(pm, nb.stmt, cloop) and nb.stmt is not cloop)

    wit = g.must_pass(head, head, set(defer_nodes) | set(pair_nodes), edge_ok=in_iteration)
    ctx.check(wit is None, f"{STC}:constraint-ordered-or-deferred",
              f"an iteration of the constraint loop can end without an ordering pair for `{cvar}` and without adding it to `{R_}` "
              f"(and it is no self reference): the constraint is rendered inline in CREATE TABLE although nothing orders the tables",
              f"every iteration defers `{cvar}` ({len(defer_nodes)} site(s)), adds its pair ({len(pair_nodes)} site(s)) or skips a self "
              f"reference", f"{f.module.path}:{cloop.lineno}", wit)
    # ------------------------------------------------------------------ the cycle handler
    handler = None
    for n in walk_local(f.node):
        if isinstance(n, ast.Try):
            for h in n.handlers:
                if h.type is not None and (dotted(h.type) or "").endswith("CircularDependencyError"):
                    handler = h
    ctx.require(handler is not None, "no `except CircularDependencyError` handler")
    evars = _error_edge_vars(f)
    ends = [(nm, i, st) for nm, i, st in _handler_edge_ends(f) if _inside(pm, st, handler)]
    owners = _family_owners(handler)
    htables = {nm for nm, i, st in ends if nm in owners} or {nm for nm, i, st in ends}
    ctx.require(len(htables) == 1, f"cycle handler: dependent table of an edge not bound exactly once ({htables})")
    htable = next(iter(htables))
    topo_sort = ctx.func(f"{TOPO}::sort")
    of_ = topo_flow(ctx)
    pair_sets, _sorts = _pair_sets(ctx, f, topo_sort, once_bound(f.node))
    all_sites = [(meth, c, tup) for meth, c, tup, _s in _pair_sites(ctx, f, pair_sets, of_)]
    # deferral sites of the handler
    dsites = []
    for c in calls_in(handler):
        if isinstance(c.func, ast.Attribute) and isinstance(c.func.value, ast.Name) and c.func.value.id == R_ \
                and c.func.attr in ("add", "update") and len(c.args) == 1:
            dsites.append(c)
    ctx.require(dsites, f"the cycle handler defers nothing (no `{R_}.add/update`)")
    deferred_cond_atoms = []   # exclusion atoms per deferral site
    deferred_names = set()
    for key, c in ordinal_keys(dsites, lambda c: f"{STC}:cycle-handler:deferral-covers-table"):
        loc = f"{f.module.path}:{c.lineno}"
        org = _collection_origin(ctx, f, c.args[0], htable, handler, at=c)
        ctx.require(org is not None, f"cycle handler: cannot tell where `{unparse(c.args[0])[:50]}` (deferred) comes from")
        if isinstance(c.args[0], ast.Name):
            deferred_names.add(c.args[0].id)
        if org[0] == "single":
            ctx.violation(key,
                          f"the cycle handler defers `{unparse(c.args[0])[:40]}`, ONE constraint looked up in `{org[1]}` which is "
                          f"filled with `{unparse(org[2])[:70]}` (one value per dependency pair). Several foreign key "
                          f"constraints of a table may refer to the same table and share the pair: the others stay inline in "
                          f"CREATE TABLE while the shared ordering pair is discarded", loc)
            continue
        if org[0] == "multi":
            ctx.ok(key, f"defers every constraint indexed under the pair in `{org[1]}`")
            continue
        kind, v, conds, label = org
        extra = lexical_guards(pm, enclosing_stmt(pm, c), stop=handler)
        if v is not None:
            # constraints NOT deferred: negate each inclusion test that talks about the constraint
            exc_atoms = []
            for t, p in conds + extra:
                t2 = _norm(t, v, {})
                if C_ in unparse(t2):
                    exc_atoms.extend(_dnf(t2, not p))
            deferred_cond_atoms.append((c, exc_atoms))
        else:
            deferred_cond_atoms.append((c, []))
        ctx.ok(key, f"defers the family `{label}` of the dependent table `{htable}`")
    # (c) discards in the handler
    discards = [(meth, c, tup) for meth, c, tup in all_sites
                if meth in ("discard", "remove") and _inside(pm, c, handler)]
    ctx.require(discards, "the cycle handler discards no dependency pair")
    for key, (meth, c, tup) in ordinal_keys(discards, lambda s: f"{STC}:cycle-handler:discards-only-deferred"):
        loc = f"{f.module.path}:{c.lineno}"
        if isinstance(tup, ast.Name):
            # a whole reported edge: must happen together with (under the same guards as) a deferral
            st = enclosing_stmt(pm, c)
            blk = block_of(pm, st)[2] or []
            together = any(any(d is x for x in ast.walk(s2)) for s2 in blk for d in dsites)
            ctx.check(together, key,
                      f"the reported edge `{tup.id}` is discarded without a deferral in the same block: the constraints that "
                      f"produced it stay inline and unordered",
                      f"edge `{tup.id}` discarded together with a deferral", loc)
            continue
        pre = [e.id for e in tup.elts if isinstance(e, ast.Name) and e.id != htable]
        ctx.require(len(pre) == 1, f"discarded pair `{unparse(tup)}` not understood")
        chain_ok = False
        src = None
        # the prerequisite derives from a constraint variable; that variable iterates a deferred collection
        for n2, v2, st2 in name_stores(handler):
            if n2 == pre[0] and isinstance(v2, ast.Attribute) and v2.attr == "referred_table" and isinstance(v2.value, ast.Name):
                cv = v2.value.id
                for n3, v3, st3 in name_stores(handler):
                    if n3 == cv and v3 is None and isinstance(st3, ast.For) and _inside(pm, c, st3):
                        src = st3.iter
        if src is None:
            for a in _anc(pm, c):
                if isinstance(a, ast.For) and isinstance(a.target, ast.Name) and any(
                        isinstance(x, ast.Attribute) and x.attr == "referred_table" and isinstance(x.value, ast.Name) and x.value.id == a.target.id
                        for x in ast.walk(tup)):
                    src = a.iter
        ctx.require(src is not None, f"cannot find the constraint loop around `{unparse(c)}`")
        if isinstance(src, ast.Name) and src.id in deferred_names:
            chain_ok = True
        elif isinstance(src, ast.Name) and src.id == R_:
            chain_ok = True
        else:
            # the same loop defers each member before its pair is discarded (on every path of an iteration)
            loop = next(a for a in _anc(pm, c) if isinstance(a, ast.For) and a.iter is src)
            dn = [n.id for n in g.nodes if n.kind == "stmt" and n.stmt is not None and isinstance(loop.target, ast.Name)
                  and is_defer(n.stmt, loop.target.id) and _inside(pm, n.stmt, loop)]
            lh = g.nodes_for(loop)
            tn = g.nodes_for(enclosing_stmt(pm, c))
            if dn and len(lh) == 1 and tn:
                chain_ok = g.must_pass(lh, tn, dn) is None
        ctx.check(chain_ok, key,
                  f"pairs are discarded for the constraints in `{unparse(src)[:50]}`, which is not the collection that is "
                  f"deferred to `{R_}` ({sorted(deferred_names)}): a constraint that stays inline loses its ordering pair",
                  f"pairs discarded exactly for the deferred collection `{unparse(src)[:40]}`", loc)
    # (d) a constraint the handler leaves inline keeps its pair
    skip_set = {frozenset(conj) for conj in skip_conj}
    inline_but_paired = []
    for c, exc_atoms in deferred_cond_atoms:
        for conj in exc_atoms:
            # the excluded constraints satisfy `conj`; fine when they never contributed a pair (some skip conjunction
            # of the dependency-building loop is implied), i.e. a skip conjunction is a subset of conj
            if not any(set(sk) <= set(conj) and sk for sk in skip_conj):
                inline_but_paired.append(conj)
    key = f"{STC}:cycle-handler:edge-kept-for-inline-constraints"
    if not inline_but_paired:
        ctx.ok(key, "every constraint the handler does not defer contributed no pair (or nothing is excluded)")
    else:
        # compensation: pairs re-added / discards guarded by something computed from the non-deferred constraints
        comp = []
        for meth, c, tup in all_sites:
            if _inside(pm, c, handler) and meth in ("add", "update"):
                # pairs (re-)added for the constraints of the table that are not deferred
                srcs = [a.iter for a in _anc(pm, c) if isinstance(a, ast.For) and _inside(pm, a, handler)]
                srcs += [gen.iter for x in ast.walk(c) if isinstance(x, (ast.GeneratorExp, ast.ListComp, ast.SetComp)) for gen in x.generators]
                conds = [t for t, p in lexical_guards(pm, enclosing_stmt(pm, c), stop=handler)]
                if any(FKCS in unparse(e) for e in srcs) and any(
                        R_ in {x.id for x in ast.walk(e) if isinstance(x, ast.Name)} for e in srcs + conds):
                    comp.append(c)
        for meth, c, tup in discards:
            for t, p in lexical_guards(pm, enclosing_stmt(pm, c), stop=handler):
                names = {n.id for n in ast.walk(t) if isinstance(n, ast.Name)}
                for nm in names:
                    for n2, v2, st2 in name_stores(handler):
                        if n2 == nm and v2 is not None and FKCS in unparse(v2) and R_ in {x.id for x in ast.walk(v2) if isinstance(x, ast.Name)}:
                            comp.append(c)
        desc_ = "; ".join(" and ".join(t if p else f"not ({t})" for t, p in conj) for conj in inline_but_paired).replace(C_, "fkc")
        if comp:
            ctx.ok(key, f"constraints left inline ({desc_}) are compensated at line(s) {sorted({c.lineno for c in comp})}")
        else:
            ctx.violation(key,
                          f"the cycle handler does not defer constraints with `{desc_}`; such a constraint is no skip case of the "
                          f"dependency loop (it contributed the pair (referred table, {htable})) and stays inline, yet the pair is "
                          f"discarded as soon as a deferred constraint of the same table refers to the same table: the table can "
                          f"be created before / dropped after the table its inline constraint references",
                          f"{f.module.path}:{handler.lineno}")
    # (e) the result partitions the constraints: inline list = all - deferred, ALTER list = deferred
    inc_ok, why = False, "per-table entry not found"
    for t in ast.walk(ret_value):
        if isinstance(t, ast.Tuple) and len(t.elts) == 2 and isinstance(t.elts[0], ast.Name):
            e = t.elts[1]
            tv = t.elts[0].id
            if isinstance(e, ast.Call) and isinstance(e.func, ast.Attribute) and e.func.attr == "difference" \
                    and _is_fkcs_of(e.func.value, tv) and len(e.args) == 1 and isinstance(e.args[0], ast.Name):
                inc_ok = e.args[0].id == R_
                why = f"inline list is `{unparse(e)}`, ALTER list is `{R_}`"
            elif isinstance(e, ast.BinOp) and isinstance(e.op, ast.Sub) and _is_fkcs_of(e.left, tv) and isinstance(e.right, ast.Name):
                inc_ok = e.right.id == R_
                why = f"inline list is `{unparse(e)}`, ALTER list is `{R_}`"
            elif isinstance(e, (ast.ListComp, ast.SetComp)) and len(e.generators) == 1 and _is_fkcs_of(e.generators[0].iter, tv):
                conds = [a for t_ in e.generators[0].ifs for a in test_atoms(t_, True)]
                cv = e.generators[0].target.id if isinstance(e.generators[0].target, ast.Name) else "?"
                inc_ok = conds == [(f"{cv} in {R_}", False)]
                why = f"inline list is `{unparse(e)[:60]}`, ALTER list is `{R_}`"
            else:
                why = f"inline list `{unparse(e)[:60]}` is not `<table>.{FKCS}` minus `{R_}`"
    ctx.check(inc_ok, f"{STC}:result-partitions-constraints",
              f"the per-table inline list and the (None, ..) ALTER list are not complementary: {why} (a constraint would be "
              f"emitted twice or never)", why, f"{f.module.path}:{ret.lineno}")


def _anc(pm, node):
    cur = pm.get(node)
    while cur is not None:
        yield cur
        cur = pm.get(cur)


# ------------------------------------------------------------------ R5: every constraint is emitted exactly once
COMPILER = "sql/compiler.py"
INCLUDE_KW = "include_foreign_key_constraints"


def _kwarg(call, name):
    return next((k.value for k in call.keywords if k.arg == name), None)


def _norm_atoms(guards, defs):
    """atoms of the guards with once-bound locals (aliases `dialect = self.dialect`, boolean snapshots
    `can_alter = self.dialect.supports_alter`) replaced by what they stand for"""
    out = []
    for t, p in guards:
        for a in test_atoms(expand(t, defs), p):
            if a not in out:
                out.append(a)
    return out


def _only_rebound_to_none_under(ctx, fn, pname):
    """guards [(atoms)] under which parameter `pname` is rebound inside fn; every rebinding must be `= None`"""
    pm = fn.module.parents()
    out = []
    for n, v, st in name_stores(fn.node):
        if n != pname:
            continue
        ctx.require(v is not None and isinstance(v, ast.Constant) and v.value is None,
                    f"{fn.qualname}: `{pname}` is rebound to something other than None (`{unparse(st)[:60]}`)")
        out.append(_norm_atoms(lexical_guards(pm, st, stop=fn.node), once_bound(fn.node)))
    return out


@R.rule("C14-R5", floor=7, template="T-FLOW/T-SIBLING",
        desc="every foreign key constraint is emitted by exactly one of CREATE TABLE and ALTER TABLE ADD CONSTRAINT: the "
             "inline list computed by the sort reaches DDLCompiler.create_table_constraints unchanged "
             "(visit_metadata -> visit_table -> CreateTable -> visit_create_table), the constraints omitted from CREATE "
             "TABLE are exactly the table's constraints that are not in that list, and the no-ALTER fallback "
             "switches both emitters together")
def r5(ctx):
    # 1. visit_metadata forwards the per-table list
    vm = ctx.func(f"{DDL}::SchemaGenerator.visit_metadata")
    ctx.functions_analysed.add(vm.key)
    pm = vm.module.parents()
    hit = None
    for n in walk_local(vm.node):
        if isinstance(n, ast.For) and isinstance(n.target, ast.Tuple) and len(n.target.elts) == 2 \
                and all(isinstance(e, ast.Name) for e in n.target.elts):
            tvar, fvar = (e.id for e in n.target.elts)
            for c in calls_in(n):
                if (call_name(c) or "").endswith("traverse_single") and c.args and isinstance(c.args[0], ast.Name) and c.args[0].id == tvar:
                    hit = (n, c, tvar, fvar)
    ctx.require(hit is not None, "SchemaGenerator.visit_metadata: no traverse_single(<table>, ..) in a loop over (table, constraints)")
    loop, c, tvar, fvar = hit
    kw = _kwarg(c, INCLUDE_KW)
    ctx.check(isinstance(kw, ast.Name) and kw.id == fvar, f"{vm.key}:include-list-forwarded",
              f"CREATE TABLE of `{tvar}` is not given the inline constraint list of its (table, constraints) entry "
              f"({INCLUDE_KW}={unparse(kw) if kw is not None else 'missing'}): constraints deferred to ALTER are also rendered inline",
              f"{INCLUDE_KW}={fvar}", f"{vm.module.path}:{c.lineno}")
    # 2. visit_table hands it to CreateTable; it may only be reset to None, under the no-ALTER guard
    vt = ctx.func(f"{DDL}::SchemaGenerator.visit_table")
    ctx.functions_analysed.add(vt.key)
    ctx.require(INCLUDE_KW in vt.params, f"SchemaGenerator.visit_table has no parameter {INCLUDE_KW}")
    resets = _only_rebound_to_none_under(ctx, vt, INCLUDE_KW)
    ct_calls = [c2 for c2 in calls_in(vt.node) if (call_name(c2) or "").rsplit(".", 1)[-1] == "CreateTable"]
    ctx.require(ct_calls, "SchemaGenerator.visit_table does not construct CreateTable")
    fwd = all(isinstance(_kwarg(c2, INCLUDE_KW), ast.Name) and _kwarg(c2, INCLUDE_KW).id == INCLUDE_KW for c2 in ct_calls)
    ctx.check(fwd, f"{vt.key}:include-list-forwarded",
              f"CreateTable is not constructed with {INCLUDE_KW}=<the list visit_table received>",
              f"CreateTable(.., {INCLUDE_KW}={INCLUDE_KW})", f"{vt.module.path}:{ct_calls[0].lineno}")
    # 3. the no-ALTER fallback: inline everything <=> the ALTER emitter does nothing
    vf = ctx.func(f"{DDL}::SchemaGenerator.visit_foreign_key_constraint")
    ctx.functions_analysed.add(vf.key)
    g = ctx.cfg(vf)
    emit = [n.id for n in g.nodes if n.stmt is not None and isinstance(n.stmt, ast.stmt) and n.kind in ("stmt", "with_enter")
            and any((call_name(c2) or "").rsplit(".", 1)[-1] == "AddConstraint" for part in own_exprs_(n.stmt) for c2 in calls_in(part))]
    ctx.require(emit, "SchemaGenerator.visit_foreign_key_constraint does not emit AddConstraint")
    emit_guards = set(_norm_atoms(g.edge_guards(emit[0]), once_bound(vf.node)))
    reset_atoms = {frozenset(a) for a in resets}
    # reset happens under atoms A (all true); emission must be dominated by the negation of exactly that condition
    agree = len(reset_atoms) == 1 and all(len(a) == 1 for a in reset_atoms) and \
        {(t, not p) for a in reset_atoms for t, p in a} <= emit_guards
    ctx.check(agree, f"{DDL}::SchemaGenerator:no-alter-fallback-agrees",
              f"visit_table discards the inline list (renders every constraint inline) under {sorted(map(sorted, reset_atoms))} but "
              f"visit_foreign_key_constraint emits ALTER TABLE ADD CONSTRAINT under {sorted(emit_guards)}: the two conditions are "
              f"not complementary, so on some dialect a deferred constraint is emitted twice or never",
              f"inline-everything under {sorted(map(sorted, reset_atoms))}; ALTER only under {sorted(emit_guards)}", vf.loc)
    # 4. CreateTable stores the list
    ci = ctx.func(f"{DDL}::CreateTable.__init__")
    ctx.functions_analysed.add(ci.key)
    from ..astutil import attr_stores
    stored = [getattr(st, "value", None) for d, _t, st in attr_stores(ci.node) if d == f"self.{INCLUDE_KW}"]
    ctx.check(len(stored) >= 1 and all(isinstance(v, ast.Name) and v.id == INCLUDE_KW for v in stored),
              f"{ci.key}:include-list-stored",
              f"CreateTable.__init__ does not store its {INCLUDE_KW} argument unchanged as self.{INCLUDE_KW} "
              f"({[unparse(v)[:40] if v is not None else '?' for v in stored]})",
              f"self.{INCLUDE_KW} = {INCLUDE_KW}", ci.loc)
    # 5. every visit_create_table in the package hands create.include_foreign_key_constraints to create_table_constraints
    base = ctx.index.cls(f"{COMPILER}::DDLCompiler")
    ctc = ctx.method(base.key, "create_table_constraints")
    ctx.require(len(ctc.params) >= 3, "create_table_constraints signature changed")
    inc_p = next((p_ for p_ in ctc.params if "include" in p_), None)
    ctx.require(inc_p is not None, "create_table_constraints has no include-list parameter")
    impls = []
    for k in [base] + list(ctx.index.subclasses(base)):
        m_ = k.methods.get("visit_create_table")
        if m_ is not None and not m_.type_only:
            impls.append(m_)
    ctx.require(impls, "no visit_create_table implementation")
    for m_ in impls:
        ctx.functions_analysed.add(m_.key)
        create_p = m_.params[1] if len(m_.params) > 1 else None
        calls = [c2 for c2 in calls_in(m_.node) if (call_name(c2) or "").endswith("create_table_constraints")]
        sup = [c2 for c2 in calls_in(m_.node) if (call_name(c2) or "").endswith("visit_create_table")]
        if not calls and sup:
            ctx.ok(f"{m_.key}:include-list-forwarded", "delegates to the inherited visit_create_table", nontrivial=False)
            continue
        ctx.require(calls, f"{m_.key} neither calls create_table_constraints nor delegates")
        ok = all(dotted(_kwarg(c2, inc_p) or arg_for(c2, ctc, inc_p) or ast.Constant(value=None)) == f"{create_p}.{INCLUDE_KW}" for c2 in calls)
        ctx.check(ok, f"{m_.key}:include-list-forwarded",
                  f"create_table_constraints is not called with {inc_p}={create_p}.{INCLUDE_KW}: the inline list of the "
                  f"CreateTable construct is ignored",
                  f"{inc_p}={create_p}.{INCLUDE_KW}", f"{m_.module.path}:{calls[0].lineno}")
    # 6./7. every create_table_constraints implementation: omitted = table's constraints minus the include list, exactly
    cimpls = []
    for k in [base] + list(ctx.index.subclasses(base)):
        m_ = k.methods.get("create_table_constraints")
        if m_ is not None and not m_.type_only:
            cimpls.append(m_)
    for m_ in cimpls:
        ctx.functions_analysed.add(m_.key)
        if m_ is not ctc and any((call_name(c2) or "").endswith("create_table_constraints") for c2 in calls_in(m_.node)):
            ctx.ok(f"{m_.key}:omitted-is-exact-complement", "delegates to the inherited create_table_constraints", nontrivial=False)
            continue
        _omit_rule(ctx, m_)


def own_exprs_(st):
    from ..astutil import own_exprs
    return own_exprs(st)


def _omit_rule(ctx, m_):
    pm = m_.module.parents()
    table_p = m_.params[1]
    inc_p = next((p_ for p_ in m_.params if "include" in p_), None)
    ctx.require(inc_p is not None, f"{m_.key}: no include-list parameter")
    # the name tested by `c not in <omit>` in the rendered-constraint filter
    omit = None
    for n in walk_local(m_.node):
        if isinstance(n, (ast.ListComp, ast.GeneratorExp, ast.SetComp)):
            for gen in n.generators:
                for t in gen.ifs:
                    for text, pol in test_atoms(t, True):
                        pass
                    for sub_ in ast.walk(t):
                        if isinstance(sub_, ast.Compare) and len(sub_.ops) == 1 and isinstance(sub_.ops[0], ast.NotIn) \
                                and isinstance(sub_.left, ast.Name) and isinstance(gen.target, ast.Name) and sub_.left.id == gen.target.id \
                                and isinstance(sub_.comparators[0], ast.Name):
                            cand = sub_.comparators[0].id
                            if cand in m_.params:
                                continue   # membership in the include list itself (used to BUILD the omitted set)
                            # must be a positive conjunct of the filter
                            if (unparse(ast.Compare(left=sub_.left, ops=[ast.In()], comparators=sub_.comparators)), False) in test_atoms(t, True):
                                omit = (cand, n, gen)
    key7 = f"{m_.key}:omitted-not-rendered"
    key6 = f"{m_.key}:omitted-is-exact-complement"
    if omit is None:
        ctx.violation(key7, "no filter `<constraint> not in <omitted set>` guards the constraints rendered inside CREATE TABLE: "
                            "constraints deferred to ALTER TABLE are rendered inline as well", m_.loc)
        ctx.violation(key6, "cannot be established: no omitted set is consulted", m_.loc)
        return
    oname, comp, gen = omit
    ctx.ok(key7, f"rendered constraints are filtered by `not in {oname}`")
    binds = [(v, st) for n, v, st in name_stores(m_.node) if n == oname]
    ctx.require(binds and all(v is not None for v, _ in binds), f"{m_.key}: bindings of `{oname}` not understood")
    given, absent = [], []
    for v, st in binds:
        atoms = guard_atoms(lexical_guards(pm, st, stop=m_.node))
        if (f"{inc_p} is None", False) in atoms:
            given.append((v, st))
        elif (f"{inc_p} is None", True) in atoms:
            absent.append((v, st))
        else:
            given.append((v, st))
            absent.append((v, st))
    ctx.require(given, f"{m_.key}: `{oname}` is not bound on the path where an include list is given")
    problems = []
    for v, st in given:
        problems += _complement_problems(ctx, m_, v, table_p, inc_p)
    for v, st in absent:
        if (v, st) in given:
            continue
        empty = (isinstance(v, ast.Call) and call_name(v) in ("set", "frozenset") and not v.args) or \
            (isinstance(v, (ast.Tuple, ast.List, ast.Set)) and not v.elts)
        if not empty:
            problems.append(f"without an include list `{oname}` is `{unparse(v)[:40]}` instead of empty")
    ctx.check(not problems, key6,
              "the set of constraints omitted from CREATE TABLE is not exactly <table>.foreign_key_constraints minus the "
              "include list: " + "; ".join(problems) + ". SchemaGenerator.visit_metadata emits every constraint outside the "
              "include list through ALTER TABLE ADD CONSTRAINT and no other, so the two sides disagree (constraint created "
              "twice, or never)",
              f"`{oname}` = {table_p}.{FKCS} - {inc_p} when a list is given, empty otherwise", f"{m_.module.path}:{binds[0][1].lineno}")


def _complement_problems(ctx, m_, v, table_p, inc_p, depth=0):
    """[] when `v` == <table>.foreign_key_constraints minus <include list>, else reasons"""
    def is_all(e, d=0):
        if _is_fkcs_of(e, table_p):
            return True
        if isinstance(e, ast.Call) and isinstance(e.func, ast.Name) and e.func.id in ("set", "list", "frozenset", "tuple") and len(e.args) == 1:
            return is_all(e.args[0], d)
        if isinstance(e, ast.Name) and d < 3:
            b = [vv for n, vv, st in name_stores(m_.node) if n == e.id]
            return bool(b) and all(vv is not None and is_all(vv, d + 1) for vv in b)
        return False

    def is_inc(e):
        if isinstance(e, ast.Name) and e.id == inc_p:
            return True
        return isinstance(e, ast.Call) and isinstance(e.func, ast.Name) and e.func.id in ("set", "list", "frozenset", "tuple") \
            and len(e.args) == 1 and is_inc(e.args[0])

    if depth > 3:
        return [f"`{unparse(v)[:40]}` not understood"]
    if isinstance(v, ast.Call) and isinstance(v.func, ast.Attribute) and v.func.attr == "difference" and len(v.args) == 1:
        out = []
        if not is_all(v.func.value):
            out.append(f"`{unparse(v.func.value)[:40]}` is not all of {table_p}.{FKCS}")
        if not is_inc(v.args[0]):
            out.append(f"`{unparse(v.args[0])[:40]}` is subtracted instead of the include list `{inc_p}`")
        return out
    if isinstance(v, ast.BinOp) and isinstance(v.op, ast.Sub):
        out = []
        if not is_all(v.left):
            out.append(f"`{unparse(v.left)[:40]}` is not all of {table_p}.{FKCS}")
        if not is_inc(v.right):
            out.append(f"`{unparse(v.right)[:40]}` is subtracted instead of the include list `{inc_p}`")
        return out
    if isinstance(v, (ast.SetComp, ast.ListComp, ast.GeneratorExp)) and len(v.generators) == 1 \
            and isinstance(v.elt, ast.Name) and isinstance(v.generators[0].target, ast.Name) and v.elt.id == v.generators[0].target.id:
        gen = v.generators[0]
        cv = gen.target.id
        atoms = [a for t in gen.ifs for a in test_atoms(t, True)]
        member = (f"{cv} in {inc_p}", False)
        if is_all(gen.iter):
            extra = [a for a in atoms if a != member]
            out = []
            if member not in atoms:
                out.append(f"no `{cv} not in {inc_p}` filter")
            if extra:
                out.append("a constraint outside the include list is omitted only when `"
                           + " and ".join(t if p else f"not ({t})" for t, p in extra) + "`, otherwise it is still rendered inline")
            return out
        inner = _complement_problems(ctx, m_, gen.iter, table_p, inc_p, depth + 1)
        if atoms:
            inner = inner + ["a constraint outside the include list is omitted only when `"
                             + " and ".join(t if p else f"not ({t})" for t, p in atoms) + "`, otherwise it is still rendered inline"]
        return inner
    if isinstance(v, ast.Call) and isinstance(v.func, ast.Name) and v.func.id in ("set", "frozenset", "list") and len(v.args) == 1:
        return _complement_problems(ctx, m_, v.args[0], table_p, inc_p, depth + 1)
    if isinstance(v, ast.Name):
        b = [vv for n, vv, st in name_stores(m_.node) if n == v.id]
        if len(b) == 1 and b[0] is not None:
            return _complement_problems(ctx, m_, b[0], table_p, inc_p, depth + 1)
    ctx.require(False, f"{m_.key}: omitted set `{unparse(v)[:60]}` not understood")


# ------------------------------------------------------------------ R6 / R7 (str2-f, round-2 seeds C14/3, C14/4)
VISITORS = ("SchemaGenerator", "SchemaDropper")


def _emission_stmts(fn):
    """statements of a visit_* method that run a DDL element (`<element>._invoke_with(<connection>)`)"""
    pm = fn.module.parents()
    out = []
    for c in calls_in(fn.node):
        if isinstance(c.func, ast.Attribute) and c.func.attr == "_invoke_with":
            st = enclosing_stmt(pm, c)
            if not any(st is x for x in out):
                out.append(st)
    return out


def _self_calls(test, arg_names):
    """[(method name, call)] for calls `self.M(<x>)` in `test` whose single argument mentions one of `arg_names`"""
    out = []
    for n in ast.walk(test):
        if isinstance(n, ast.Call) and isinstance(n.func, ast.Attribute) and isinstance(n.func.value, ast.Name) \
                and n.func.value.id == "self" and len(n.args) == 1 and not n.keywords \
                and any(isinstance(x, ast.Name) and x.id in arg_names for x in ast.walk(n.args[0])):
            out.append((n.func.attr, n))
    return out


def _existence_predicate(ctx, cls):
    """Name of the method P such that <cls>.visit_table emits its DDL only under the outcome of a test that calls
    `self.P(<table>)` (the checkfirst / existence test which visit_metadata bypasses with create_ok / drop_ok)."""
    vt = ctx.index.resolve_method(cls, "visit_table")
    ctx.require(vt is not None and len(vt.params) >= 2, f"{cls.key}: no visit_table(self, table, ..)")
    ctx.functions_analysed.add(vt.key)
    g = ctx.cfg(vt)
    emits = _emission_stmts(vt)
    ctx.require(emits, f"{vt.key} runs no DDL element")
    defs = once_bound(vt.node)
    preds = set()
    for t, _pol in cfg_guards(g, emits[0]):
        for m_, _c in _self_calls(expand(t, defs), {vt.params[1]}):
            preds.add(m_)
    ctx.require(len(preds) == 1, f"{vt.key}: expected one `self.<existence test>({vt.params[1]})` guarding the emission, found {sorted(preds)}")
    return next(iter(preds)), vt


def _unwrap_order_copy(e):
    while isinstance(e, ast.Call) and isinstance(e.func, ast.Name) and e.func.id in ("list", "tuple", "sorted", "reversed", "iter") \
            and len(e.args) >= 1:
        e = e.args[0]
    return e


def _filtered_by(ctx, fn, expr, pred, depth=0):
    """Has every element of the collection `expr` (evaluated in `fn`) passed `self.<pred>(element)`?
    -> (True, how) | (False, what it is) | (None, what is not understood).  The filter may be written as a comprehension
    condition, as `filter(self.P, ..)`, as an append loop under `if self.P(t)` / after `if not self.P(t): continue`,
    through an alias of the bound method, or inside a helper method of the same class whose result is handed on."""
    from . import _helpers_rob_D2 as RD
    if depth > 5:
        return None, "too deep"
    fnode = fn.node
    pm = fn.module.parents()
    defs = RD.single_defs(fnode)
    e = _unwrap_order_copy(RD.strip_cast(expr))

    def passes(test, pol, target):
        t2 = RD.expand(test, defs, pred=lambda v: True)
        return (f"self.{pred}({target})", True) in test_atoms(t2, pol)

    comp = RD._comp_of(e) if not isinstance(e, ast.GeneratorExp) else e
    if isinstance(e, ast.SetComp):
        comp = e
    if comp is not None:
        if len(comp.generators) != 1:
            return None, f"`{unparse(e)[:60]}`"
        gen = comp.generators[0]
        if not (isinstance(gen.target, ast.Name) and isinstance(comp.elt, ast.Name) and comp.elt.id == gen.target.id):
            return None, f"`{unparse(e)[:60]}` does not copy its elements"
        if any(passes(t, True, gen.target.id) for t in gen.ifs):
            return True, f"`{unparse(e)[:70]}`"
        return _filtered_by(ctx, fn, gen.iter, pred, depth + 1)
    if isinstance(e, ast.Call) and isinstance(e.func, ast.Name) and e.func.id == "filter" and len(e.args) == 2:
        f0 = RD.resolve(e.args[0], defs)
        if isinstance(f0, ast.Attribute) and isinstance(f0.value, ast.Name) and f0.value.id == "self" and f0.attr == pred:
            return True, f"`{unparse(e)[:70]}`"
        return _filtered_by(ctx, fn, e.args[1], pred, depth + 1)
    if isinstance(e, ast.Call) and isinstance(e.func, ast.Attribute) and isinstance(e.func.value, ast.Name) and e.func.value.id == "self" \
            and fn.cls is not None:
        h = ctx.index.resolve_method(fn.cls, e.func.attr)
        if h is None:
            return None, f"`{unparse(e)[:60]}`"
        ctx.functions_analysed.add(h.key)
        vr = virtual_return(h.node)
        if vr is None:
            return None, f"helper {h.qualname} has several returns"
        got, how = _filtered_by(ctx, h, vr[1], pred, depth + 1)
        if got is False:
            # the helper hands on one of its arguments: look at what the caller passes
            r = _unwrap_order_copy(vr[1])
            if isinstance(r, ast.Name) and r.id in h.params and not any(n == r.id for n, _v, _s in name_stores(h.node)):
                a = arg_for(e, h, r.id)
                if a is not None:
                    return _filtered_by(ctx, fn, a, pred, depth + 1)
        return got, f"{how} (returned by {h.qualname})"
    if isinstance(e, ast.Name):
        builds = RD.list_builds(fnode, e.id, pm)
        if builds:
            g = ctx.cfg(fn)
            verdicts = []
            for b in builds:
                if b.form == "empty":
                    continue
                if b.form == "comp":
                    verdicts.append(_filtered_by(ctx, fn, b.holder.value, pred, depth + 1))
                elif b.form == "loop":
                    if not (isinstance(b.target, ast.Name) and isinstance(b.elt, ast.Name) and b.elt.id == b.target.id):
                        verdicts.append((None, f"`{b.text()}` does not copy its elements"))
                    elif any(passes(t, p, b.target.id) for t, p in RD.guards_of(g, pm, fnode, b.stmt) + list(b.ifs)):
                        verdicts.append((True, f"`{b.text()[:70]}`"))
                    else:
                        verdicts.append(_filtered_by(ctx, fn, b.iter, pred, depth + 1))
                else:
                    v = getattr(b.holder, "value", None)
                    verdicts.append(_filtered_by(ctx, fn, v, pred, depth + 1) if v is not None else (None, f"binding of `{e.id}`"))
            if verdicts:
                for want in (False, None):
                    hit = [v for v in verdicts if v[0] is want]
                    if hit:
                        return hit[0]
                return verdicts[0]
        if e.id in RD.params_of(fnode):
            return False, f"`{e.id}` (parameter of {fn.qualname}, as received)"
        if e.id in defs:
            return _filtered_by(ctx, fn, defs[e.id], pred, depth + 1)
        return None, f"bindings of `{e.id}` in {fn.qualname}"
    if isinstance(e, ast.Attribute) and isinstance(e.value, ast.Name) and e.value.id == "self" and fn.cls is not None:
        # an instance attribute: what is stored there (in this method, else anywhere in the class hierarchy)
        d = f"self.{e.attr}"
        holders = [fn] + [m2 for k in ctx.index.mro(fn.cls) if k is not None for m2 in k.methods.values() if m2 is not fn]
        verdicts = []
        for h in holders:
            vals = [getattr(st, "value", None) for dd, _t, st in attr_stores(h.node) if dd == d]
            for v in vals:
                verdicts.append(_filtered_by(ctx, h, v, pred, depth + 1) if v is not None else (None, f"store to `{d}`"))
            if vals and h is fn:
                break
        if not verdicts:
            return None, f"`{d}` is never stored"
        for want in (False, None):
            hit = [v for v in verdicts if v[0] is want]
            if hit:
                return hit[0][0], f"`{d}` ({hit[0][1]})"
        return True, f"`{d}` ({verdicts[0][1]})"
    if isinstance(e, (ast.Attribute, ast.Subscript, ast.List, ast.Tuple)) or isinstance(e, ast.Call):
        return False, f"`{unparse(e)[:70]}`"
    return None, f"`{unparse(e)[:60]}`"


@R.rule("C14-R6", floor=2, template="T-FLOW (the existence filter dominates the sort)",
        desc="create_all / drop_all with checkfirst: visit_metadata bypasses the existence test of visit_table (create_ok / "
             "drop_ok), so every table it hands to sort_tables_and_constraints must have passed that test BEFORE the sort -- "
             "the (None, constraints) entry of the result holds the ALTER-emitted constraints of every table that was "
             "sorted, and dropping table entries afterwards does not remove them (or the constraints of that entry are "
             "filtered by the same test on their table)")
def r6(ctx):
    stc = ctx.func(STC)
    for cname in VISITORS:
        cls = ctx.index.cls(f"{DDL}::{cname}")
        vm = ctx.func(f"{DDL}::{cname}.visit_metadata")
        pm = vm.module.parents()
        pred, vt = _existence_predicate(ctx, cls)
        sorts = [c for c in calls_in(vm.node, into_nested=True) if (call_name(c) or "").rsplit(".", 1)[-1] == stc.name]
        ctx.require(sorts, f"{vm.key} does not call {stc.name}")
        g = ctx.cfg(vm)
        for key, c in ordinal_keys(sorts, lambda c: f"{vm.key}:existence-filter-dominates-sort"):
            a = arg_for(c, stc, stc.params[0])
            ctx.require(a is not None, f"{vm.key}: {stc.name} called without tables")
            got, how = _filtered_by(ctx, vm, a, pred)
            if got:
                ctx.ok(key, f"tables handed to the sort: {how} -- all passed `self.{pred}`")
                continue
            # alternative: the constraints of the (None, ..) entry are emitted only for tables that pass the test
            late = False
            for c2 in calls_in(vm.node):
                if not (call_name(c2) or "").endswith("traverse_single") or not c2.args or not isinstance(c2.args[0], ast.Name):
                    continue
                cv = c2.args[0].id
                for t, p in list(cfg_guards(g, enclosing_stmt(pm, c2))) + list(comp_guards(pm, c2)):
                    for m_, call_ in _self_calls(expand(t, once_bound(vm.node)), {cv}):
                        if m_ == pred and (unparse(call_), True) in test_atoms(expand(t, once_bound(vm.node)), p):
                            late = True
            if late:
                ctx.ok(key, f"the sort receives {how}, but deferred constraints are emitted only when `self.{pred}(<their table>)`")
                continue
            ctx.require(got is False, f"{vm.key}: cannot tell whether the tables handed to {stc.name} passed `self.{pred}` ({how})")
            ctx.violation(key,
                          f"{cname}.visit_metadata hands {how} to {stc.name} without `self.{pred}(<table>)` having been applied to "
                          f"it first: {vt.qualname} applies that existence test only when called on its own (visit_metadata "
                          f"bypasses it), and filtering the sorted (table, constraints) entries afterwards leaves the trailing "
                          f"(None, constraints) entry untouched -- it then contains the use_alter / cycle-breaking constraints of "
                          f"tables that were filtered out, and ALTER TABLE .. {'ADD' if cname == VISITORS[0] else 'DROP'} CONSTRAINT is "
                          f"emitted for tables that are not being {'created (they already exist)' if cname == VISITORS[0] else 'dropped (they do not exist)'}",
                          f"{vm.module.path}:{c.lineno}")


TRUE_, FALSE_ = ("and", []), ("or", [])


def _inline_simple_methods(ctx, cls, test, depth=2):
    """copy of `test` with calls `self.M(args)` of one-expression methods (`def M(self, p..): return <expr>`) replaced by
    that expression (arguments substituted): a predicate extracted into a helper reads like the inlined predicate"""
    import copy
    if cls is None:
        return test

    class T(ast.NodeTransformer):
        def visit_Call(self, n):
            self.generic_visit(n)
            if isinstance(n.func, ast.Attribute) and isinstance(n.func.value, ast.Name) and n.func.value.id == "self" and not n.keywords:
                h = ctx.index.resolve_method(cls, n.func.attr)
                if h is None:
                    return n
                body = [s for s in h.node.body if not (isinstance(s, ast.Expr) and isinstance(s.value, ast.Constant))]
                ps = [p_ for p_ in h.params if p_ != "self"]
                if len(body) == 1 and isinstance(body[0], ast.Return) and body[0].value is not None and len(ps) == len(n.args) \
                        and not any(isinstance(a, ast.Starred) for a in n.args):
                    ctx.functions_analysed.add(h.key)
                    return _subst(body[0].value, dict(zip(ps, n.args)))
            return n

    cur = copy.deepcopy(test)
    for _ in range(depth):
        cur = ast.fix_missing_locations(T().visit(cur))
    return cur


def _returns_false_formula(ctx, cls, fexpr, scope_defs):
    """Propositional formula (over normalised atoms, the constraint parameter renamed) of `<filter>(constraint) is False`
    for the filter function `fexpr`: a lambda, a local def, or None; None when not understood."""
    from ._helpers_rob_e1 import _formula

    def norm(t, cparam, defs):
        return _subst(expand(_inline_simple_methods(ctx, cls, t), defs), {cparam: C_})

    def of_value(v, cparam, defs):
        if isinstance(v, ast.Constant):
            return TRUE_ if v.value is False else FALSE_
        if isinstance(v, ast.IfExp):
            t = _formula(norm(v.test, cparam, defs))
            a, b = of_value(v.body, cparam, defs), of_value(v.orelse, cparam, defs)
            if a is None or b is None:
                return None
            return ("or", [("and", [t, a]), ("and", [("not", t), b])])
        return None

    if fexpr is None or (isinstance(fexpr, ast.Constant) and fexpr.value is None):
        return FALSE_
    if isinstance(fexpr, ast.Lambda):
        ps = [a.arg for a in fexpr.args.args]
        if len(ps) != 1:
            return None
        return of_value(fexpr.body, ps[0], scope_defs)
    if isinstance(fexpr, (ast.FunctionDef,)):
        ps = [a.arg for a in fexpr.args.args if a.arg != "self"]
        if len(ps) != 1:
            return None
        from ..cfg import CFG
        g = CFG(fexpr)
        alts = []
        defs = dict(scope_defs)
        defs.update(once_bound(fexpr))
        for r in [n for n in walk_local(fexpr) if isinstance(n, ast.Return)]:
            v = of_value(r.value, ps[0], defs) if r.value is not None else FALSE_
            if v is None:
                return None
            conj = [v]
            for t, p in cfg_guards(g, r):
                fm = _formula(norm(t, ps[0], defs))
                conj.append(fm if p else ("not", fm))
            alts.append(("and", conj))
        return ("or", alts)
    return None


def _counterexample(premise, alternatives):
    """valuation of the atoms (independent propositions) with `premise` true and every formula of `alternatives` false"""
    from ._helpers_rob_e1 import _atoms_of, _eval_formula
    names = set()
    for fm in [premise] + list(alternatives):
        _atoms_of(fm, names)
    names = sorted(names)
    if len(names) > 12:
        return None, names
    for bits in range(1 << len(names)):
        val = {n: bool(bits >> i & 1) for i, n in enumerate(names)}
        if _eval_formula(premise, val) and not any(_eval_formula(fm, val) for fm in alternatives):
            return val, names
    return None, names


@R.rule("C14-R7", floor=2, template="T-SIBLING (emit-time skip <=> ordering pair kept)",
        desc="a foreign key constraint that visit_foreign_key_constraint will NOT emit through ALTER TABLE (its early-exit "
             "condition) must not lose its ordering pair in the sort of the same visitor: under that condition the "
             "filter_fn handed to sort_tables_and_constraints returns False (the constraint is never deferred), or the "
             "visitor's visit_table renders every constraint inline (the no-ALTER fallback)")
def r7(ctx):
    from ._helpers_rob_e1 import _atoms_of, _formula
    stc = ctx.func(STC)
    # the filter parameter: the parameter of the sort that is called on a constraint
    fparams = [p_ for p_ in stc.params if any(isinstance(c.func, ast.Name) and c.func.id == p_ for c in calls_in(stc.node))]
    ctx.require(len(fparams) == 1, f"{stc.name}: expected one callable filter parameter, found {fparams}")
    fparam = fparams[0]
    for cname in VISITORS:
        cls = ctx.index.cls(f"{DDL}::{cname}")
        vm = ctx.func(f"{DDL}::{cname}.visit_metadata")
        vf = ctx.index.resolve_method(cls, "visit_foreign_key_constraint")
        ctx.require(vf is not None and len(vf.params) >= 2, f"{cls.key}: no visit_foreign_key_constraint(self, constraint)")
        ctx.functions_analysed.add(vf.key)
        key = f"{vf.key}:skipped-constraint-keeps-ordering"
        # S: the emitter does not emit
        gf = ctx.cfg(vf)
        emits = _emission_stmts(vf)
        ctx.require(emits, f"{vf.key} runs no DDL element")
        fdefs = once_bound(vf.node)
        cparam = vf.params[1]
        conj = []
        for t, p in cfg_guards(gf, emits[0]):
            fm = _formula(_subst(expand(_inline_simple_methods(ctx, vf.cls, t), fdefs), {cparam: C_}))
            conj.append(fm if p else ("not", fm))
        skip = ("not", ("and", conj))
        # F: the filter keeps the ordering pair
        sorts = [c for c in calls_in(vm.node, into_nested=True) if (call_name(c) or "").rsplit(".", 1)[-1] == stc.name]
        ctx.require(sorts, f"{vm.key} does not call {stc.name}")
        mdefs = once_bound(vm.node)
        keeps = []
        for c in sorts:
            fexpr = arg_for(c, stc, fparam)
            if isinstance(fexpr, ast.Name):
                local = [n for n in walk_local(vm.node, into_nested=True) if isinstance(n, ast.FunctionDef) and n.name == fexpr.id]
                fexpr = local[0] if len(local) == 1 else mdefs.get(fexpr.id, fexpr)
            elif isinstance(fexpr, ast.Attribute) and isinstance(fexpr.value, ast.Name) and fexpr.value.id == "self":
                h = ctx.index.resolve_method(cls, fexpr.attr)
                fexpr = h.node if h is not None else fexpr
            fm = _returns_false_formula(ctx, cls, fexpr, mdefs)
            ctx.require(fm is not None, f"{vm.key}: the {fparam} handed to {stc.name} (`{unparse(fexpr)[:60] if isinstance(fexpr, ast.expr) else '<def>'}`) is not understood")
            keeps.append(fm)
        # I: visit_table renders everything inline (include list reset to None)
        vt = ctx.index.resolve_method(cls, "visit_table")
        inline = []
        if vt is not None and INCLUDE_KW in vt.params:
            for atoms in _only_rebound_to_none_under(ctx, vt, INCLUDE_KW):
                inline.append(("and", [("atom", t) if p else ("not", ("atom", t)) for t, p in atoms
                                       if f"{INCLUDE_KW} is None" not in t]))
        # every sort call must keep the pair (or the inline fallback applies)
        bad = None
        for fm in keeps:
            val, names = _counterexample(skip, [fm] + inline)
            if val is not None:
                bad = (val, names, fm)
                break
        if bad is None:
            ctx.ok(key, f"not emitted only when the ordering pair is kept ({fparam} returns False) or everything is inline: "
                        f"{len(conj)} guard(s), {len(keeps)} sort call(s), {len(inline)} inline fallback(s)")
            continue
        val, names, fm = bad
        s_atoms = set()
        _atoms_of(skip, s_atoms)
        opaque = [n for n in names if "(" in n]
        ctx.require(not opaque, f"{vf.key}: skip condition / {fparam} contain calls that are not understood: {opaque}")
        when = " and ".join((n if val[n] else f"not ({n})") for n in sorted(s_atoms)).replace(C_, cparam)
        ctx.violation(key,
                      f"{vf.qualname} skips the ALTER TABLE statement for a constraint when `{when}`, but for such a constraint the "
                      f"{fparam} that {cname}.visit_metadata hands to {stc.name} does not return False"
                      f"{'' if inline else ' (and nothing else removes the constraint before its table)'}: the sort may take the "
                      f"constraint out of the ordering graph (deferred to the (None, constraints) entry, its (referred table, "
                      f"table) pair dropped) although it will never be emitted -- the tables are then processed in an order that "
                      f"ignores a constraint which is still in place. The skip test of the emitter and the `False` test of the "
                      f"filter must be the same predicate",
                      vf.loc)


# ---------------------------------------------------------------------- self-test battery
R.mutant("fk-pair-swapped", DDL,
         sub("            if dependent_on is not table:\n                mutable_dependencies.add((dependent_on, table))\n",
             "            if dependent_on is not table:\n                mutable_dependencies.add((table, dependent_on))\n"), "C14-R1")
R.mutant("extra-deps-swapped", DDL,
         sub("            (parent, table) for parent in table._extra_dependencies", "            (table, parent) for parent in table._extra_dependencies"), "C14-R1")
R.mutant("select-dep-swapped", DDL,
         sub("                    fixed_dependencies.add((selected_table, table))", "                    fixed_dependencies.add((table, selected_table))"), "C14-R1")
R.mutant("self-reference-not-skipped", DDL,
         sub("            dependent_on = fkc.referred_table\n            if dependent_on is not table:\n                mutable_dependencies.add((dependent_on, table))",
             "            dependent_on = fkc.referred_table\n            if dependent_on is not None:\n                mutable_dependencies.add((dependent_on, table))"), "C14-R1")
R.mutant("handler-takes-parent-end", DDL,
         sub("                table = edge[1]\n", "                table = edge[0]\n"), "C14-R1")
R.mutant("handler-discard-swapped", DDL,
         sub("                        mutable_dependencies.discard((dependent_on, table))", "                        mutable_dependencies.discard((table, dependent_on))"), "C14-R1")
R.mutant("topological-reads-pairs-reversed", TOPO,
         sub("    for parent, child in tuples:\n        edges[child].add(parent)\n\n    todo",
             "    for parent, child in tuples:\n        edges[parent].add(child)\n\n    todo"), "C14-R1")
R.mutant("gen-edges-swapped", TOPO,
         sub("    return {(right, left) for left in edges for right in edges[left]}", "    return {(left, right) for left in edges for right in edges[left]}"), "C14-R1")
R.mutant("dropper-not-reversed", DDL,
         sub("            collection = list(\n                reversed(\n                    sort_tables_and_constraints(\n                        unsorted_tables,\n                        filter_fn=lambda constraint: (\n                            False\n                            if not self.dialect.supports_alter\n                            or constraint.name is None\n                            else None\n                        ),\n                    )\n                )\n            )",
             "            collection = list(\n                sort_tables_and_constraints(\n                    unsorted_tables,\n                    filter_fn=lambda constraint: (\n                        False\n                        if not self.dialect.supports_alter\n                        or constraint.name is None\n                        else None\n                    ),\n                )\n            )"), "C14-R2")
R.mutant("generator-reversed", DDL,
         sub("        collection = sort_tables_and_constraints(\n            [t for t in tables if self._can_create_table(t)]\n        )",
             "        collection = list(reversed(sort_tables_and_constraints(\n            [t for t in tables if self._can_create_table(t)]\n        )))"), "C14-R2")
R.mutant("none-entry-first", DDL,
         sub("    return [\n        (table, table.foreign_key_constraints.difference(remaining_fkcs))\n        for table in candidate_sort\n    ] + [(None, list(remaining_fkcs))]",
             "    return [(None, list(remaining_fkcs))] + [\n        (table, table.foreign_key_constraints.difference(remaining_fkcs))\n        for table in candidate_sort\n    ]"), "C14-R2")
R.mutant("generator-drops-deferred-constraints", DDL,
         sub("                        _is_metadata_operation=True,\n                    )\n                else:\n                    for fkc in fkcs:\n                        self.traverse_single(fkc)\n\n    def visit_table(\n        self,\n        table,\n        create_ok=False,",
             "                        _is_metadata_operation=True,\n                    )\n\n    def visit_table(\n        self,\n        table,\n        create_ok=False,"), "C14-R2")
R.mutant("result-through-set", DDL,
         sub("        for table in candidate_sort\n    ] + [(None, list(remaining_fkcs))]", "        for table in set(candidate_sort)\n    ] + [(None, list(remaining_fkcs))]"), "C14-R2")
R.mutant("create-all-from-set", DDL,
         sub("        collection = sort_tables_and_constraints(\n            [t for t in tables if self._can_create_table(t)]\n        )",
             "        collection = sort_tables_and_constraints(\n            {t for t in tables if self._can_create_table(t)}\n        )"), "C14-R3")
R.mutant("effective-tables-from-set", DDL,
         sub("            self._effective_tables = list(metadata.tables.values())", "            self._effective_tables = set(metadata.tables.values())"), "C14-R3")
R.mutant("sorted-tables-from-set", "sql/schema.py",
         sub("            sorted(self.tables.values(), key=lambda t: t.key)  # type: ignore[attr-defined]  # noqa: E501",
             "            set(self.tables.values())"), "C14-R3")
R.mutant("sort-receives-set", DDL,
         sub("                fixed_dependencies.union(mutable_dependencies),\n                tables,\n            )\n        )\n    except",
             "                fixed_dependencies.union(mutable_dependencies),\n                set(tables),\n            )\n        )\n    except"), "C14-R3")
# R4
def _seed_one_constraint_per_pair(src: str) -> str:
    """essence of seeded change C14/1: the handler defers the ONE constraint remembered per dependency pair"""
    from ..report import MutantNotApplicable
    edits = [
        ("    remaining_fkcs = set()\n    for table in tables:\n",
         "    remaining_fkcs = set()\n    fkc_for_pair = {}\n    for table in tables:\n"),
        ("            if dependent_on is not table:\n                mutable_dependencies.add((dependent_on, table))\n\n",
         "            if dependent_on is not table:\n                mutable_dependencies.add((dependent_on, table))\n"
         "                fkc_for_pair[(dependent_on, table)] = fkc\n\n"),
        ("                can_remove = [\n                    fkc\n                    for fkc in table.foreign_key_constraints\n"
         "                    if filter_fn is None or filter_fn(fkc) is not False\n                ]\n"
         "                remaining_fkcs.update(can_remove)\n                for fkc in can_remove:\n"
         "                    dependent_on = fkc.referred_table\n                    if dependent_on is not table:\n"
         "                        mutable_dependencies.discard((dependent_on, table))\n",
         "                fkc = fkc_for_pair[edge]\n                if filter_fn is None or filter_fn(fkc) is not False:\n"
         "                    remaining_fkcs.add(fkc)\n                    mutable_dependencies.discard(edge)\n"),
    ]
    for old, new in edits:
        if src.count(old) != 1:
            raise MutantNotApplicable("anchor text not found")
        src = src.replace(old, new)
    return src


def _benign_constraints_indexed_per_pair(src: str) -> str:
    """behaviour-preserving neighbour of C14/1: ALL constraints are indexed per pair and the handler defers every
    member of the index entry"""
    from ..report import MutantNotApplicable
    edits = [
        ("    remaining_fkcs = set()\n    for table in tables:\n",
         "    remaining_fkcs = set()\n    fkcs_for_pair = {}\n    for table in tables:\n"),
        ("            if dependent_on is not table:\n                mutable_dependencies.add((dependent_on, table))\n\n",
         "            if dependent_on is not table:\n                mutable_dependencies.add((dependent_on, table))\n"
         "                fkcs_for_pair.setdefault((dependent_on, table), []).append(fkc)\n\n"),
        ("                can_remove = [\n                    fkc\n                    for fkc in table.foreign_key_constraints\n"
         "                    if filter_fn is None or filter_fn(fkc) is not False\n                ]\n"
         "                remaining_fkcs.update(can_remove)\n                for fkc in can_remove:\n"
         "                    dependent_on = fkc.referred_table\n                    if dependent_on is not table:\n"
         "                        mutable_dependencies.discard((dependent_on, table))\n",
         "                members = fkcs_for_pair[edge]\n"
         "                if all(filter_fn is None or filter_fn(fkc) is not False for fkc in members):\n"
         "                    remaining_fkcs.update(members)\n                    mutable_dependencies.discard(edge)\n"),
    ]
    for old, new in edits:
        if src.count(old) != 1:
            raise MutantNotApplicable("anchor text not found")
        src = src.replace(old, new)
    return src


R.mutant("handler-defers-one-constraint-per-pair", DDL, _seed_one_constraint_per_pair, "C14-R4")
R.mutant("use-alter-constraint-not-deferred", DDL,
         sub("            if fkc.use_alter is True:\n                remaining_fkcs.add(fkc)\n                continue\n",
             "            if fkc.use_alter is True:\n                continue\n"), "C14-R4")
R.mutant("filtered-constraint-not-deferred", DDL,
         sub("                if filtered is True:\n                    remaining_fkcs.add(fkc)\n                    continue\n",
             "                if filtered is True:\n                    continue\n"), "C14-R4")
R.mutant("handler-discards-pairs-of-all-constraints", DDL,
         sub("                for fkc in can_remove:\n                    dependent_on = fkc.referred_table\n",
             "                for fkc in table.foreign_key_constraints:\n                    dependent_on = fkc.referred_table\n"), "C14-R4")
R.mutant("result-inline-list-keeps-deferred", DDL,
         sub("        (table, table.foreign_key_constraints.difference(remaining_fkcs))\n", "        (table, set(table.foreign_key_constraints))\n"), "C14-R4")
R.mutant("benign-handler-indexes-all-constraints-per-pair", DDL, _benign_constraints_indexed_per_pair, None)
R.mutant("benign-handler-defers-in-loop", DDL,
         sub("                remaining_fkcs.update(can_remove)\n                for fkc in can_remove:\n                    dependent_on = fkc.referred_table\n",
             "                for fkc in can_remove:\n                    remaining_fkcs.add(fkc)\n                    dependent_on = fkc.referred_table\n"), None)
R.mutant("benign-rename-can-remove", DDL,
         lambda src: src.replace("can_remove", "deferrable") if "can_remove" in src else src, None)
# R5
R.mutant("self-referential-fk-never-omitted", COMPILER,
         sub("            omit_fkcs = all_fkcs.difference(_include_foreign_key_constraints)\n",
             "            omit_fkcs = {\n                fkc\n                for fkc in all_fkcs.difference(_include_foreign_key_constraints)\n"
             "                if fkc.referred_table is not table\n            }\n"), "C14-R5")
R.mutant("omit-only-named-constraints", COMPILER,
         sub("            omit_fkcs = all_fkcs.difference(_include_foreign_key_constraints)\n",
             "            omit_fkcs = {c for c in all_fkcs if c not in _include_foreign_key_constraints and c.name is not None}\n"), "C14-R5")
R.mutant("omitted-set-not-consulted", COMPILER,
         sub("                if c is not table.primary_key and c not in omit_fkcs\n", "                if c is not table.primary_key\n"), "C14-R5")
R.mutant("visit-metadata-drops-include-list", DDL,
         sub("                        create_ok=True,\n                        include_foreign_key_constraints=fkcs,\n", "                        create_ok=True,\n"), "C14-R5")
R.mutant("fallback-guard-flipped", DDL,
         sub("            if not self.dialect.supports_alter:\n                # e.g., don't omit any foreign key constraints\n",
             "            if self.dialect.supports_alter:\n                # e.g., don't omit any foreign key constraints\n"), "C14-R5")
R.mutant("alter-emitter-ignores-supports-alter", DDL,
         sub("    def visit_foreign_key_constraint(self, constraint):\n        if not self.dialect.supports_alter:\n            return\n\n        with self.with_ddl_events(constraint):\n            AddConstraint(",
             "    def visit_foreign_key_constraint(self, constraint):\n        with self.with_ddl_events(constraint):\n            AddConstraint("), "C14-R5")
R.mutant("create-table-forgets-include-list", DDL,
         sub("        self.include_foreign_key_constraints = include_foreign_key_constraints\n", "        self.include_foreign_key_constraints = None\n"), "C14-R5")
R.mutant("compiler-ignores-include-list", COMPILER,
         sub("            _include_foreign_key_constraints=create.include_foreign_key_constraints,  # noqa\n",
             "            _include_foreign_key_constraints=None,\n"), "C14-R5")
R.mutant("benign-omit-by-set-subtraction", COMPILER,
         sub("            omit_fkcs = all_fkcs.difference(_include_foreign_key_constraints)\n",
             "            omit_fkcs = set(all_fkcs) - set(_include_foreign_key_constraints)\n"), None)
R.mutant("benign-omit-by-comprehension", COMPILER,
         sub("            omit_fkcs = all_fkcs.difference(_include_foreign_key_constraints)\n",
             "            omit_fkcs = {c for c in all_fkcs if c not in _include_foreign_key_constraints}\n"), None)
# benign
R.mutant("benign-rename-dependent-on", DDL,
         sub("            dependent_on = fkc.referred_table\n            if dependent_on is not table:\n                mutable_dependencies.add((dependent_on, table))",
             "            referred = fkc.referred_table\n            if referred is not table:\n                mutable_dependencies.add((referred, table))"), None)
R.mutant("benign-reorder-set-init", DDL,
         sub("    fixed_dependencies = set()\n    mutable_dependencies = set()\n", "    mutable_dependencies = set()\n    fixed_dependencies = set()\n"), None)
R.mutant("benign-generator-logging", DDL,
         sub("        event_collection = [t for (t, fks) in collection if t is not None]\n\n        with self.with_ddl_events(\n            metadata,\n            tables=event_collection,\n            checkfirst=self.checkfirst,\n        ):\n            for seq in seq_coll:",
             "        event_collection = [t for (t, fks) in collection if t is not None]\n        _n = len(event_collection)\n\n        with self.with_ddl_events(\n            metadata,\n            tables=event_collection,\n            checkfirst=self.checkfirst,\n        ):\n            for seq in seq_coll:"), None)
R.mutant("benign-generator-list-copy", DDL,
         sub("        collection = sort_tables_and_constraints(\n            [t for t in tables if self._can_create_table(t)]\n        )",
             "        creatable = [t for t in tables if self._can_create_table(t)]\n        collection = list(sort_tables_and_constraints(creatable))"), None)

# ---- rob-E1: benign families (stored refactors rfB_1, rfE_4..6, rfE_10..12 and further variants of the same spirit)
_TOPO_EMIT_LOOP = ("        output = []\n        for node in todo:\n            if todo_set.isdisjoint(edges[node]):\n"
                   "                output.append(node)\n")
R.mutant("benign-e1-topo-ready-comprehension", TOPO,
         sub(_TOPO_EMIT_LOOP, "        output = [node for node in todo if todo_set.isdisjoint(edges[node])]\n"), None)
R.mutant("benign-e1-topo-ready-flag-local", TOPO,
         sub(_TOPO_EMIT_LOOP, "        output = []\n        for node in todo:\n            waiting_for = edges[node]\n"
                              "            ready = todo_set.isdisjoint(waiting_for)\n            if not ready:\n                continue\n"
                              "            output.append(node)\n"), None)
R.mutant("benign-e1-gen-edges-loop", TOPO,
         sub("    return {(right, left) for left in edges for right in edges[left]}",
             "    result = set()\n    for dependent, dependencies in edges.items():\n        for dependency in dependencies:\n"
             "            result.add((dependency, dependent))\n    return result"), None)
R.mutant("benign-e1-topo-edges-setdefault", TOPO,
         sub("    edges: DefaultDict[_T, Set[_T]] = util.defaultdict(set)\n    for parent, child in tuples:\n        edges[child].add(parent)\n",
             "    edges: DefaultDict[_T, Set[_T]] = util.defaultdict(set)\n    for pair in tuples:\n        prerequisite, dependent = pair\n"
             "        edges[dependent] |= {prerequisite}\n"), None)
R.mutant("topological-emits-in-item-order", TOPO,
         sub("            if todo_set.isdisjoint(edges[node]):\n", "            if todo_set.isdisjoint(edges[None]):\n"), "C14-R1")
_MAIN_PAIR = ("                    continue\n\n            dependent_on = fkc.referred_table\n            if dependent_on is not table:\n"
              "                mutable_dependencies.add((dependent_on, table))\n")
R.mutant("benign-e1-self-reference-early-continue", DDL,
         sub(_MAIN_PAIR, "                    continue\n\n            dependent_on = fkc.referred_table\n            if dependent_on is table:\n"
                         "                continue\n            mutable_dependencies.add((dependent_on, table))\n"), None)
R.mutant("benign-e1-pair-through-local", DDL,
         sub(_MAIN_PAIR, "                    continue\n\n            dependent_on = fkc.referred_table\n            if dependent_on is not table:\n"
                         "                ordering_pair = (dependent_on, table)\n                mutable_dependencies.add(ordering_pair)\n"), None)
R.mutant("self-reference-early-continue-wrong-test", DDL,
         sub(_MAIN_PAIR, "                    continue\n\n            dependent_on = fkc.referred_table\n            if dependent_on is None:\n"
                         "                continue\n            mutable_dependencies.add((dependent_on, table))\n"), "C14-R1")
_FIRST_SORT = ("    try:\n        candidate_sort = list(\n            topological.sort(\n"
               "                fixed_dependencies.union(mutable_dependencies),\n                tables,\n            )\n        )\n")
R.mutant("benign-e1-all-dependencies-local", DDL,
         sub(_FIRST_SORT, "    try:\n        all_dependencies = fixed_dependencies | mutable_dependencies\n"
                          "        candidate_sort = list(topological.sort(all_dependencies, tables))\n"), None)
R.mutant("benign-e1-handler-unpacks-edge", DDL,
         sub("                table = edge[1]\n", "                _referred, table = edge\n"), None)
R.mutant("handler-unpacks-edge-swapped", DDL,
         sub("                table = edge[1]\n", "                table, _referred = edge\n"), "C14-R1")
_RESULT = ("    return [\n        (table, table.foreign_key_constraints.difference(remaining_fkcs))\n        for table in candidate_sort\n"
           "    ] + [(None, list(remaining_fkcs))]")
R.mutant("benign-e1-result-built-in-steps", DDL,
         sub(_RESULT, "    result = [\n        (table, table.foreign_key_constraints.difference(remaining_fkcs))\n        for table in candidate_sort\n"
                      "    ]\n    result.append((None, list(remaining_fkcs)))\n    return result"), None)
R.mutant("result-steps-none-entry-first", DDL,
         sub(_RESULT, "    result = [(None, list(remaining_fkcs))]\n    result.extend(\n        (table, table.foreign_key_constraints.difference(remaining_fkcs))\n"
                      "        for table in candidate_sort\n    )\n    return result"), "C14-R2")
_GEN_EMIT = ("                if table is not None:\n                    self.traverse_single(\n                        table,\n"
             "                        create_ok=True,\n                        include_foreign_key_constraints=fkcs,\n"
             "                        _is_metadata_operation=True,\n                    )\n                else:\n"
             "                    for fkc in fkcs:\n                        self.traverse_single(fkc)\n")
R.mutant("benign-e1-generator-early-continue", DDL,
         sub(_GEN_EMIT, "                if table is None:\n                    for fkc in fkcs:\n                        self.traverse_single(fkc)\n"
                        "                    continue\n                self.traverse_single(\n                    table,\n"
                        "                    create_ok=True,\n                    include_foreign_key_constraints=fkcs,\n"
                        "                    _is_metadata_operation=True,\n                )\n"), None)
R.mutant("generator-early-continue-drops-constraints", DDL,
         sub(_GEN_EMIT, "                if table is None:\n                    continue\n                self.traverse_single(\n                    table,\n"
                        "                    create_ok=True,\n                    include_foreign_key_constraints=fkcs,\n"
                        "                    _is_metadata_operation=True,\n                )\n"), "C14-R2")
R.mutant("benign-e1-visit-table-dialect-alias", DDL,
         sub("            if not self.dialect.supports_alter:\n                # e.g., don't omit any foreign key constraints\n"
             "                include_foreign_key_constraints = None\n",
             "            dialect = self.dialect\n            if not dialect.supports_alter:\n"
             "                include_foreign_key_constraints = None\n"), None)
R.mutant("benign-e1-alter-emitter-positive-guard", DDL,
         sub("    def visit_foreign_key_constraint(self, constraint):\n        if not self.dialect.supports_alter:\n            return\n\n"
             "        with self.with_ddl_events(constraint):\n            AddConstraint(constraint, isolate_from_table=True)._invoke_with(\n"
             "                self.connection\n            )\n",
             "    def visit_foreign_key_constraint(self, constraint):\n        can_alter = self.dialect.supports_alter\n        if can_alter:\n"
             "            with self.with_ddl_events(constraint):\n                AddConstraint(\n                    constraint, isolate_from_table=True\n"
             "                )._invoke_with(self.connection)\n"), None)

_SKIPS = ("            if fkc.use_alter is True:\n                remaining_fkcs.add(fkc)\n                continue\n\n"
          "            if filter_fn:\n                filtered = filter_fn(fkc)\n\n                if filtered is True:\n"
          "                    remaining_fkcs.add(fkc)\n                    continue\n\n"
          "            dependent_on = fkc.referred_table\n            if dependent_on is not table:\n"
          "                mutable_dependencies.add((dependent_on, table))\n")
R.mutant("benign-e1-deferral-as-else-chain", DDL,
         sub(_SKIPS, "            if fkc.use_alter is True:\n                remaining_fkcs.add(fkc)\n"
                     "            elif filter_fn and filter_fn(fkc) is True:\n                remaining_fkcs.add(fkc)\n"
                     "            else:\n                dependent_on = fkc.referred_table\n                if dependent_on is not table:\n"
                     "                    mutable_dependencies.add((dependent_on, table))\n"), None)
R.mutant("else-chain-filtered-constraint-dropped", DDL,
         sub(_SKIPS, "            if fkc.use_alter is True:\n                remaining_fkcs.add(fkc)\n"
                     "            elif filter_fn and filter_fn(fkc) is True:\n                pass\n"
                     "            else:\n                dependent_on = fkc.referred_table\n                if dependent_on is not table:\n"
                     "                    mutable_dependencies.add((dependent_on, table))\n"), "C14-R4")

# ---- str2-f (round 2): seeds C14/3 (sort before the existence filter) and C14/4 (emit-time skip without ordering pair)
_GEN_SORT = ("        collection = sort_tables_and_constraints(\n            [t for t in tables if self._can_create_table(t)]\n        )\n")
_DROP_UNSORTED = "            unsorted_tables = [t for t in tables if self._can_drop_table(t)]\n"
_DROP_FILTER = ("                        filter_fn=lambda constraint: (\n                            False\n"
                "                            if not self.dialect.supports_alter\n                            or constraint.name is None\n"
                "                            else None\n                        ),\n")
_DROP_EMIT = ("    def visit_foreign_key_constraint(self, constraint):\n        if not self.dialect.supports_alter:\n            return\n"
              "        with self.with_ddl_events(constraint):\n            DropConstraint(constraint)._invoke_with(self.connection)\n")
_GEN_EMIT_FK = ("    def visit_foreign_key_constraint(self, constraint):\n        if not self.dialect.supports_alter:\n            return\n\n"
                "        with self.with_ddl_events(constraint):\n            AddConstraint(")
R.mutant("seed3-generator-sorts-all-tables-then-filters-entries", DDL,
         sub(_GEN_SORT, "        collection = [\n            (t, fkcs)\n            for (t, fkcs) in sort_tables_and_constraints(tables)\n"
                        "            if t is None or self._can_create_table(t)\n        ]\n"), "C14-R6")
R.mutant("dropper-sorts-tables-that-do-not-exist", DDL, sub(_DROP_UNSORTED, "            unsorted_tables = list(tables)\n"), "C14-R6")
R.mutant("generator-existence-filter-negated", DDL,
         sub(_GEN_SORT, "        collection = sort_tables_and_constraints(\n            [t for t in tables if not self._can_create_table(t)]\n        )\n"),
         "C14-R6")
R.mutant("benign-s2f-creatable-tables-by-append-loop-with-continue", DDL,
         sub(_GEN_SORT, "        creatable = []\n        for t in tables:\n            if not self._can_create_table(t):\n                continue\n"
                        "            creatable.append(t)\n        collection = sort_tables_and_constraints(creatable)\n"), None)
R.mutant("benign-s2f-existence-test-alias-and-entrywise-copy-of-the-sort", DDL,
         sub(_GEN_SORT, "        can_create = self._can_create_table\n        collection = [\n            (t, fkcs)\n"
                        "            for (t, fkcs) in sort_tables_and_constraints(\n                [t for t in tables if can_create(t)]\n"
                        "            )\n        ]\n"), None)
R.mutant("benign-s2f-creatable-tables-from-helper-method", DDL,
         sub("    def visit_metadata(self, metadata):\n        tables = self._update_effective_tables(metadata)\n\n" + _GEN_SORT,
             "    def _creatable(self, candidates):\n        return [t for t in candidates if self._can_create_table(t)]\n\n"
             "    def visit_metadata(self, metadata):\n        tables = self._update_effective_tables(metadata)\n\n"
             "        collection = sort_tables_and_constraints(self._creatable(tables))\n"), None)
R.mutant("benign-s2f-droppable-tables-test-bound-to-a-local-first", DDL,
         sub(_DROP_UNSORTED, "            unsorted_tables = []\n            for t in tables:\n                droppable = self._can_drop_table(t)\n"
                             "                if droppable:\n                    unsorted_tables.append(t)\n"), None)
R.mutant("seed4-dropper-unnamed-constraint-deferrable-but-never-dropped", DDL,
         chain(sub(_DROP_FILTER, "                        filter_fn=lambda constraint: (\n"
                                 "                            False if not self.dialect.supports_alter else None\n                        ),\n"),
               sub(_DROP_EMIT, "    def visit_foreign_key_constraint(self, constraint):\n"
                               "        if not self.dialect.supports_alter or constraint.name is None:\n            return\n"
                               "        with self.with_ddl_events(constraint):\n            DropConstraint(constraint)._invoke_with(self.connection)\n")),
         "C14-R7")
R.mutant("dropper-filter-ignores-supports-alter", DDL,
         sub(_DROP_FILTER, "                        filter_fn=lambda constraint: (\n"
                           "                            False if constraint.name is None else None\n                        ),\n"), "C14-R7")
R.mutant("generator-emitter-skips-unnamed-constraints", DDL,
         sub(_GEN_EMIT_FK, "    def visit_foreign_key_constraint(self, constraint):\n"
                           "        if not self.dialect.supports_alter or constraint.name is None:\n            return\n\n"
                           "        with self.with_ddl_events(constraint):\n            AddConstraint("), "C14-R7")
R.mutant("benign-s2f-dropper-filter-as-local-def-over-a-snapshot", DDL,
         chain(sub(_DROP_UNSORTED, _DROP_UNSORTED + "            can_alter = self.dialect.supports_alter\n\n"
                                   "            def keep_inline(constraint):\n                if not can_alter:\n                    return False\n"
                                   "                if constraint.name is None:\n                    return False\n                return None\n\n"),
               sub(_DROP_FILTER, "                        filter_fn=keep_inline,\n")), None)
R.mutant("benign-s2f-dropper-emitter-positive-guard", DDL,
         sub(_DROP_EMIT, "    def visit_foreign_key_constraint(self, constraint):\n        dialect = self.dialect\n"
                         "        if dialect.supports_alter:\n            with self.with_ddl_events(constraint):\n"
                         "                DropConstraint(constraint)._invoke_with(self.connection)\n"), None)
R.mutant("benign-s2f-dropper-filter-predicate-in-helper-method", DDL,
         chain(sub("    def visit_metadata(self, metadata):\n        tables = self._update_effective_tables(metadata)\n\n        try:\n",
                   "    def _stays_with_its_table(self, constraint):\n"
                   "        return not self.dialect.supports_alter or constraint.name is None\n\n"
                   "    def visit_metadata(self, metadata):\n        tables = self._update_effective_tables(metadata)\n\n        try:\n"),
               sub(_DROP_FILTER, "                        filter_fn=lambda constraint: (\n"
                                 "                            False\n                            if self._stays_with_its_table(constraint)\n"
                                 "                            else None\n                        ),\n")), None)
R.mutant("generator-entrywise-copy-of-the-reversed-sort", DDL,
         sub(_GEN_SORT, "        collection = [\n            (t, fkcs)\n            for (t, fkcs) in reversed(\n"
                        "                sort_tables_and_constraints(\n                    [t for t in tables if self._can_create_table(t)]\n"
                        "                )\n            )\n        ]\n"), "C14-R2")
