"""C45 -- Session.merge copies state onto the session's single instance.

Decides structural clauses of the merge algorithm (memo discipline, identity-map-first, the load=False contract,
direction of the copy, call-site discipline); does not decide the behaviour (attribute values, SQL emitted).
"""

from __future__ import annotations

import ast
from typing import Dict, List, Optional, Set, Tuple

from ..astutil import calls_in, dotted, enclosing_try, enclosing_withs, name_stores, names_in, own_exprs, test_atoms, unparse, walk_local
from ..cfg import no_exc
from ..report import Registry, chain, sub
from ._helpers_rules_d import call_nodes, callee_is, guard_atom_set, kw, qualname
from ._helpers_rob_i import bind_call, enclosing_function, function_params, nf

R = Registry(
    "C45",
    title="Session.merge copies state onto the session's single instance",
    decides=(
        "clauses of C45, not the behaviour: (R1) Session._merge answers a source state it has already seen from the "
        "_recursive memo, files the merged instance in both memos before it recurses into the mapper properties, "
        "consults the conflict map before manufacturing an instance, and hands the same memos, its own source state "
        "and the merged instance's state/dict to prop.merge; (R2) the merged instance is looked up in the identity map "
        "under the given state's key first, a new instance is created / loaded only when that found nothing, and that "
        "instance is what is returned; (R3) the load=False contract: transient and dirty sources are refused before "
        "an instance is manufactured, everything that emits SQL or attribute events (Session.get, impl.set, impl.get, "
        "autoflush) is control-dependent on load, direct dict stamping on not load, and the stamped instance is "
        "committed clean on every path; (R4) the MapperProperty.merge implementations read the source and write the "
        "destination only; (R5) every strategized property class implements merge; (R6) every call of Session._merge "
        "is either a top-level call (fresh memos, autoflush disabled around it) or a recursive one (own memos and load "
        "passed through), and no memo dictionary serves more than one top-level merge; (R7) the version counter of the source is compared with the merged instance's before any "
        "attribute is copied and a mismatch raises StaleDataError; (R8) a MapperProperty.merge implementation that has read the "
        "source value writes the destination on every path to its return, under load=True and under load=False."
    ),
    not_decided=(
        "attribute values after the merge, which rows Session.get loads, idempotence of a second merge, partially "
        "loaded sources (what `key in source_dict` holds at run time), the merge cascade flag (C39-R2), "
        "autoflush-before-load (C47-R1), user-defined MapperProperty classes."
    ),
)

SESSION = "orm/session.py"
LOADING = "orm/loading.py"
PROPS = "orm/properties.py"
RELS = "orm/relationships.py"
IFACE = "orm/interfaces.py"
MERGE = f"{SESSION}::Session._merge"
#: callees of Session._merge the rules match by name (never inlined into the normal form)
MERGE_VOCABULARY = ("get", "_merge", "merge", "_update_impl", "_save_or_update_state", "_autoflush", "_flush_warning", "new_instance",
                    "_commit_all", "_get_state_attr_by_column", "_identity_key_from_state")


#: callees of the MapperProperty.merge implementations the rules match by name
IMPL_VOCABULARY = ("_merge", "set", "get", "get_impl", "get_collection", "_expire_attributes", "init_state_collection", "append_without_event")


# ------------------------------------------------------------------------------------------ anchors of _merge
class _M:
    """Names and CFG nodes of Session._merge, discovered from its structure."""

    def __init__(self, ctx):
        # normal form: private helpers extracted from _merge are inlined at their call, `x = a.b` aliases resolved;
        # the calls the rules recognise by name stay calls
        f = self.f = nf(ctx, ctx.func(MERGE), keep=MERGE_VOCABULARY)
        g = self.g = ctx.cfg(f)
        ctx.require(len(f.params) >= 7 and "load" in f.params, "_merge(self, state, state_dict, *, options, load, _recursive, _resolve_conflict_map) signature not understood")
        self.state, self.sdict, self.rec, self.res = f.params[1], f.params[2], f.params[-2], f.params[-1]
        # the identity-map lookup binds the merged instance
        self.idget = [n.id for n in g.nodes if n.kind == "stmt" and isinstance(n.stmt, ast.Assign) and len(n.stmt.targets) == 1 and isinstance(n.stmt.targets[0], ast.Name)
                      and isinstance(n.stmt.value, ast.Call) and callee_is(n.stmt.value, "self.identity_map.get") and len(n.stmt.value.args) == 1]
        ctx.require(len(self.idget) == 1, "_merge: the identity-map lookup `<merged> = self.identity_map.get(<key>)` is not found exactly once")
        st = g.node(self.idget[0]).stmt
        self.merged = st.targets[0].id
        self.key = dotted(st.value.args[0])
        ctx.require(self.key is not None, "_merge: identity-map lookup key is not a name")
        # outcomes of a `merged is [not] None` test that mean "an instance was found" (either spelling of the test)
        self.found_edges = set()
        for n in g.nodes:
            if n.kind == "test":
                ats = set(test_atoms(n.stmt.test))
                if ats == {(f"{self.merged} is None", True)}:
                    self.found_edges.add((n.id, "false"))
                elif ats == {(f"{self.merged} is None", False)}:
                    self.found_edges.add((n.id, "true"))
        self.none_tests = sorted({n for n, _ in self.found_edges})
        self.new_inst = call_nodes(g, lambda c: callee_is(c, "new_instance") and not c.args)
        self.sess_get = call_nodes(g, lambda c: callee_is(c, "self.get"))
        self.prop_merge = call_nodes(g, lambda c: isinstance(c.func, ast.Attribute) and c.func.attr == "merge" and len(c.args) >= 8)
        ctx.require(self.new_inst and self.sess_get and self.prop_merge, "_merge: new_instance() / self.get() / prop.merge() calls not all found")
        self.memo_test = [n.id for n in g.nodes if n.kind == "test" and isinstance(n.stmt.test, ast.Compare) and len(n.stmt.test.ops) == 1
                          and isinstance(n.stmt.test.ops[0], ast.In) and dotted(n.stmt.test.left) == self.state and dotted(n.stmt.test.comparators[0]) == self.rec]
        self.rec_store = self._sub_store(self.rec)
        self.res_store = self._sub_store(self.res)
        self.dest_state = self._derived("instance_state")
        self.dest_dict = self._derived("instance_dict")

    def _sub_store(self, container):
        out = []
        for n in self.g.nodes:
            if n.kind == "stmt" and isinstance(n.stmt, ast.Assign):
                for t in n.stmt.targets:
                    if isinstance(t, ast.Subscript) and dotted(t.value) == container:
                        out.append((n.id, t.slice, n.stmt.value))
        return out

    def _derived(self, fn_suffix) -> Set[str]:
        """locals every binding of which is `<...>.<fn_suffix>(<merged>)`."""
        by: Dict[str, List[ast.expr]] = {}
        for n, v, s in name_stores(self.f.node):
            by.setdefault(n, []).append(v)
        return {n for n, vs in by.items() if vs and all(isinstance(v, ast.Call) and callee_is(v, fn_suffix) and len(v.args) == 1 and dotted(v.args[0]) == self.merged for v in vs)}

    def not_found_only(self, a, b, lab):
        """edge filter: normal edges, never the `merged is None` -> False outcome (nothing is created once an instance was found)."""
        return lab != "exc" and (a, lab) not in self.found_edges


def _load_atoms(g, node) -> Set[Tuple[str, bool]]:
    return guard_atom_set(g, node)


# ------------------------------------------------------------------------------------------ R1
@R.rule("C45-R1", floor=5, template="T-PATH/T-FLOW",
        desc="_merge: a source state already in _recursive is answered from it; _recursive[state] and "
             "_resolve_conflict_map[key] are set to the merged instance before any prop.merge() recursion; the conflict "
             "map is consulted before an instance is manufactured; prop.merge receives (source state/dict, merged "
             "state/dict, load, the same two memos)")
def r1(ctx):
    m = _M(ctx)
    f, g = m.f, m.g
    # (a) entry memo
    rets = [n.id for n in g.nodes if n.kind == "stmt" and isinstance(n.stmt, ast.Return) and n.stmt.value is not None
            and any(isinstance(x, ast.Subscript) and dotted(x.value) == m.rec and dotted(x.slice) == m.state for x in ast.walk(n.stmt.value))]
    good = bool(rets) and all((f"{m.state} in {m.rec}", True) in guard_atom_set(g, r) for r in rets)
    w = g.always_preceded(m.idget[0], m.memo_test, edge_ok=no_exc) if m.memo_test else [f"no `{m.state} in {m.rec}` test"]
    ctx.check(good and w is None, f"{f.key}:memo-answers-seen-state",
              f"a source state that was already merged in this call is not answered with `{m.rec}[{m.state}]` before the lookup: a transient object "
              "reachable twice in the graph is copied twice (two pending instances, two INSERTs)", f"if {m.state} in {m.rec}: return {m.rec}[{m.state}]", f.loc, w)
    # (b) memo stores precede the recursion
    for label, stores, keyname in (("_recursive", m.rec_store, m.state), ("_resolve_conflict_map", m.res_store, m.key)):
        ok_stores = [n for n, k, v in stores if dotted(k) == keyname and dotted(v) == m.merged]
        w = None
        for pmn in m.prop_merge:
            w = w or g.always_preceded(pmn, ok_stores, edge_ok=no_exc)
        ctx.check(bool(ok_stores) and w is None, f"{f.key}:{label}-filed-before-recursion",
                  f"prop.merge() is reachable before `{label}[{keyname}] = {m.merged}`: a cyclic graph (A.bs=[B], B.a=A) recurses without end / is copied "
                  "once per path", f"{label}[{keyname}] = {m.merged} dominates the property loop", f.loc, w)
    # (c) conflict map consulted before manufacturing
    ctests = [n.id for n in g.nodes if n.kind == "test" and any(a == (f"{m.key} in {m.res}", True) for a in test_atoms(n.stmt.test))]
    reads = [n.id for n in g.nodes if n.kind == "stmt" and isinstance(n.stmt, ast.Assign) and any(dotted(t) == m.merged for t in n.stmt.targets)
             and any(isinstance(x, ast.Subscript) and dotted(x.value) == m.res and dotted(x.slice) == m.key for x in ast.walk(n.stmt.value))]
    w = g.must_pass(m.idget, m.new_inst + m.sess_get, ctests, edge_ok=m.not_found_only)
    ctx.check(bool(ctests) and bool(reads) and w is None, f"{f.key}:conflict-map-before-new-instance",
              "an instance is created / loaded without first looking the identity key up in _resolve_conflict_map: two distinct source objects "
              "with one primary key in the same graph become two instances (the flush fails with a key conflict)",
              f"{m.key} in {m.res} is tested on every path to new_instance()/self.get()", f.loc, w)
    # (d) wiring of prop.merge
    for i, n in enumerate(m.prop_merge):
        c = [c for part in own_exprs(g.node(n).stmt) for c in calls_in(part) if isinstance(c.func, ast.Attribute) and c.func.attr == "merge" and len(c.args) >= 8][0]
        a = [dotted(x) for x in c.args[:8]]
        probs = []
        if a[0] != "self":
            probs.append("session argument is not self")
        if a[1] != m.state or a[2] != m.sdict:
            probs.append(f"source is ({a[1]}, {a[2]}), not the given ({m.state}, {m.sdict})")
        if a[3] not in m.dest_state or a[4] not in m.dest_dict:
            probs.append(f"destination ({a[3]}, {a[4]}) is not instance_state/instance_dict of `{m.merged}`")
        if a[5] != "load":
            probs.append("load is not passed through")
        if a[6] != m.rec or a[7] != m.res:
            probs.append("the memo dictionaries are not passed through")
        ctx.check(not probs, f"{f.key}:prop.merge-wiring" + (f":{i}" if i else ""), "; ".join(probs), "(self, state, state_dict, merged_state, merged_dict, load, memos)", f.loc)
    # (e) RelationshipProperty.merge recursion passes memos / load through  -> judged in R6 together with all call sites


# ------------------------------------------------------------------------------------------ R2
@R.rule("C45-R2", floor=6, template="T-GUARD/T-FLOW",
        desc="_merge: the identity map is consulted first under the given state's key; new_instance() and Session.get() "
             "are control-dependent on `merged is None`; the instance found/created is what is returned")
def r2(ctx):
    m = _M(ctx)
    f, g = m.f, m.g
    # key derives from the given state
    kdefs = [v for n, v, s in name_stores(f.node) if n == m.key]
    good = bool(kdefs) and all(v is not None and (dotted(v) == f"{m.state}.key" or (isinstance(v, ast.Call) and callee_is(v, "_identity_key_from_state") and [dotted(a) for a in v.args] == [m.state])) for v in kdefs)
    ctx.check(good, f"{f.key}:identity-key-of-the-given-state", f"the lookup key `{m.key}` is not state.key / mapper._identity_key_from_state(state): {[unparse(v) for v in kdefs if v is not None]}",
              f"{m.key} = state.key | mapper._identity_key_from_state(state)", f.loc)
    for label, nodes in (("new_instance", m.new_inst), ("Session.get", m.sess_get)):
        bad = [g.node(n).describe() for n in nodes if (f"{m.merged} is None", True) not in guard_atom_set(g, n)]
        w = None
        for n in nodes:
            w = w or g.always_preceded(n, m.idget, edge_ok=no_exc)
        ctx.check(not bad and w is None, f"{f.key}:{label}-only-when-not-in-identity-map",
                  f"{label}() is reachable although the identity map already holds an instance for the key (or before it was asked): merge returns a second object "
                  f"for a row the session already has: {bad}", f"{len(nodes)} site(s) under `{m.merged} is None`, after identity_map.get", f.loc, w)
    # what is returned
    rets = [n for n in g.nodes if n.kind == "stmt" and isinstance(n.stmt, ast.Return)]
    other = [unparse(n.stmt.value) for n in rets if not (n.stmt.value is not None and (dotted(n.stmt.value) == m.merged or any(
        isinstance(x, ast.Subscript) and dotted(x.value) == m.rec for x in ast.walk(n.stmt.value))))]
    ctx.check(len(rets) >= 1 and not other, f"{f.key}:returns-the-merged-instance", f"_merge returns {other} instead of the instance it merged onto", f"return {m.merged}", f.loc)
    # merge()/merge_all() return what _merge returns
    for name in ("merge", "merge_all"):
        fm = ctx.func(f"{SESSION}::Session.{name}")
        rv = [r.value for r in walk_local(fm.node) if isinstance(r, ast.Return) and r.value is not None]
        # (`result = self._merge(...)` / `return result`: a local every binding of which holds _merge's result)
        by: Dict[str, List] = {}
        for n_, v_, s_ in name_stores(fm.node):
            by.setdefault(n_, []).append(v_)
        holds = {n_ for n_, vs in by.items() if all(v_ is not None and any(callee_is(c, "self._merge") for c in calls_in(v_)) for v_ in vs)}
        # (the loop spelling of merge_all: `out = []` ... `out.append(self._merge(...))`: a list that receives nothing but _merge results)
        for n_, vs in by.items():
            if all(v_ is not None and ((isinstance(v_, ast.List) and not v_.elts) or (isinstance(v_, ast.Call) and dotted(v_.func) == "list" and not v_.args)) for v_ in vs):
                adds = [c for c in calls_in(fm.node) if isinstance(c.func, ast.Attribute) and dotted(c.func.value) == n_ and c.func.attr in ("append", "extend", "insert", "__iadd__")]
                if adds and all(c.func.attr == "append" and len(c.args) == 1 and any(callee_is(x, "self._merge") for x in calls_in(c.args[0])) for c in adds):
                    holds.add(n_)
        good = bool(rv) and all(any(callee_is(c, "self._merge") for c in calls_in(v)) or (isinstance(v, ast.Name) and v.id in holds) for v in rv)
        ctx.check(good, f"{fm.key}:returns-merged", f"Session.{name} does not return the result of _merge", "return self._merge(...)", fm.loc)


# ------------------------------------------------------------------------------------------ R3
def _impls(ctx):
    """[(FuncInfo, params dict)] of the MapperProperty.merge overrides."""
    base = ctx.index.cls(f"{IFACE}::MapperProperty")
    out = {}
    for c in ctx.index.subclasses(base):
        fn = c.methods.get("merge")
        if fn is not None and not fn.type_only:
            out[fn.key] = fn
    ctx.require(len(out) >= 1, "no MapperProperty.merge override found")
    sig = ctx.func(f"{IFACE}::MapperProperty.merge").params
    ctx.require(len(sig) == 9, "MapperProperty.merge signature changed")
    res = []
    for k in sorted(out):
        # normal form: a private helper extracted from the implementation (`self._copy_value(...)`) is inlined at its call, aliases
        # (`prop_key = self.key`, `stamp_only = not load`) resolved; the calls the rules recognise by name stay calls
        fn = nf(ctx, out[k], keep=IMPL_VOCABULARY, alias="all")
        ctx.require(len(fn.params) == 9, f"{k}: signature differs from MapperProperty.merge")
        names = dict(zip(("self", "session", "source_state", "source_dict", "dest_state", "dest_dict", "load", "rec", "res"), fn.params))
        res.append((fn, names))
    return res


def _is_impl_set(c: ast.Call) -> bool:
    return isinstance(c.func, ast.Attribute) and c.func.attr == "set" and len(c.args) >= 3


def _is_impl_get(c: ast.Call, first: str) -> bool:
    return isinstance(c.func, ast.Attribute) and c.func.attr == "get" and len(c.args) >= 2 and dotted(c.args[0]) == first


# 11 instances today; the floor is one lower so that ONE vanished write site is judged (the remaining site then fails its
# guard check) instead of being reported as blindness
@R.rule("C45-R3", floor=10, template="T-GUARD/T-PATH",
        desc="load=False contract: _merge refuses a transient source and a dirty source before it manufactures an "
             "instance; Session.get / impl.set / impl.get / autoflush happen only under `load`, direct stamping "
             "(dest_dict[key] = ..., *_without_event) only under `not load`; the stamped instance passes "
             "_commit_all on every path to the return")
def r3(ctx):
    m = _M(ctx)
    f, g = m.f, m.g
    # refusals
    raises = [n for n in g.nodes if n.kind == "stmt" and isinstance(n.stmt, ast.Raise)]
    want = {(f"{m.key} is None", True), ("load", False)}
    memo_atom = {(f"{m.state} in {m.rec}", False)}
    tr = [n for n in raises if want <= guard_atom_set(g, n.id)]
    extra = sorted({a for n in tr for a in guard_atom_set(g, n.id) - want - memo_atom}) if tr else []
    if tr and any(guard_atom_set(g, n.id) - memo_atom == want for n in tr):
        extra = []
    ctx.check(bool(tr) and not extra, f"{f.key}:refuses-transient-without-load",
              "merge(load=False) of a transient object is not refused (documented InvalidRequestError)" + (f" unless additionally {extra}" if extra else "") +
              ": it would be stamped as persistent under a key it does not have", "raise under `key is None and not load`", f.loc)
    keystores = [n.id for n in g.nodes if n.kind == "stmt" and isinstance(n.stmt, ast.Assign) and any(isinstance(t, ast.Attribute) and t.attr == "key" and dotted(t.value) in m.dest_state for t in n.stmt.targets)]
    ctx.require(keystores, "_merge: the load=False branch that manufactures a persistent copy (`merged_state.key = key`) is not found")
    bad = [g.node(n).describe() for n in keystores if not {(f"{m.state}.modified", False), ("load", False)} <= guard_atom_set(g, n)]
    dr = [n for n in raises if {(f"{m.state}.modified", True), ("load", False)} <= guard_atom_set(g, n.id)]
    ctx.check(not bad and bool(dr), f"{f.key}:refuses-dirty-without-load",
              "with load=False a copy is manufactured from a source that has pending changes (documented InvalidRequestError): its values are stamped and committed "
              "as if loaded, the pending change is lost silently", "manufactured only under `not load and not state.modified`; raise otherwise", f.loc)
    # eventful only under load / stamping only under not load
    def judge(fn, g_, eventful, silent, tag):
        for label, nodes, want in (("eventful", eventful, True), ("stamping", silent, False)):
            for i, n in enumerate(sorted(set(nodes))):
                atoms = guard_atom_set(g_, n)
                key = f"{fn.key}:{label}:{tag(g_.node(n).stmt)}"
                if want:
                    ctx.check(("load", True) in atoms, key, f"`{unparse(g_.node(n).stmt)[:70]}` emits SQL / attribute events but is not control-dependent on `load`: "
                                                         "merge(load=False) would emit SQL or flag the copy modified", "only under load", f"{fn.module.path}:{g_.node(n).lineno}")
                else:
                    ctx.check(("load", False) in atoms, key, f"`{unparse(g_.node(n).stmt)[:70]}` writes the destination without history but is not control-dependent on `not load`: "
                                                          "a regular merge would change the persistent instance without anything to flush", "only under not load", f"{fn.module.path}:{g_.node(n).lineno}")

    def tagger():
        seen: Dict[str, int] = {}

        def tag(st):
            c = [c for c in calls_in(st)]
            base = None
            for x in c:
                if isinstance(x.func, ast.Attribute) and x.func.attr in ("set", "get", "append_without_event", "_autoflush"):
                    base = x.func.attr
            if base is None:
                base = "dict-store"
            seen[base] = seen.get(base, 0) + 1
            return base if seen[base] == 1 else f"{base}:{seen[base] - 1}"
        return tag

    judge(f, g, m.sess_get, [], tagger())
    for fn, p in _impls(ctx):
        gi = ctx.cfg(fn)
        ev = call_nodes(gi, lambda c: _is_impl_set(c) or _is_impl_get(c, p["dest_state"]))
        si = [n.id for n in gi.nodes if n.kind == "stmt" and isinstance(n.stmt, ast.Assign) and any(isinstance(t, ast.Subscript) and dotted(t.value) == p["dest_dict"] for t in n.stmt.targets)]
        si += call_nodes(gi, lambda c: isinstance(c.func, ast.Attribute) and c.func.attr.endswith("_without_event"))
        ctx.require(ev or si, f"{fn.key}: neither an eventful nor a stamping write found")
        judge(fn, gi, ev, si, tagger())
    # Session.merge: autoflush only under load (also C47-R1; here for the no-SQL clause)
    # _commit_all on every not-load path
    commits = call_nodes(g, lambda c: callee_is(c, "_commit_all") and dotted(c.func.value) in m.dest_state)
    # outcomes of a plain `load` / `not load` test under which load is true (not the load=False contract)
    load_true = {(n.id, "false") for n in g.nodes if n.kind == "test" and set(test_atoms(n.stmt.test)) == {("load", False)}} \
        | {(n.id, "true") for n in g.nodes if n.kind == "test" and set(test_atoms(n.stmt.test)) == {("load", True)}}
    load_tests = sorted({n for n, _ in load_true})
    starts = [n for n, k, v in m.rec_store]
    rets = [n.id for n in g.nodes if n.kind == "stmt" and isinstance(n.stmt, ast.Return) and n.stmt.value is not None and dotted(n.stmt.value) == m.merged]
    w = g.must_pass(starts, rets, commits, edge_ok=lambda a, b, lab: lab != "exc" and (a, lab) not in load_true)
    ctx.check(bool(commits) and bool(load_tests) and w is None, f"{f.key}:stamped-instance-committed-clean",
              "with load=False the merged instance can be returned without _commit_all(): expired markers / history left on it make it look changed", "if not load: merged_state._commit_all(...)", f.loc, w)


# ------------------------------------------------------------------------------------------ R4
MUTATING_STATE_METHODS = ("set", "append", "remove", "pop", "delete", "set_committed_value", "_expire_attributes", "_commit", "_commit_all", "_modified_event", "append_without_event")


@R.rule("C45-R4", floor=6, template="T-FLOW/T-OWN",
        desc="each MapperProperty.merge implementation only reads the source (state, dict) and only writes the "
             "destination: no store / mutating call targets the source, every impl.set / direct store targets "
             "(dest_state, dest_dict), and what it writes is read from source_dict[self.key] (under `self.key in "
             "source_dict`) or is the result of the recursive session._merge")
def r4(ctx):
    for fn, p in _impls(ctx):
        g = ctx.cfg(fn)
        ss, sd, ds, dd = p["source_state"], p["source_dict"], p["dest_state"], p["dest_dict"]
        bad = []
        for n in walk_local(fn.node):
            tg = []
            if isinstance(n, ast.Assign):
                tg = n.targets
            elif isinstance(n, (ast.AugAssign,)):
                tg = [n.target]
            elif isinstance(n, ast.Delete):
                tg = n.targets
            for t in tg:
                if isinstance(t, (ast.Subscript, ast.Attribute)) and dotted(t.value) in (ss, sd):
                    bad.append(unparse(n)[:60])
            if isinstance(n, ast.Call) and isinstance(n.func, ast.Attribute):
                if n.func.attr in MUTATING_STATE_METHODS and ((n.args and dotted(n.args[0]) in (ss, sd)) or dotted(n.func.value) in (ss, sd)):
                    bad.append(unparse(n)[:60])
                if dotted(n.func.value) == sd and n.func.attr in ("pop", "update", "clear", "setdefault", "popitem"):
                    bad.append(unparse(n)[:60])
        ctx.check(not bad, f"{fn.key}:source-is-read-only", f"the given (source) instance is modified by merge: {bad} -- documented: 'the original source instance is left unmodified'",
                  "no write to source_state / source_dict", fn.loc)
        # writes target the destination
        wrong = []
        nsets = 0
        for c in calls_in(fn.node):
            if _is_impl_set(c):
                nsets += 1
                if [dotted(a) for a in c.args[:2]] != [ds, dd]:
                    wrong.append(unparse(c)[:70])
        ctx.check(nsets > 0 and not wrong, f"{fn.key}:writes-the-destination", f"impl.set() is applied to something other than (dest_state, dest_dict): {wrong}: nothing is copied onto the merged instance",
                  f"{nsets} impl.set(dest_state, dest_dict, ...)", fn.loc)
        # provenance of the written value
        srcnames: Set[str] = set()
        changed = True
        defs = [(n, v, s) for n, v, s in name_stores(fn.node)]
        while changed:
            changed = False
            for n, v, s in defs:
                if n in srcnames:
                    continue
                expr = v if v is not None else (s.iter if isinstance(s, (ast.For, ast.AsyncFor)) else None)
                if expr is None:
                    continue
                from_src = any(isinstance(x, ast.Subscript) and dotted(x.value) == sd for x in ast.walk(expr)) \
                    or any(isinstance(x, ast.Call) and ((callee_is(x, "_merge") and dotted(x.func.value) == p["session"]) or (x.args and dotted(x.args[0]) == ss and len(x.args) >= 2 and dotted(x.args[1]) == sd)) for x in ast.walk(expr)) \
                    or bool(names_in(expr) & srcnames) or (isinstance(expr, ast.Constant) and expr.value is None) or (isinstance(expr, ast.List) and not expr.elts)
                if from_src:
                    srcnames.add(n)
                    changed = True
        # lists filled by .append(<src-derived>)
        for c in calls_in(fn.node):
            if isinstance(c.func, ast.Attribute) and c.func.attr == "append" and isinstance(c.func.value, ast.Name) and c.args and (names_in(c.args[0]) & srcnames):
                srcnames.add(c.func.value.id)
        foreign = []
        for c in calls_in(fn.node):
            if _is_impl_set(c):
                v = c.args[2]
                if not (names_in(v) & srcnames):
                    foreign.append(unparse(c)[:70])
            if isinstance(c.func, ast.Attribute) and c.func.attr == "append_without_event" and c.args and not (names_in(c.args[0]) & srcnames):
                foreign.append(unparse(c)[:70])
        for st in walk_local(fn.node):
            if isinstance(st, ast.Assign) and any(isinstance(t, ast.Subscript) and dotted(t.value) == dd for t in st.targets) and not (names_in(st.value) & srcnames):
                foreign.append(unparse(st)[:70])
        # reads of the source are guarded by membership
        unguarded = []
        pm = fn.module.parents()
        for n in g.nodes:
            if n.stmt is None or not isinstance(n.stmt, ast.stmt) or n.kind not in ("stmt", "test", "for"):
                continue
            for part in own_exprs(n.stmt):
                for x in ast.walk(part):
                    if isinstance(x, ast.Subscript) and isinstance(x.ctx, ast.Load) and dotted(x.value) == sd:
                        if (f"{unparse(x.slice)} in {sd}", True) not in guard_atom_set(g, n.id):
                            unguarded.append(unparse(x))
        ctx.check(not foreign and not unguarded, f"{fn.key}:copies-the-source-value",
                  (f"the value written does not derive from the source instance: {foreign}; " if foreign else "") + (f"source_dict read without `key in source_dict`: {unguarded}" if unguarded else ""),
                  "dest <- source_dict[self.key] / session._merge(<source member>)", fn.loc)


# ------------------------------------------------------------------------------------------ R5
@R.rule("C45-R5", floor=5, template="T-EXHAUST",
        desc="every StrategizedProperty class (the properties whose loader strategies populate the instance dict) "
             "resolves merge() to an override, not to the no-op MapperProperty.merge")
def r5(ctx):
    base = ctx.index.cls(f"{IFACE}::StrategizedProperty")
    noop = ctx.func(f"{IFACE}::MapperProperty.merge")
    body = [s for s in noop.node.body if not (isinstance(s, ast.Expr) and isinstance(s.value, ast.Constant)) and not isinstance(s, ast.Pass)]
    ctx.require(not body, "MapperProperty.merge is no longer a no-op: the exhaustiveness domain must be reconsidered")
    subs = ctx.index.subclasses(base)
    ctx.require(len(subs) >= 2, "no StrategizedProperty subclasses found")
    for c in subs:
        fn = ctx.index.resolve_method(c, "merge")
        ctx.check(fn is not None and fn.key != noop.key, f"{c.key}:implements-merge",
                  f"{c.name} owns instance-dict state (StrategizedProperty) but inherits the no-op MapperProperty.merge: its attribute is silently not copied by Session.merge",
                  f"-> {fn.key if fn else None}", c.loc)


# ------------------------------------------------------------------------------------------ R6
def _autoflush_disabled(pm, call) -> Optional[str]:
    for w in enclosing_withs(pm, call):
        for it in w.items:
            if (dotted(it.context_expr) or "").endswith(".no_autoflush"):
                return f"with {dotted(it.context_expr)}"
    for t, part in enclosing_try(pm, call):
        if part != "body" or not t.finalbody:
            continue
        offs = [s for s in t.body if isinstance(s, ast.Assign) and any(isinstance(x, ast.Attribute) and x.attr == "autoflush" for x in s.targets)
                and isinstance(s.value, ast.Constant) and s.value.value is False]
        rest = [s for s in t.finalbody if isinstance(s, ast.Assign) and any(isinstance(x, ast.Attribute) and x.attr == "autoflush" for x in s.targets)]
        if offs and rest and offs[0].lineno < call.lineno:
            return "autoflush = False ... finally: restored"
    return None


_LOOPS = (ast.For, ast.AsyncFor, ast.While, ast.ListComp, ast.SetComp, ast.DictComp, ast.GeneratorExp)


def _repeats(pm, node, stop) -> List[ast.AST]:
    """The loops / comprehensions of `stop` (a function) that execute `node` repeatedly: node sits in their body, not in
    the (once evaluated) iterable of a `for` statement or of a comprehension's first generator."""
    out, prev, cur = [], node, pm.get(node)
    while cur is not None and cur is not stop:
        if isinstance(cur, (ast.For, ast.AsyncFor)):
            if prev is not cur.iter:
                out.append(cur)
        elif isinstance(cur, ast.While):
            out.append(cur)
        elif isinstance(cur, (ast.ListComp, ast.SetComp, ast.DictComp, ast.GeneratorExp)):
            if not (isinstance(prev, ast.comprehension) and prev is cur.generators[0] and _within(prev.iter, node)):
                out.append(cur)
        prev, cur = cur, pm.get(cur)
    return out


def _within(tree, node) -> bool:
    return any(x is node for x in ast.walk(tree))


def _is_new_dict(e) -> bool:
    return (isinstance(e, ast.Dict) and not e.keys) or (isinstance(e, ast.Call) and isinstance(e.func, ast.Name) and e.func.id == "dict" and not e.args and not e.keywords)


def _memo_origin(pm, fnode, call, e, memo_kws) -> Optional[str]:
    """Where a memo argument of a Session._merge call comes from: "fresh" = an empty dict made for this very call (the
    literal at the call, or a local every binding of which is an empty dict made once per execution of the call);
    "shared" = an empty dict made in the caller, but ONE object serves several top-level merges (bound outside a loop /
    comprehension that repeats the call, or handed to more than one call site); None = not a dict made by the caller."""
    if _is_new_dict(e):
        return "fresh"
    if not isinstance(e, ast.Name) or fnode is None or e.id in function_params(fnode):
        return None
    binds = [(v, s) for n, v, s in name_stores(fnode) if n == e.id]
    if not binds or not all(v is not None and _is_new_dict(v) for v, s in binds):
        return None
    reps = _repeats(pm, call, fnode)
    if any(not all(any(r is x for x in _repeats(pm, s, fnode)) for v, s in binds) for r in reps):
        return "shared"
    users = {id(c2) for c2 in calls_in(fnode) if isinstance(c2.func, ast.Attribute) and c2.func.attr == "_merge"
             and any(isinstance(kw(c2, k), ast.Name) and kw(c2, k).id == e.id for k in memo_kws)}
    return "shared" if len(users) > 1 else "fresh"


@R.rule("C45-R6", floor=7, template="T-SIBLING/T-GUARD",
        desc="every call of Session._merge is either top-level (an empty dict made for that very call for both memos: the "
             "literal, or a local bound once per execution of the call -- never one dict serving several top-level merges) and then runs with autoflush "
             "disabled (inside `with <session>.no_autoflush` or autoflush=False/finally), or recursive (passes its own "
             "_recursive, _resolve_conflict_map and load through); a private helper that wraps the recursive call is "
             "followed to its call sites, which are judged the same way")
def r6(ctx):
    callee = ctx.func(MERGE)
    rec_kw, res_kw = callee.params[-2], callee.params[-1]
    sites = []
    for m in ctx.index.all_modules():
        if "._merge(" not in m.source or not m.relpath.startswith(("orm/", "ext/")):
            continue
        pm = m.parents()
        for c in calls_in(m.tree, into_nested=True):
            if isinstance(c.func, ast.Attribute) and c.func.attr == "_merge" and kw(c, rec_kw) is not None:
                sites.append((m, pm, c))
    ctx.require(len(sites) >= 4, f"only {len(sites)} Session._merge call sites found")
    counts: Dict[str, int] = {}

    def judge(m, pm, c, a, b, ld, what, depth):
        q = f"{m.relpath}::{qualname(pm, c)}"
        counts[(q, what)] = counts.get((q, what), 0) + 1
        n = counts[(q, what)]
        key = f"{q}:{what}" + (f":{n - 1}" if n > 1 else "")
        loc = f"{m.path}:{c.lineno}"
        fnode = enclosing_function(pm, c)
        oa, ob = (_memo_origin(pm, fnode, c, x, (rec_kw, res_kw)) if x is not None else None for x in (a, b))
        if oa and ob and "shared" in (oa, ob):
            which = ", ".join(f"{k}={unparse(x)}" for k, x, o in ((rec_kw, a, oa), (res_kw, b, ob)) if o == "shared")
            ctx.violation(key, f"top-level Session._merge calls share one memo dictionary ({which}) instead of each starting with an empty one (as Session.merge() does per "
                               "object): a source object that an earlier merge of the batch reached through a relationship -- where the reverse relationship is "
                               "deliberately skipped -- is answered from the memo when it is itself merged, so the attributes / collections loaded on it are never "
                               "copied (merge_all([child, parent]) loses parent.children; merging the same parent again then changes the result)", loc)
            return
        fresh = oa == "fresh" and ob == "fresh"
        if fresh:
            how = _autoflush_disabled(pm, c)
            ctx.check(how is not None and dotted(ld) == "load", key,
                      "top-level Session._merge call that does not run with autoflush disabled (its siblings do): the Session.get() issued for a related "
                      "object autoflushes the half-populated merged instance -- premature INSERT with missing attributes (IntegrityError for NOT NULL columns) "
                      "where Session.merge() of the same object succeeds", f"fresh memos, {how}", loc)
            return
        params = function_params(fnode) if fnode is not None else []
        encl = fnode.name if fnode is not None else "<module>"
        own = all(isinstance(x, ast.Name) and x.id in params for x in (a, b, ld)) and len({x.id for x in (a, b, ld)}) == 3
        msg = (f"recursive {what} call in {encl} does not pass its own load / _recursive / _resolve_conflict_map through "
               f"(got load={unparse(ld) if ld else None}, {rec_kw}={unparse(a) if a else None}, {res_kw}={unparse(b) if b else None}): cycles are not cut and one source object is copied repeatedly")
        if not own:
            ctx.violation(key, msg, loc)
            return
        if encl == "merge" and len(params) == 9:
            # a MapperProperty.merge implementation: the roles are fixed by the signature Session._merge calls positionally (C45-R1)
            ctx.check((ld.id, a.id, b.id) == (params[6], params[7], params[8]), key, msg, "load and both memos passed through", loc)
            return
        # a helper wrapping the recursion: its own call sites decide what the three parameters are
        callers = []
        if depth < 2 and encl.startswith("_") and not encl.startswith("__"):
            for c2 in calls_in(m.tree, into_nested=True):
                if c2 is c:
                    continue
                fn2 = c2.func
                if (isinstance(fn2, ast.Attribute) and fn2.attr == encl and isinstance(fn2.value, ast.Name) and fn2.value.id in ("self", "cls")) or (isinstance(fn2, ast.Name) and fn2.id == encl):
                    callers.append(c2)
        if not callers:
            like = a.id.lstrip("_") == rec_kw.lstrip("_") and b.id.lstrip("_") == res_kw.lstrip("_") and ld.id == "load"
            ctx.check(like, key, msg, "load and both memos passed through", loc)
            return
        ctx.ok(key, f"helper {encl}: its parameters ({ld.id}, {a.id}, {b.id}) are judged at {len(callers)} call site(s)")
        for c2 in callers:
            bound = bind_call(c2, fnode, bound_method=isinstance(c2.func, ast.Attribute))
            ctx.require(bound is not None, f"{q}: call of helper {encl} at line {c2.lineno} is not understood")
            judge(m, pm, c2, bound[a.id], bound[b.id], bound[ld.id], encl, depth + 1)

    for m, pm, c in sorted(sites, key=lambda s_: (s_[0].relpath, s_[2].lineno)):
        judge(m, pm, c, kw(c, rec_kw), kw(c, res_kw), kw(c, "load"), "_merge", 0)


# ------------------------------------------------------------------------------------------ R7
@R.rule("C45-R7", floor=3, template="T-GUARD/T-PATH",
        desc="_merge: when the mapper has a version_id_col the version of the source (state, state_dict) and of the "
             "merged instance are both read, compared with != and a mismatch raises StaleDataError before any "
             "property is copied")
def r7(ctx):
    m = _M(ctx)
    f, g = m.f, m.g
    reads = {}
    for n, v, s in name_stores(f.node):
        if isinstance(v, ast.Call) and callee_is(v, "_get_state_attr_by_column") and len(v.args) >= 3 and (dotted(v.args[2]) or "").endswith("version_id_col"):
            reads[n] = (dotted(v.args[0]), dotted(v.args[1]))
    src = [n for n, (a, b) in reads.items() if a == m.state and b == m.sdict]
    dst = [n for n, (a, b) in reads.items() if a in m.dest_state and b in m.dest_dict]
    ctx.check(len(src) == 1 and len(dst) == 1, f"{f.key}:reads-both-versions", f"the version counter is not read once from the source and once from the merged instance: {reads}",
              f"{src} from the source, {dst} from the merged instance", f.loc)
    stale = [n for n in g.nodes if n.kind == "stmt" and isinstance(n.stmt, ast.Raise) and "StaleDataError" in unparse(n.stmt.exc or n.stmt)]
    ctx.require(stale, "_merge: no `raise StaleDataError`")
    good = bool(src) and bool(dst)
    tests = []
    for n in stale:
        found = False
        for t, pol in g.edge_guards(n.id):
            for x in ast.walk(t):
                if isinstance(x, ast.Compare) and len(x.ops) == 1 and isinstance(x.ops[0], ast.NotEq) and pol and src and dst and {dotted(x.left), dotted(x.comparators[0])} == {src[0], dst[0]}:
                    found = True
                    tests.extend(g.nodes_containing(x))
        good = good and found
    ctx.check(good, f"{f.key}:mismatch-raises", "StaleDataError is not raised exactly when the source's version differs from the merged instance's: a stale detached copy "
                                                "overwrites a newer row", "raise under existing_version != merged_version", f.loc)
    # the outcome of a `version_id_col is [not] None` test that means "this mapper is not versioned" (either spelling / polarity)
    unversioned = set()
    for n in g.nodes:
        if n.kind != "test":
            continue
        ats = test_atoms(n.stmt.test)
        if len(ats) == 1 and ats[0][0].endswith("version_id_col is None"):
            unversioned.add((n.id, "true" if ats[0][1] else "false"))
        elif any(a.endswith("version_id_col is None") and not pol for a, pol in ats):
            unversioned.add((n.id, "false"))    # `version_id_col is not None and ...` taken false
    ctx.require(unversioned, "_merge: no `mapper.version_id_col is not None` test")
    w = g.must_pass([g.entry], m.prop_merge, tests, edge_ok=lambda a, b, lab: lab != "exc" and (a, lab) not in unversioned)
    ctx.check(bool(tests) and w is None, f"{f.key}:version-check-before-copy", "attributes are copied onto the merged instance before the version comparison", "comparison dominates the property loop", f.loc, w)


# ------------------------------------------------------------------------------------------ R8
def _tri(e, env: Dict[str, bool]) -> Optional[bool]:
    """three-valued truth of a test under the assumptions `env` ({name: bool}); None = not determined by them."""
    if isinstance(e, ast.Name):
        return env.get(e.id)
    if isinstance(e, ast.Constant) and isinstance(e.value, bool):
        return e.value
    if isinstance(e, ast.UnaryOp) and isinstance(e.op, ast.Not):
        v = _tri(e.operand, env)
        return None if v is None else not v
    if isinstance(e, ast.BoolOp):
        vs = [_tri(v, env) for v in e.values]
        if isinstance(e.op, ast.And):
            return False if any(v is False for v in vs) else (True if all(v is True for v in vs) else None)
        return True if any(v is True for v in vs) else (False if all(v is False for v in vs) else None)
    return None


def _assuming(g, env):
    """edge filter: normal edges, minus the branch outcomes the assumptions refute (independent of how the test is spelt)."""
    memo: Dict[int, Optional[bool]] = {}

    def ok(a, b, lab):
        if lab == "exc":
            return False
        n = g.nodes[a]
        if n.kind == "test" and lab in ("true", "false") and hasattr(n.stmt, "test"):
            if a not in memo:
                memo[a] = _tri(n.stmt.test, env)
            if memo[a] is not None and memo[a] != (lab == "true"):
                return False
        return True
    return ok


def _own_parts(n):
    return own_exprs(n.stmt) if n.stmt is not None and isinstance(n.stmt, ast.stmt) and n.kind in ("stmt", "test", "for", "with_enter") else []


@R.rule("C45-R8", floor=4, template="T-PATH",
        desc="each MapperProperty.merge implementation delivers what it read: once the source value has been read "
             "(source_dict[<key>] / a call on (source_state, source_dict)) every normal path to the return writes the "
             "destination (dest_dict[<key>] = ..., or a non-reading call on (dest_state, dest_dict)); judged separately under "
             "load=True and load=False -- no path may skip the copy on account of the destination's own state")
def r8(ctx):
    for fn, p in _impls(ctx):
        g = ctx.cfg(fn)
        ss, sd, ds, dd, ld = p["source_state"], p["source_dict"], p["dest_state"], p["dest_dict"], p["load"]
        reads, writes = [], []
        for n in g.nodes:
            rd = wr = False
            if n.kind == "stmt" and isinstance(n.stmt, (ast.Assign, ast.AugAssign, ast.AnnAssign)):
                tg = n.stmt.targets if isinstance(n.stmt, ast.Assign) else [n.stmt.target]
                wr = any(isinstance(t, ast.Subscript) and dotted(t.value) == dd for t in tg)
            for part in _own_parts(n):
                for x in ast.walk(part):
                    if isinstance(x, ast.Subscript) and isinstance(x.ctx, ast.Load) and dotted(x.value) == sd:
                        rd = True
                    if isinstance(x, ast.Call) and isinstance(x.func, ast.Attribute):
                        first2 = [dotted(a) for a in x.args[:2]]
                        if first2 == [ss, sd]:
                            rd = True
                        # a call on the destination that is not a read (`impl.get(dest_state, dest_dict, ...)` pre-loads, `get_impl` looks up)
                        if not x.func.attr.startswith("get") and (first2 == [ds, dd] or (dotted(x.func.value) == ds and first2[:1] == [dd])):
                            wr = True
            if wr:
                writes.append(n.id)
            elif rd:
                reads.append(n.id)
        ctx.require(writes, f"{fn.key}: no write of the destination (dest_dict[...] = / call on (dest_state, dest_dict)) found")
        for pol in (True, False):
            ok = _assuming(g, {ld: pol})
            live = g.reachable([g.entry], edge_ok=ok)
            starts = [r for r in reads if r in live]
            ctx.require(starts, f"{fn.key}: no read of the source value is reachable with load={pol}")
            w = g.must_pass(starts, [g.exit], writes, edge_ok=ok)
            ctx.check(w is None, f"{fn.key}:source-value-reaches-destination[load={pol}]",
                      f"with load={pol} the value read from the given object can be dropped: there is a path from the read to the return that never writes the merged "
                      "instance, so what it takes depends on something other than the source (e.g. the destination's pending history) -- the merged instance keeps a "
                      "value that differs from the one loaded on the given object" + ("" if pol else "; with load=False _merge() then commits it as clean, so the "
                      "difference is never flushed and a second merge of the same object changes the result"),
                      f"{len(starts)} read(s) of the source, every path to the return passes one of {len(writes)} destination write(s)", fn.loc, w)


# ------------------------------------------------------------------------------------------ self-test battery
# R1
R.mutant("memo-filed-after-recursion", SESSION,
         chain(sub("        _recursive[state] = merged\n        _resolve_conflict_map[key] = merged\n\n", ""),
               sub("        if not load:\n            # remove any history\n", "        _recursive[state] = merged\n        _resolve_conflict_map[key] = merged\n\n        if not load:\n            # remove any history\n")), "C45-R1")
R.mutant("memo-not-consulted", SESSION, sub("        if state in _recursive:\n            return cast(_O, _recursive[state])\n\n        new_instance = False\n", "        new_instance = False\n"), "C45-R1")
R.mutant("conflict-map-not-filed", SESSION, sub("        _recursive[state] = merged\n        _resolve_conflict_map[key] = merged\n", "        _recursive[state] = merged\n"), "C45-R1")
R.mutant("conflict-map-after-load-branch", SESSION, sub("            if key_is_persistent and key in _resolve_conflict_map:\n                merged = cast(_O, _resolve_conflict_map[key])\n\n            elif not load:\n", "            if not load:\n"), "C45-R1")
R.mutant("prop-merge-fresh-memo", SESSION, sub("                    load,\n                    _recursive,\n                    _resolve_conflict_map,\n                )\n\n        if not load:", "                    load,\n                    {},\n                    _resolve_conflict_map,\n                )\n\n        if not load:"), "C45-R1")
R.mutant("prop-merge-onto-source", SESSION, sub("                    state,\n                    state_dict,\n                    merged_state,\n                    merged_dict,\n                    load,\n", "                    state,\n                    state_dict,\n                    state,\n                    state_dict,\n                    load,\n"), "C45-R1")
# R2
R.mutant("new-instance-regardless-of-identity-map", SESSION, sub("        if merged is None:\n            merged = mapper.class_manager.new_instance()\n            merged_state = attributes.instance_state(merged)\n            merged_dict = attributes.instance_dict(merged)\n",
                                                               "        if merged is None or new_instance:\n            merged = mapper.class_manager.new_instance()\n            merged_state = attributes.instance_state(merged)\n            merged_dict = attributes.instance_dict(merged)\n"), "C45-R2")
R.mutant("session-get-before-identity-map", SESSION, sub("            elif key_is_persistent:\n                merged = self.get(\n", "            if key_is_persistent and load and not new_instance:\n                merged = self.get(\n"), None)  # still under `merged is None` and after the lookup: benign restructuring
R.mutant("lookup-key-of-merged-class-only", SESSION, sub("            key = mapper._identity_key_from_state(state)\n", "            key = mapper._identity_key_from_state(state)[0:2] + (None,)\n"), "C45-R2")
R.mutant("returns-source-instance", SESSION, sub("            merged_state.manager.dispatch.load(merged_state, None)\n\n        return merged\n", "            merged_state.manager.dispatch.load(merged_state, None)\n\n        return state.obj()\n"), "C45-R2")
# R3
R.mutant("transient-accepted-without-load", SESSION, sub("            if not load:\n                raise sa_exc.InvalidRequestError(\n                    \"merge() with load=False option does not support \"\n                    \"objects transient", "            if not load and state in self._new:\n                raise sa_exc.InvalidRequestError(\n                    \"merge() with load=False option does not support \"\n                    \"objects transient"), "C45-R3")
R.mutant("dirty-accepted-without-load", SESSION, sub("                if state.modified:\n                    raise sa_exc.InvalidRequestError(\n                        \"merge() with load=False option does not support \"\n                        \"objects marked as 'dirty'.", "                if state.modified and state.session_id:\n                    raise sa_exc.InvalidRequestError(\n                        \"merge() with load=False option does not support \"\n                        \"objects marked as 'dirty'."), "C45-R3")
R.mutant("column-merge-sets-with-events-without-load", PROPS, sub("            if not load:\n                dest_dict[self.key] = value\n            else:\n                impl = dest_state.get_impl(self.key)\n                impl.set(dest_state, dest_dict, value, None)\n",
                                                                  "            impl = dest_state.get_impl(self.key)\n            impl.set(dest_state, dest_dict, value, None)\n"), "C45-R3")
R.mutant("column-merge-stamps-with-load", PROPS, sub("            if not load:\n                dest_dict[self.key] = value\n            else:\n", "            if load:\n                dest_dict[self.key] = value\n            else:\n"), "C45-R3")
R.mutant("relationship-preloads-without-load", RELS, sub("            if load:\n                # for a full merge, pre-load the destination collection,\n", "            if True:\n                # for a full merge, pre-load the destination collection,\n"), "C45-R3")
R.mutant("session-get-without-load", SESSION, sub("            elif not load:\n                if state.modified:", "            elif not load and not key_is_persistent:\n                if state.modified:"), "C45-R3")
R.mutant("no-commit-all-for-new-instance", SESSION, sub("        if not load:\n            # remove any history\n            merged_state._commit_all(merged_dict, self.identity_map)\n", "        if not load and not new_instance:\n            # remove any history\n            merged_state._commit_all(merged_dict, self.identity_map)\n"), "C45-R3")
# R4
R.mutant("column-merge-sets-source", PROPS, sub("                impl.set(dest_state, dest_dict, value, None)\n", "                impl.set(source_state, source_dict, value, None)\n"), "C45-R4")
R.mutant("column-merge-expires-source", PROPS, sub("            dest_state._expire_attributes(\n                dest_dict, [self.key], no_loader=True\n            )\n", "            source_state._expire_attributes(\n                source_dict, [self.key], no_loader=True\n            )\n"), "C45-R4")
R.mutant("relationship-merge-writes-unmerged-source-member", RELS, sub("            if not load:\n                dest_dict[self.key] = obj\n            else:\n", "            if not load:\n                dest_dict[self.key] = dest_dict.get(self.key)\n            else:\n"), "C45-R4")
R.mutant("relationship-merge-pops-source", RELS, sub("            current = source_dict[self.key]\n            if current is not None:\n", "            current = source_dict.pop(self.key)\n            if current is not None:\n"), "C45-R4")
# R5
R.mutant("new-strategized-property-without-merge", IFACE, sub("class ORMOption(ExecutableOption):\n", "class _ComputedProperty(StrategizedProperty[_T]):\n    \"\"\"a new kind of loader-populated attribute that forgot merge()\"\"\"\n\n    strategy_wildcard_key = \"computed\"\n\n\nclass ORMOption(ExecutableOption):\n"), "C45-R5")
R.mutant("sql-expression-property-reparented", PROPS, sub("class MappedSQLExpression(ColumnProperty[_T], _DeclarativeMapped[_T]):\n", "class MappedSQLExpression(StrategizedProperty[_T], _DeclarativeMapped[_T]):\n"), "C45-R5")
# R6
R.mutant("merge-outside-no-autoflush", SESSION, sub("        with self.no_autoflush:\n            return self._merge(\n                object_state(instance),\n                attributes.instance_dict(instance),\n                load=load,\n                options=options,\n                _recursive={},\n                _resolve_conflict_map={},\n            )\n",
                                                    "        return self._merge(\n            object_state(instance),\n            attributes.instance_dict(instance),\n            load=load,\n            options=options,\n            _recursive={},\n            _resolve_conflict_map={},\n        )\n"), "C45-R6")
R.mutant("merge-result-autoflush-not-disabled", LOADING, sub("    try:\n        session.autoflush = False\n        single_entity = not frozen_result and len(ctx._entities) == 1\n", "    try:\n        single_entity = not frozen_result and len(ctx._entities) == 1\n"), "C45-R6")
R.mutant("relationship-recursion-fresh-conflict-map", RELS, sub("                    _recursive=_recursive,\n                    _resolve_conflict_map=_resolve_conflict_map,\n                )\n                if obj is not None:", "                    _recursive=_recursive,\n                    _resolve_conflict_map={},\n                )\n                if obj is not None:"), "C45-R6")
R.mutant("relationship-recursion-forces-load", RELS, sub("                    load=load,\n                    _recursive=_recursive,\n                    _resolve_conflict_map=_resolve_conflict_map,\n                )\n            else:\n                obj = None", "                    load=True,\n                    _recursive=_recursive,\n                    _resolve_conflict_map=_resolve_conflict_map,\n                )\n            else:\n                obj = None"), "C45-R6")
# R7
R.mutant("version-compared-with-itself", SESSION, sub("                merged_version = mapper._get_state_attr_by_column(\n                    merged_state,\n                    merged_dict,\n", "                merged_version = mapper._get_state_attr_by_column(\n                    state,\n                    state_dict,\n"), "C45-R7")
R.mutant("version-mismatch-test-inverted", SESSION, sub("                    and existing_version != merged_version\n", "                    and existing_version == merged_version\n"), "C45-R7")
R.mutant("version-check-after-copy", SESSION, chain(
    sub("            merged_state.load_path = state.load_path\n            merged_state.load_options = state.load_options\n", "            merged_state.load_options = state.load_options\n"),
    sub("            # version check if applicable\n            if mapper.version_id_col is not None:\n", "            merged_state.load_path = state.load_path\n            for prop in mapper.iterate_properties:\n                prop.merge(\n                    self,\n                    state,\n                    state_dict,\n                    merged_state,\n                    merged_dict,\n                    load,\n                    _recursive,\n                    _resolve_conflict_map,\n                )\n            # version check if applicable\n            if mapper.version_id_col is not None:\n")), "C45-R7")
# benign refactors
R.mutant("benign-rename-merged-local", SESSION, chain(
    sub("        merged = self.identity_map.get(key)\n\n        if merged is None:\n            if key_is_persistent and key in _resolve_conflict_map:\n                merged = cast(_O, _resolve_conflict_map[key])\n",
        "        merged = self.identity_map.get(key)\n        _seen_before = key in _resolve_conflict_map\n\n        if merged is None:\n            if key_is_persistent and _seen_before and key in _resolve_conflict_map:\n                merged = cast(_O, _resolve_conflict_map[key])\n")), None)
R.mutant("benign-memo-stores-reordered", SESSION, sub("        _recursive[state] = merged\n        _resolve_conflict_map[key] = merged\n", "        _resolve_conflict_map[key] = merged\n        _recursive[state] = merged\n"), None)
R.mutant("benign-column-merge-branches-swapped", PROPS, sub("            if not load:\n                dest_dict[self.key] = value\n            else:\n                impl = dest_state.get_impl(self.key)\n                impl.set(dest_state, dest_dict, value, None)\n",
                                                            "            if load:\n                attr_impl = dest_state.get_impl(self.key)\n                attr_impl.set(dest_state, dest_dict, value, None)\n            else:\n                dest_dict[self.key] = value\n"), None)
R.mutant("benign-merge-result-uses-context-manager", LOADING, sub("                    newrow[i] = session._merge(\n                        attributes.instance_state(newrow[i]),\n                        attributes.instance_dict(newrow[i]),\n                        load=load,\n                        _recursive={},\n                        _resolve_conflict_map={},\n                    )\n\n            result.append(keyed_tuple(newrow))\n",
                                                                "                    _st = attributes.instance_state(newrow[i])\n                    newrow[i] = session._merge(\n                        _st,\n                        attributes.instance_dict(newrow[i]),\n                        load=load,\n                        _recursive={},\n                        _resolve_conflict_map={},\n                    )\n\n            result.append(keyed_tuple(newrow))\n"), None)
_RFI7 = chain(
    sub('            if mapper.version_id_col is not None:\n'
             '                existing_version = mapper._get_state_attr_by_column(\n'
             '                    state,\n'
             '                    state_dict,\n'
             '                    mapper.version_id_col,\n'
             '                    passive=PassiveFlag.PASSIVE_NO_INITIALIZE,\n'
             '                )\n'
             '\n'
             '                merged_version = mapper._get_state_attr_by_column(\n'
             '                    merged_state,\n'
             '                    merged_dict,\n'
             '                    mapper.version_id_col,\n'
             '                    passive=PassiveFlag.PASSIVE_NO_INITIALIZE,\n'
             '                )\n'
             '\n'
             '                if (\n'
             '                    existing_version\n'
             '                    is not LoaderCallableStatus.PASSIVE_NO_RESULT\n'
             '                    and merged_version\n'
             '                    is not LoaderCallableStatus.PASSIVE_NO_RESULT\n'
             '                    and existing_version != merged_version\n'
             '                ):\n'
             '                    raise exc.StaleDataError(\n'
             '                        "Version id \'%s\' on merged state %s "\n'
             '                        "does not match existing version \'%s\'. "\n'
             '                        "Leave the version attribute unset when "\n'
             '                        "merging to update the most recent version."\n'
             '                        % (\n'
             '                            existing_version,\n'
             '                            state_str(merged_state),\n'
             '                            merged_version,\n'
             '                        )\n'
             '                    )\n',
        '            self._merge_check_version(\n'
             '                mapper, state, state_dict, merged_state, merged_dict\n'
             '            )\n'),
    sub('\n'
             '        return merged\n',
        '\n'
             '        return merged\n'
             '\n'
             '    def _merge_check_version(\n'
             '        self,\n'
             '        mapper: Mapper[Any],\n'
             '        state: InstanceState[Any],\n'
             '        state_dict: _InstanceDict,\n'
             '        merged_state: InstanceState[Any],\n'
             '        merged_dict: _InstanceDict,\n'
             '    ) -> None:\n'
             '        """Raise StaleDataError if the given state being merged carries a\n'
             '        version id that differs from that of the merge target."""\n'
             '\n'
             '        if mapper.version_id_col is None:\n'
             '            return\n'
             '\n'
             '        existing_version = mapper._get_state_attr_by_column(\n'
             '            state,\n'
             '            state_dict,\n'
             '            mapper.version_id_col,\n'
             '            passive=PassiveFlag.PASSIVE_NO_INITIALIZE,\n'
             '        )\n'
             '\n'
             '        merged_version = mapper._get_state_attr_by_column(\n'
             '            merged_state,\n'
             '            merged_dict,\n'
             '            mapper.version_id_col,\n'
             '            passive=PassiveFlag.PASSIVE_NO_INITIALIZE,\n'
             '        )\n'
             '\n'
             '        if (\n'
             '            existing_version is not LoaderCallableStatus.PASSIVE_NO_RESULT\n'
             '            and merged_version is not LoaderCallableStatus.PASSIVE_NO_RESULT\n'
             '            and existing_version != merged_version\n'
             '        ):\n'
             '            raise exc.StaleDataError(\n'
             '                "Version id \'%s\' on merged state %s "\n'
             '                "does not match existing version \'%s\'. "\n'
             '                "Leave the version attribute unset when "\n'
             '                "merging to update the most recent version."\n'
             '                % (\n'
             '                    existing_version,\n'
             '                    state_str(merged_state),\n'
             '                    merged_version,\n'
             '                )\n'
             '            )\n'))
R.mutant('benign-rfI_7-version-check-extracted', SESSION, _RFI7, None)
R.mutant("version-check-helper-compares-with-itself", SESSION, chain(_RFI7, sub(
    "            merged_state,\n            merged_dict,\n            mapper.version_id_col,\n",
    "            state,\n            state_dict,\n            mapper.version_id_col,\n")), "C45-R7")
R.mutant('benign-rfI_8-column-merge-alias-and-inverted', PROPS,
         sub('    ) -> None:\n'
             '        if not self.instrument:\n'
             '            return\n'
             '        elif self.key in source_dict:\n'
             '            value = source_dict[self.key]\n'
             '\n'
             '            if not load:\n'
             '                dest_dict[self.key] = value\n'
             '            else:\n'
             '                impl = dest_state.get_impl(self.key)\n'
             '                impl.set(dest_state, dest_dict, value, None)\n'
             '        elif dest_state.has_identity and self.key not in dest_dict:\n'
             '            dest_state._expire_attributes(\n'
             '                dest_dict, [self.key], no_loader=True\n'
             '            )\n',
        '    ) -> None:\n'
             '        if not self.instrument:\n'
             '            return\n'
             '\n'
             '        prop_key = self.key\n'
             '        if prop_key in source_dict:\n'
             '            value = source_dict[prop_key]\n'
             '\n'
             '            if load:\n'
             '                # set via the attribute system so that history is recorded\n'
             '                impl = dest_state.get_impl(prop_key)\n'
             '                impl.set(dest_state, dest_dict, value, None)\n'
             '            else:\n'
             '                dest_dict[prop_key] = value\n'
             '        elif dest_state.has_identity:\n'
             '            if prop_key not in dest_dict:\n'
             '                dest_state._expire_attributes(\n'
             '                    dest_dict, [prop_key], no_loader=True\n'
             '                )\n'), None)
R.mutant('benign-rfI_9-merge-related-helper', RELS, chain(
    sub('                current_state = attributes.instance_state(current)\n'
             '                current_dict = attributes.instance_dict(current)\n'
             '                _recursive[(current_state, self)] = True\n'
             '                obj = session._merge(\n'
             '                    current_state,\n'
             '                    current_dict,\n'
             '                    load=load,\n'
             '                    _recursive=_recursive,\n'
             '                    _resolve_conflict_map=_resolve_conflict_map,\n'
             '                )\n'
             '                if obj is not None:\n',
        '                obj = self._merge_related_instance(\n'
             '                    session, current, load, _recursive, _resolve_conflict_map\n'
             '                )\n'
             '                if obj is not None:\n'),
    sub('                current_state = attributes.instance_state(current)\n'
             '                current_dict = attributes.instance_dict(current)\n'
             '                _recursive[(current_state, self)] = True\n'
             '                obj = session._merge(\n'
             '                    current_state,\n'
             '                    current_dict,\n'
             '                    load=load,\n'
             '                    _recursive=_recursive,\n'
             '                    _resolve_conflict_map=_resolve_conflict_map,\n'
             '                )\n'
             '            else:\n',
        '                obj = self._merge_related_instance(\n'
             '                    session, current, load, _recursive, _resolve_conflict_map\n'
             '                )\n'
             '            else:\n'),
    sub('                    dest_state, dest_dict, obj, None\n'
             '                )\n',
        '                    dest_state, dest_dict, obj, None\n'
             '                )\n'
             '\n'
             '    def _merge_related_instance(\n'
             '        self,\n'
             '        session: Session,\n'
             '        current: Any,\n'
             '        load: bool,\n'
             '        _recursive: Dict[Any, object],\n'
             '        _resolve_conflict_map: Dict[_IdentityKeyType[Any], object],\n'
             '    ) -> Any:\n'
             '        """Cascade a merge operation to a single related object, marking\n'
             '        this relationship as visited for it."""\n'
             '\n'
             '        current_state = attributes.instance_state(current)\n'
             '        current_dict = attributes.instance_dict(current)\n'
             '        _recursive[(current_state, self)] = True\n'
             '        return session._merge(\n'
             '            current_state,\n'
             '            current_dict,\n'
             '            load=load,\n'
             '            _recursive=_recursive,\n'
             '            _resolve_conflict_map=_resolve_conflict_map,\n'
             '        )\n')), None)
# further benign variants of the same families (rob-I)
R.mutant("benign-merge-result-in-local", SESSION,
         sub("        with self.no_autoflush:\n            return self._merge(\n                object_state(instance),\n                attributes.instance_dict(instance),\n                load=load,\n                options=options,\n                _recursive={},\n                _resolve_conflict_map={},\n            )\n\n    def merge_all(",
             "        with self.no_autoflush:\n            merged_instance = self._merge(\n                object_state(instance),\n                attributes.instance_dict(instance),\n                load=load,\n                options=options,\n                _recursive={},\n                _resolve_conflict_map={},\n            )\n        return merged_instance\n\n    def merge_all("), None)
R.mutant("benign-new-instance-branches-swapped", SESSION,
         sub("        if merged is None:\n            merged = mapper.class_manager.new_instance()\n            merged_state = attributes.instance_state(merged)\n            merged_dict = attributes.instance_dict(merged)\n            new_instance = True\n            self._save_or_update_state(merged_state)\n        else:\n            merged_state = attributes.instance_state(merged)\n            merged_dict = attributes.instance_dict(merged)\n",
             "        if merged is not None:\n            merged_state = attributes.instance_state(merged)\n            merged_dict = attributes.instance_dict(merged)\n        else:\n            merged = mapper.class_manager.new_instance()\n            merged_state = attributes.instance_state(merged)\n            merged_dict = attributes.instance_dict(merged)\n            new_instance = True\n            self._save_or_update_state(merged_state)\n"), None)
R.mutant("benign-commit-all-branch-inverted", SESSION,
         sub("        if not load:\n            # remove any history\n            merged_state._commit_all(merged_dict, self.identity_map)\n",
             "        if load:\n            pass\n        else:\n            # remove any history\n            merged_state._commit_all(merged_dict, self.identity_map)\n"), None)
R.mutant("benign-memo-filing-extracted", SESSION, chain(
    sub("        _recursive[state] = merged\n        _resolve_conflict_map[key] = merged\n\n",
        "        self._file_merged(state, key, merged, _recursive, _resolve_conflict_map)\n\n"),
    sub("    def _validate_persistent(self, state: InstanceState[Any]) -> None:\n",
        "    def _file_merged(self, state, key, merged, _recursive, _resolve_conflict_map):  # type: ignore[no-untyped-def]  # noqa: E501\n        _recursive[state] = merged\n        _resolve_conflict_map[key] = merged\n\n    def _validate_persistent(self, state: InstanceState[Any]) -> None:\n")), None)
# the followed helpers must still be judged
R.mutant("merge-related-helper-fresh-conflict-map", RELS, chain(
    sub("                current_state = attributes.instance_state(current)\n                current_dict = attributes.instance_dict(current)\n                _recursive[(current_state, self)] = True\n                obj = session._merge(\n                    current_state,\n                    current_dict,\n                    load=load,\n                    _recursive=_recursive,\n                    _resolve_conflict_map=_resolve_conflict_map,\n                )\n                if obj is not None:\n                    dest_list.append(obj)\n",
        "                obj = self._merge_related_instance(\n                    session, current, load, _recursive, {}\n                )\n                if obj is not None:\n                    dest_list.append(obj)\n"),
    sub("    def _value_as_iterable(\n",
        "    def _merge_related_instance(self, session, current, load, _recursive, _resolve_conflict_map):  # type: ignore[no-untyped-def]  # noqa: E501\n        current_state = attributes.instance_state(current)\n        current_dict = attributes.instance_dict(current)\n        _recursive[(current_state, self)] = True\n        return session._merge(\n            current_state,\n            current_dict,\n            load=load,\n            _recursive=_recursive,\n            _resolve_conflict_map=_resolve_conflict_map,\n        )\n\n    def _value_as_iterable(\n")), "C45-R6")

# ---- round-2 seeds (str2-s): C45_1 = merge_all shares its memos across the batch; C45_2 = ColumnProperty.merge(load=False) keeps a pending destination value
_MA_OLD = ("        with self.no_autoflush:\n            return [\n                self._merge(\n                    object_state(instance),\n"
           "                    attributes.instance_dict(instance),\n                    load=load,\n                    options=options,\n"
           "                    _recursive={},\n                    _resolve_conflict_map={},\n                )\n                for instance in instances\n            ]\n")
R.mutant("merge-all-shares-memos-across-batch", SESSION,
         sub(_MA_OLD, "        seen: Dict[Any, object] = {}\n        conflicts: Dict[Any, object] = {}\n        with self.no_autoflush:\n            return [\n                self._merge(\n"
                      "                    object_state(instance),\n                    attributes.instance_dict(instance),\n                    load=load,\n                    options=options,\n"
                      "                    _recursive=seen,\n                    _resolve_conflict_map=conflicts,\n                )\n                for instance in instances\n            ]\n"), "C45-R6")
R.mutant("merge-all-shares-conflict-map-only", SESSION,
         sub(_MA_OLD, "        with self.no_autoflush:\n            conflicts: Dict[Any, object] = dict()\n            merged_all = []\n            for instance in instances:\n"
                      "                merged_all.append(\n                    self._merge(\n                        object_state(instance),\n                        attributes.instance_dict(instance),\n"
                      "                        load=load,\n                        options=options,\n                        _recursive={},\n                        _resolve_conflict_map=conflicts,\n"
                      "                    )\n                )\n            return merged_all\n"), "C45-R6")
R.mutant("merge-frozen-result-memo-hoisted-out-of-row-loop", LOADING,
         sub("        result = []\n        for newrow in frozen_result._rewrite_rows():\n            for i in mapped_entities:\n                if newrow[i] is not None:\n                    newrow[i] = session._merge(\n"
             "                        attributes.instance_state(newrow[i]),\n                        attributes.instance_dict(newrow[i]),\n                        load=load,\n                        _recursive={},\n",
             "        result = []\n        seen_states = {}\n        for newrow in frozen_result._rewrite_rows():\n            for i in mapped_entities:\n                if newrow[i] is not None:\n                    newrow[i] = session._merge(\n"
             "                        attributes.instance_state(newrow[i]),\n                        attributes.instance_dict(newrow[i]),\n                        load=load,\n                        _recursive=seen_states,\n"), "C45-R6")
R.mutant("benign-merge-all-loop-with-per-object-memo-locals", SESSION,
         sub(_MA_OLD, "        with self.no_autoflush:\n            merged_all = []\n            for instance in instances:\n                seen: Dict[Any, object] = {}\n                conflicts: Dict[Any, object] = dict()\n"
                      "                merged_all.append(\n                    self._merge(\n                        object_state(instance),\n                        attributes.instance_dict(instance),\n"
                      "                        load=load,\n                        options=options,\n                        _recursive=seen,\n                        _resolve_conflict_map=conflicts,\n"
                      "                    )\n                )\n            return merged_all\n"), None)
R.mutant("benign-merge-memo-locals", SESSION,
         sub("        with self.no_autoflush:\n            return self._merge(\n                object_state(instance),\n                attributes.instance_dict(instance),\n                load=load,\n"
             "                options=options,\n                _recursive={},\n                _resolve_conflict_map={},\n            )\n\n    def merge_all(",
             "        seen: Dict[Any, object] = {}\n        conflicts: Dict[Any, object] = {}\n        with self.no_autoflush:\n            return self._merge(\n                object_state(instance),\n"
             "                attributes.instance_dict(instance),\n                load=load,\n                options=options,\n                _recursive=seen,\n                _resolve_conflict_map=conflicts,\n            )\n\n    def merge_all("), None)
_CM_OLD = "            if not load:\n                dest_dict[self.key] = value\n            else:\n                impl = dest_state.get_impl(self.key)\n                impl.set(dest_state, dest_dict, value, None)\n"
R.mutant("column-merge-keeps-pending-destination-value-without-load", PROPS,
         sub(_CM_OLD, "            if not load:\n                if self.key not in dest_state.committed_state:\n                    dest_dict[self.key] = value\n            else:\n"
                      "                impl = dest_state.get_impl(self.key)\n                impl.set(dest_state, dest_dict, value, None)\n"), "C45-R8")
R.mutant("column-merge-skips-set-when-destination-loaded", PROPS,
         sub(_CM_OLD, "            if not load:\n                dest_dict[self.key] = value\n            elif self.key not in dest_dict:\n                impl = dest_state.get_impl(self.key)\n"
                      "                impl.set(dest_state, dest_dict, value, None)\n"), "C45-R8")
R.mutant("relationship-merge-scalar-none-not-copied", RELS,
         sub("            else:\n                obj = None\n\n            if not load:\n                dest_dict[self.key] = obj\n",
             "            else:\n                return\n\n            if not load:\n                dest_dict[self.key] = obj\n"), "C45-R8")
R.mutant("relationship-merge-empty-collection-not-copied", RELS,
         sub("            if not load:\n                coll = attributes.init_state_collection(\n", "            if not dest_list:\n                pass\n            elif not load:\n                coll = attributes.init_state_collection(\n"), "C45-R8")
R.mutant("benign-column-merge-copy-extracted-early-return", PROPS, chain(
    sub("            value = source_dict[self.key]\n\n" + _CM_OLD, "            self._merge_value(source_dict[self.key], dest_state, dest_dict, load)\n"),
    sub("    def copy(self) -> ColumnProperty[_T]:\n", "    def _merge_value(self, value, dest_state, dest_dict, load):  # type: ignore[no-untyped-def]\n        if load:\n            dest_impl = dest_state.get_impl(self.key)\n"
                                                        "            dest_impl.set(dest_state, dest_dict, value, None)\n            return\n        dest_dict[self.key] = value\n\n    def copy(self) -> ColumnProperty[_T]:\n")), None)
R.mutant("benign-column-merge-stamping-flag-local", PROPS,
         sub(_CM_OLD, "            stamp_only = not load\n            if stamp_only:\n                dest_dict[self.key] = value\n            else:\n                impl = dest_state.get_impl(self.key)\n"
                      "                impl.set(dest_state, dest_dict, value, None)\n"), None)
R.mutant("benign-relationship-merge-scalar-early-return", RELS,
         sub("            if not load:\n                dest_dict[self.key] = obj\n            else:\n                dest_state.get_impl(self.key).set(\n                    dest_state, dest_dict, obj, None\n                )\n",
             "            if not load:\n                dest_dict[self.key] = obj\n                return\n            dest_impl_ = dest_state.get_impl(self.key)\n            dest_impl_.set(dest_state, dest_dict, obj, None)\n"), None)
